"""Verdict bookkeeping: rule instances, violations, known findings, evidence."""
import json
import re
import os
import sys
import time

from . import facts as F

VERIF = F.VERIF
KNOWN = os.path.join(VERIF, "known_findings.json")


def load_known():
    try:
        with open(KNOWN) as f:
            return json.load(f)
    except FileNotFoundError:
        return {"findings": []}


class Run:
    """One run of one property's check."""

    def __init__(self, prop, tier):
        self.prop = prop
        self.tier = tier
        self.t0 = time.time()
        self.instances = []       # every rule instance evaluated
        self.violations = []      # dicts
        self.rule_counts = {}
        self.rule_text = {}
        self.seen_keys = set()
        self.nontrivial_keys = set()
        self.analysed = {}
        self.configs = []
        self.assumptions = []
        self.notes = []
        self.exhaustive_tables = []
        self.controls = []        # positive controls (rule, fired?)
        self.selftests = []
        self.undecided = []
        try:
            self.seed = int(os.environ.get("VERIF_SEED", "0"))
        except ValueError:
            self.seed = 0

    # -- recording ---------------------------------------------------------
    def rule(self, rule, text):
        self.rule_text[rule] = text
        self.rule_counts.setdefault(rule, {"instances": 0, "violations": 0})

    def ok(self, rule, key, what, loc=None, nontrivial=True, detail=None):
        """record an instance that satisfied the rule"""
        self._inst(rule, key, what, loc, nontrivial, detail, True)

    def bad(self, rule, key, what, loc=None, detail=None):
        """record a violating instance"""
        self._inst(rule, key, what, loc, True, detail, False)
        full = "%s/%s" % (rule, key)
        if any(v["key"] == full for v in self.violations):
            return
        self.violations.append({"rule": rule, "key": full, "what": what, "loc": loc, "detail": detail})

    _OPAQUE = re.compile(r"<opaque[:>]|\('opaque'|-> opaque\b|= opaque\b|\bopaque not foldable|gives opaque\b|is opaque\b")

    def check(self, cond, rule, key, what_ok, what_bad=None, loc=None, detail=None, nontrivial=True):
        if cond:
            self.ok(rule, key, what_ok, loc, nontrivial, detail)
        elif what_bad and self._OPAQUE.search(what_bad):
            # the value the rule compares did not fold (rules.common.fold returned 'opaque'): three-valued logic, the
            # instance is not decided and is never a violation
            self.ok(rule, key, "not decided: a function did not fold to a value (%s)" % what_bad[:160], loc, False, detail)
        else:
            self.bad(rule, key, what_bad or ("NOT: " + what_ok), loc, detail)
        return bool(cond)

    def anchor_missing(self, rule, key, what, loc=None):
        """a structure the rule needs was not found.  Fail closed — unless the only thing missing is a PRIVATE function of
        the baseline inventory: then an inline-function refactoring folded it into its callers, the rule's structure no
        longer exists and the rule is `not decided` (recorded, printed, never a violation)."""
        from . import baseline, facts as _facts
        known = [(m, baseline.lookup(m)) for m in _facts.MISSED]
        known = [(m, r) for m, r in known if r is not None]
        if known and not any(r for _, r in known):
            gone = sorted({m for m, _ in known})
            self.undecided.append({"rule": rule, "key": key, "gone": gone})
            self.ok(rule, "not-decided/" + key, "private function(s) %s of the baseline inventory no longer exist (folded into "
                    "their callers): this rule is not decided" % ", ".join(gone), loc, nontrivial=False)
            return
        self.bad(rule, "anchor-missing/" + key, "anchor missing: " + what, loc)

    def _inst(self, rule, key, what, loc, nontrivial, detail, ok):
        from . import facts as _facts
        del _facts.MISSED[:]
        rc = self.rule_counts.setdefault(rule, {"instances": 0, "violations": 0})
        full = "%s/%s" % (rule, key)
        if full not in self.seen_keys:
            rc["instances"] += 1
            self.seen_keys.add(full)
            if nontrivial:
                self.nontrivial_keys.add(full)
            if not ok:
                rc["violations"] += 1
            self.instances.append({"key": full, "ok": ok, "what": what, "loc": loc,
                                   **({"detail": detail} if detail is not None else {})})

    def control(self, rule, fired, what):
        """positive control: the rule must fire on the seeded fixture"""
        self.controls.append({"rule": rule, "fired": bool(fired), "what": what})
        if not fired:
            self.bad(rule, "positive-control", "checker self-test failed: rule did not fire on its positive control: " + what)

    # -- finishing ---------------------------------------------------------
    def finish(self, explanation, level_note=None):
        known = load_known()["findings"]
        open_keys = {}
        for k in known:
            if k.get("status", "open") != "open":
                continue
            props = k.get("properties") or [k.get("property")]
            if self.prop in props:
                open_keys[k["key"]] = k
        real = []
        kf = []
        for v in self.violations:
            if v["key"] in open_keys:
                kf.append((v, open_keys[v["key"]]))
            else:
                real.append(v)
        evdir = os.environ.get("VERIF_EVIDENCE_DIR") or os.path.join(VERIF, "evidence")
        vdir = os.path.join(evdir, "violations")
        os.makedirs(vdir, exist_ok=True)
        for fn in os.listdir(vdir):
            if fn.startswith(self.prop + "-"):
                os.unlink(os.path.join(vdir, fn))
        for v, k in kf:
            print("KNOWN-FINDING: property=%s %s [%s]" % (self.prop, k.get("what", v["what"]), v["key"]))
        for i, v in enumerate(real):
            p = os.path.join(vdir, "%s-%d.json" % (self.prop, i))
            with open(p, "w") as f:
                json.dump({"property": self.prop, **v, "tree": getattr(self, "tree_hash", None),
                           "rule_text": self.rule_text.get(v["rule"])}, f, indent=1)
            print("VIOLATION property=%s replay=%s" % (self.prop, p))
            print("  rule=%s key=%s" % (v["rule"], v["key"]))
            print("  at %s: %s" % (v["loc"], v["what"]))
        if self.tier == "thorough" and not os.environ.get("VERIF_SUBRUN"):
            self.selftests = selftest_seeded(self.prop)
            lost = [t["seed"] for t in self.selftests if t.get("expected") and t.get("detected") is False]
            if lost:
                self.notes.append("self-test: seeded changes previously reported by this check are no longer reported: %s" % lost)
                print("SELF-TEST WARNING property=%s no longer detects seeded changes %s" % (self.prop, lost))
        wall = time.time() - self.t0
        samples = []
        # a spread of instances: first of every rule, then fill
        seen_rules = set()
        for inst in self.instances:
            r = inst["key"].split("/", 1)[0]
            if r not in seen_rules:
                seen_rules.add(r)
                samples.append(inst)
        for inst in self.instances:
            if len(samples) >= 40:
                break
            if inst not in samples:
                samples.append(inst)
        cov = {
            "explanation": explanation,
            "evaluations": len(self.instances),
            "distinct_nontrivial": len(self.nontrivial_keys),
            "rule": "one evaluation = one rule instance (a call site, table cell, field, path obligation) located in "
                    "the exported HIR/MIR of /repo's current tree; non-trivial = the verdict needed a resolved "
                    "callee, a folded constant, a slice, a dominator or a table row (pure presence checks are "
                    "counted as trivial)",
            "samples": samples,
            "rules": {r: {**c, "text": self.rule_text.get(r, "")} for r, c in self.rule_counts.items()},
            "analysed": self.analysed,
            "configurations": self.configs,
            "exhaustive": bool(self.exhaustive_tables),
            "exhaustive_tables": self.exhaustive_tables,
            "positive_controls": self.controls,
            "selftest_variants": self.selftests,
            "known_findings_matched": [v["key"] for v, _ in kf],
            "not_covered": ["#[cfg(test)] code", "target_family windows/wasm arm of FsTzdbProvider::get"],
            "notes": self.notes,
            "not_decided": self.undecided,
        }
        ev = {
            "property_id": self.prop,
            "tier": self.tier,
            "seed": self.seed,
            "level": "other",
            "coverage": cov,
            "assumptions": self.assumptions,
            "wall_s": round(wall, 2),
            "violations": len(real),
        }
        os.makedirs(evdir, exist_ok=True)
        with open(os.path.join(evdir, self.prop + ".json"), "w") as f:
            json.dump(ev, f, indent=1)
        nrules = len(self.rule_counts)
        for u in self.undecided:
            if "gone" in u:
                print("NOT-DECIDED property=%s rule=%s/%s: private baseline function(s) %s no longer exist" %
                      (self.prop, u["rule"], u["key"], ", ".join(u["gone"])))
            else:
                print("NOT-DECIDED property=%s rule=%s/%s: %s" % (self.prop, u["rule"], u["key"], u.get("why", "")))
        print("%s %s: %d rule instances over %d rules, %d violations (%d known), %.1fs" %
              (self.prop, self.tier, len(self.instances), nrules, len(real), len(kf), wall))
        return 1 if real else 0


def selftest_seeded(prop):
    """thorough tier: apply each seeded change kept for this property to a scratch copy of /repo (outside /repo and /verif),
    run this property's quick check against the copy in a sub-process and record whether it reports a violation.  The
    copies, their fact exports and evidence go to a temporary directory that is removed afterwards."""
    import concurrent.futures as cf
    import glob
    import shutil
    import subprocess
    import tempfile
    from .facts import REPO
    seeds = sorted(glob.glob(os.path.join(VERIF, "seeded", "*", "*", "patch.diff")))
    mine = []
    for sp in seeds:
        d = os.path.dirname(sp)
        try:
            with open(os.path.join(d, "meta.json")) as fh:
                meta = json.load(fh)
        except (OSError, ValueError):
            continue
        if prop in (meta.get("caught_by") or []) or meta.get("property") == prop:
            mine.append((d, meta))
    root = tempfile.mkdtemp(prefix="verif-selftest.")
    out = []

    def one(item):
        d, meta = item
        sid = "%s/%s" % (os.path.basename(os.path.dirname(d)), os.path.basename(d))
        work = os.path.join(root, sid.replace("/", "_"))
        res = {"seed": sid, "expected": prop in (meta.get("caught_by") or [])}
        try:
            subprocess.run(["rsync", "-a", "--exclude", "/target", "--exclude", ".git", REPO.rstrip("/") + "/", work + "/"], check=True)
            a = subprocess.run(["git", "apply", "--whitespace=nowarn", os.path.join(d, "patch.diff")], cwd=work,
                               capture_output=True, text=True)
            if a.returncode != 0:
                res["skipped"] = "patch does not apply to the current tree"
                return res
            env = dict(os.environ, VERIF_REPO=work, VERIF_SUBRUN="1", VERIF_EVIDENCE_DIR=os.path.join(work + ".ev"))
            p = subprocess.run([sys.executable, os.path.join(VERIF, "checks", "run"), prop, "quick"], env=env,
                               capture_output=True, text=True, cwd=VERIF)
            res["detected"] = p.returncode == 1
            res["exit"] = p.returncode
            first = [l.strip() for l in p.stdout.splitlines() if l.startswith("  rule=")]
            res["rule"] = first[0][:200] if first else None
        except Exception as e:         # the self-test must never break the check itself
            res["skipped"] = "self-test error: %s" % e
        finally:
            shutil.rmtree(work, ignore_errors=True)
            shutil.rmtree(work + ".ev", ignore_errors=True)
        return res
    try:
        with cf.ThreadPoolExecutor(max_workers=4) as ex:
            out = list(ex.map(one, mine))
    finally:
        shutil.rmtree(root, ignore_errors=True)
    return out
