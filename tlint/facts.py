"""Fact export orchestration and loading.

A check never looks at /repo directly: it hashes /repo's working tree, makes sure
facts for exactly that tree exist under /verif/.cache (re-exporting otherwise, in
a scratch copy outside /repo and /verif), and loads them.
"""
import fcntl
import hashlib
import json
import os
import shutil
import subprocess
import sys
import tempfile
import time

VERIF = os.path.dirname(os.path.dirname(os.path.abspath(__file__)))
REPO = os.environ.get("VERIF_REPO", "/repo")
CACHE = os.path.join(VERIF, ".cache")
DRIVER = os.path.join(VERIF, "tfacts", "target", "release", "tfacts")

CONFIGS = {
    # name: (cargo args, crates expected, floors on MIR bodies)
    "full": (["--workspace", "--features", "compiled_data"],
             {"temporal_rs": 1000, "temporal_capi": 400, "temporal_provider": 20, "icu_calendar": 0}),
    "default": (["-p", "temporal_rs"], {"temporal_rs": 800}),
    "nodefault": (["-p", "temporal_rs", "--no-default-features"], {"temporal_rs": 800}),
    "tzdb": (["-p", "temporal_rs", "--no-default-features", "--features", "tzdb"], {"temporal_rs": 900}),
}


def _files(repo):
    try:
        out = subprocess.run(["git", "-C", repo, "ls-files", "-co", "--exclude-standard", "-z"],
                             capture_output=True, check=True).stdout
        names = [n for n in out.decode().split("\0") if n]
    except Exception:
        names = []
        for root, dirs, files in os.walk(repo):
            dirs[:] = [d for d in dirs if d not in (".git", "target")]
            for f in files:
                names.append(os.path.relpath(os.path.join(root, f), repo))
    return sorted(set(names))


def tree_hash(repo=REPO):
    h = hashlib.sha256()
    for n in _files(repo):
        p = os.path.join(repo, n)
        if not os.path.isfile(p):
            continue
        h.update(n.encode())
        h.update(b"\0")
        with open(p, "rb") as f:
            h.update(hashlib.sha256(f.read()).digest())
    # the exporter is part of the meaning of the facts
    try:
        with open(DRIVER, "rb") as f:
            h.update(hashlib.sha256(f.read()).digest())
    except OSError:
        pass
    return h.hexdigest()[:20]


def _export(repo, config, dest):
    args, _ = CONFIGS[config]
    scratch = tempfile.mkdtemp(prefix="tfacts-src.")
    try:
        src = os.path.join(scratch, "src")
        subprocess.run(["rsync", "-a", "--exclude", "/target", "--exclude", ".git", repo.rstrip("/") + "/", src + "/"],
                       check=True)
        out = os.path.join(scratch, "out")
        os.makedirs(out)
        cmd = [os.path.join(VERIF, "tfacts", "run_export.sh"), src, out] + args
        p = subprocess.run(cmd, capture_output=True, text=True)
        if p.returncode != 0:
            sys.stderr.write(p.stdout[-4000:] + "\n" + p.stderr[-8000:] + "\n")
            raise RuntimeError("fact export failed for config %s (does the tree compile?)" % config)
        tmpdest = dest + ".tmp%d" % os.getpid()
        if os.path.exists(tmpdest):
            shutil.rmtree(tmpdest)
        shutil.move(out, tmpdest)
        with open(os.path.join(tmpdest, "COMPLETE"), "w") as f:
            f.write(time.strftime("%Y-%m-%dT%H:%M:%S"))
        os.rename(tmpdest, dest)
    finally:
        shutil.rmtree(scratch, ignore_errors=True)


def _prune(keep):
    try:
        ents = [os.path.join(CACHE, e) for e in os.listdir(CACHE) if e.startswith("facts-")]
    except OSError:
        return
    ents.sort(key=lambda p: os.path.getmtime(p), reverse=True)
    for p in ents[12:]:
        if os.path.basename(p) != keep:
            shutil.rmtree(p, ignore_errors=True)


def ensure(config="full", repo=REPO):
    """Return the directory holding facts for the current tree and config."""
    if not os.path.exists(DRIVER):
        raise RuntimeError("tfacts driver not built; run MANIFEST setup_cmd")
    os.makedirs(CACHE, exist_ok=True)
    h = tree_hash(repo)
    base = os.path.join(CACHE, "facts-" + h)
    dest = os.path.join(base, config)
    if os.path.exists(os.path.join(dest, "COMPLETE")):
        os.utime(base, None)
        return dest, h, False
    os.makedirs(base, exist_ok=True)
    lock = open(os.path.join(base, ".lock-" + config), "w")
    fcntl.flock(lock, fcntl.LOCK_EX)
    try:
        if not os.path.exists(os.path.join(dest, "COMPLETE")):
            _export(repo, config, dest)
            _prune("facts-" + h)
            return dest, h, True
        return dest, h, False
    finally:
        fcntl.flock(lock, fcntl.LOCK_UN)
        lock.close()


def fixture_facts(name):
    """facts of a control crate under /verif/fixtures (exported on demand, cached by content + exporter hash)"""
    src = os.path.join(VERIF, "fixtures", name)
    h = hashlib.sha256()
    for root, dirs, files in sorted(os.walk(src)):
        dirs[:] = sorted(d for d in dirs if d != "target")
        for f in sorted(files):
            if f == "Cargo.lock":
                continue
            h.update(f.encode())
            with open(os.path.join(root, f), "rb") as fh:
                h.update(fh.read())
    with open(DRIVER, "rb") as fh:
        h.update(hashlib.sha256(fh.read()).digest())
    dest = os.path.join(CACHE, "fixture-%s-%s" % (name, h.hexdigest()[:16]))
    if not os.path.exists(os.path.join(dest, "COMPLETE")):
        os.makedirs(CACHE, exist_ok=True)
        scratch = tempfile.mkdtemp(prefix="tfacts-fix.")
        try:
            work = os.path.join(scratch, "src")
            shutil.copytree(src, work, ignore=shutil.ignore_patterns("target", "Cargo.lock"))
            out = os.path.join(scratch, "out")
            os.makedirs(out)
            env = dict(os.environ, TFACTS_CRATES=name, TFACTS_HIR_ONLY="")
            p = subprocess.run([os.path.join(VERIF, "tfacts", "run_export.sh"), work, out], capture_output=True, text=True, env=env)
            if p.returncode != 0:
                sys.stderr.write(p.stderr[-3000:])
                raise RuntimeError("export of fixture %s failed" % name)
            tmpdest = dest + ".tmp%d" % os.getpid()
            shutil.rmtree(tmpdest, ignore_errors=True)
            shutil.move(out, tmpdest)
            open(os.path.join(tmpdest, "COMPLETE"), "w").write("ok")
            shutil.rmtree(dest, ignore_errors=True)
            os.rename(tmpdest, dest)
        finally:
            shutil.rmtree(scratch, ignore_errors=True)
    with open(os.path.join(dest, name + ".json")) as fh:
        return FixtureFacts({name: Crate(json.load(fh))})


class FixtureFacts:
    def __init__(self, crates):
        self.crates = crates

    def __getitem__(self, c):
        return self.crates[c]


class Fn:
    __slots__ = ("d", "crate")

    def __init__(self, d, crate):
        self.d = d
        self.crate = crate

    path = property(lambda s: s.d["path"])
    kind = property(lambda s: s.d["kind"])
    hir = property(lambda s: s.d.get("hir"))
    mir = property(lambda s: s.d.get("mir"))
    promoted = property(lambda s: s.d.get("promoted", []))
    params = property(lambda s: s.d.get("params", []))
    ret = property(lambda s: s.d.get("ret"))
    reachable = property(lambda s: s.d.get("reachable", False))
    vis = property(lambda s: s.d.get("vis"))

    @property
    def name(self):
        return self.path.rsplit("::", 1)[-1]

    @property
    def file(self):
        return self.d["span"]["f"]

    @property
    def line(self):
        return self.d["span"]["l"]

    @property
    def loc(self):
        return "%s:%d" % (self.file, self.line)

    def __repr__(self):
        return "<Fn %s>" % self.path


# function lookups that found nothing since the last recorded rule instance (core.Run.anchor_missing consults them)
MISSED = []


class Crate:
    def __init__(self, d):
        self.d = d
        self.name = d["crate"]
        self.fns = [Fn(f, self) for f in d["fns"]]
        self.by_path = {}
        for f in self.fns:
            self.by_path.setdefault(f.path, f)
        self.adts = {a["path"]: a for a in d["adts"]}
        self.impls = d["impls"]
        self.consts = {c["path"]: c for c in d["consts"]}
        self.traits = d.get("traits", [])

    def fn(self, path):
        f = self.by_path.get(path)
        if f is None:
            MISSED.append(path)
        return f

    def fns_ending(self, suffix):
        r = [f for f in self.fns if f.path.endswith(suffix)]
        if not r:
            MISSED.append(suffix)
        return r

    def fn1(self, suffix):
        """unique function whose path ends with `suffix` (on a :: boundary)"""
        c = [f for f in self.fns if f.path == suffix or f.path.endswith("::" + suffix)]
        if not c:
            MISSED.append(suffix)
        return c[0] if len(c) == 1 else None

    def mir_count(self):
        return sum(1 for f in self.fns if f.mir is not None)


class Facts:
    def __init__(self, config="full", repo=REPO):
        t0 = time.time()
        self.dir, self.hash, self.exported = ensure(config, repo)
        self.config = config
        self.crates = {}
        _, floors = CONFIGS[config]
        docs = {}
        for c, floor in floors.items():
            p = os.path.join(self.dir, c + ".json")
            if not os.path.exists(p):
                raise RuntimeError("fact file missing for crate %s (config %s)" % (c, config))
            with open(p) as f:
                docs[c] = json.load(f)
        # functions that were only moved or renamed since the inventory get their inventory path back (tlint/baseline.py)
        from . import baseline as _baseline
        self.moved = _baseline.canonicalise(docs)
        for c, floor in floors.items():
            self.crates[c] = Crate(docs[c])
            n = self.crates[c].mir_count()
            if n < floor:
                raise RuntimeError("crate %s exported only %d MIR bodies (< floor %d)" % (c, n, floor))
        self.load_s = time.time() - t0

    def __getitem__(self, c):
        return self.crates[c]

    def all_fns(self, crates=None):
        for c in (crates or self.crates):
            if c in self.crates:
                yield from self.crates[c].fns

    def fn(self, path):
        for c in self.crates.values():
            f = c.fn(path)
            if f:
                return f
        return None

    def summary(self):
        return {c: {"functions": len(cr.fns), "mir_bodies": cr.mir_count(), "adts": len(cr.adts),
                    "impls": len(cr.impls)} for c, cr in self.crates.items()}
