"""The function inventory of the tree the rules were written against (tlint/data/baseline_fns.json, tools/mkbaseline.py).

A callee that is not in the inventory is a helper introduced later (extract-function refactoring): rules see through it.
A private inventory function that no longer exists was folded into its callers (inline-function refactoring): a rule
anchored on it is `not decided`, not violated — the property can only be decided where the rule's structure still exists."""
import json
import os

_DATA = os.path.join(os.path.dirname(os.path.abspath(__file__)), "data", "baseline_fns.json")
_B = None


def _load():
    global _B
    if _B is None:
        with open(_DATA) as fh:
            _B = json.load(fh)
    return _B


def _pub(r):
    return r[0] if isinstance(r, list) else r


def is_new(path):
    """a function of one of the repository's crates that the inventory does not know"""
    b = _load()
    crate = path.lstrip("<").split("::", 1)[0]
    if crate not in b:
        return False
    return path not in b[crate]


def was_private(suffix):
    """did the inventory contain a NON-public function whose path ends with `suffix` (and no public one)?"""
    b = _load()
    hits = [r for fns in b.values() for p, r in fns.items() if p == suffix or p.endswith("::" + suffix) or p.endswith(suffix)]
    return bool(hits) and not any(_pub(h) for h in hits)


def lookup(name):
    """None: the inventory has no function of that path / suffix; True: a public one; False: only private ones"""
    b = _load()
    hits = [r for fns in b.values() for p, r in fns.items() if p == name or p.endswith("::" + name) or
            (name.startswith("::") and p.endswith(name))]
    if not hits:
        return None
    return any(_pub(h) for h in hits)


# ---------------------------------------------------------------------------------------------------------------------
# moved / renamed functions
#
# A function of the inventory that has disappeared while a function the inventory does not know has appeared with the same
# signature and the same body (up to the names of locals and the paths of the repository functions it calls) was MOVED or
# RENAMED (a free helper that became an associated function, a method that changed module).  The loader gives it back its
# inventory path, in every crate's facts, so the rules keep seeing the program they were written against.

def crates():
    return set(_load())


def _local(path, cr):
    p = path.lstrip("<&")
    return p.split("::", 1)[0] in cr


def fingerprint(d, cr=None):
    """structural digest of a function record of the fact files, or None when it has no body"""
    import hashlib
    if not d.get("hir"):
        return None
    cr = cr or crates()
    names = {}

    def nm(n):
        return names.setdefault(n, "v%d" % len(names))

    def walk(x):
        if isinstance(x, dict):
            out = []
            k = x.get("k")
            for key in sorted(x):
                v = x[key]
                if key in ("l", "e", "f", "span", "body_span"):
                    continue
                if key in ("fn", "full", "resolved") and isinstance(v, str) and k in ("call", "mcall"):
                    if _local(v, cr):
                        v = "\u00b7"
                    out.append((key, v))
                    continue
                if k == "mcall" and key in ("name", "recv", "recv_ty", "args"):
                    continue
                if k == "call" and key == "args":
                    continue
                if key == "name" and k in ("bind",):
                    out.append((key, nm(v)))
                    continue
                if key == "local" and isinstance(v, str):
                    out.append((key, nm(v)))
                    continue
                out.append((key, walk(v)))
            if k == "mcall":
                out.append(("args", walk([x.get("recv")] + list(x.get("args") or []))))
                out = [("k", "call") if o == ("k", "mcall") else o for o in out]
            elif k == "call":
                out.append(("args", walk(x.get("args") or [])))
            return tuple(sorted(out, key=lambda o: o[0]))
        if isinstance(x, list):
            return tuple(walk(y) for y in x)
        return x

    hir = d["hir"]
    body = (walk(hir.get("params")), walk(hir.get("value")))
    sig = (tuple(p.get("ty") for p in d.get("params", [])), d.get("ret"), d.get("abi"), len(d.get("generics") or []))
    return hashlib.sha256(repr((sig, body)).encode()).hexdigest()[:24]


def _tokens(path):
    import re
    return set(t for t in re.split(r"[^A-Za-z0-9]+|_", path.rsplit("::", 1)[-1]) if t)


def moved(current):
    """current: {crate: [function record, ...]} of the tree under analysis.  Returns {new path: inventory path}."""
    b = _load()
    cr = set(b)
    out = {}
    for c, recs in current.items():
        inv = b.get(c)
        if not inv:
            continue
        have = {r["path"] for r in recs}
        gone = {}
        for p, r in inv.items():
            if p not in have and isinstance(r, list) and r[1] and "{closure" not in p:
                gone.setdefault(r[1], []).append(p)
        if not gone:
            continue
        fresh = {}
        for r in recs:
            if r["path"] not in inv and "{closure" not in r["path"] and r.get("kind") in ("Fn", "AssocFn"):
                fp = fingerprint(r, cr)
                if fp in gone:
                    fresh.setdefault(fp, []).append(r["path"])
        for fp, news in fresh.items():
            olds = gone[fp]
            if len(news) == 1 and len(olds) == 1:
                out[news[0]] = olds[0]
                continue
            # several functions with one body (trivial accessors): pair them by the words of their names, else leave them
            left = list(olds)
            for n in sorted(news):
                best = sorted(left, key=lambda o: -len(_tokens(o) & _tokens(n)))
                if best and len(_tokens(best[0]) & _tokens(n)) > 0 and \
                        (len(best) == 1 or len(_tokens(best[1]) & _tokens(n)) < len(_tokens(best[0]) & _tokens(n))):
                    out[n] = best[0]
                    left.remove(best[0])
    return out


_ITEMS = os.path.join(os.path.dirname(os.path.abspath(__file__)), "data", "baseline_items.json")
_I = None


def _items():
    global _I
    if _I is None:
        try:
            with open(_ITEMS) as fh:
                _I = json.load(fh)
        except OSError:
            _I = {"adts": {}, "consts": {}}
    return _I


def _strip_local(ty, cr):
    """a type string with the module part of every repository path removed (`temporal_rs::a::b::X<..>` -> `X<..>`)"""
    import re
    return re.sub(r"\b(?:%s)(?:::[A-Za-z_][A-Za-z0-9_]*)+" % "|".join(sorted(cr)), lambda m: m.group(0).rsplit("::", 1)[-1], ty or "")


def adt_fingerprint(a, cr=None):
    import hashlib
    cr = cr or crates()
    body = (a.get("kind"), tuple((v.get("name") if a.get("kind") == "enum" else None, v.get("discr"), tuple((f.get("name"), _strip_local(f.get("ty"), cr), f.get("pub"))
                                                                    for f in v.get("fields") or []))
                             for v in a.get("variants") or []))
    return hashlib.sha256(repr(body).encode()).hexdigest()[:24]


def const_fingerprint(c, cr=None):
    import hashlib
    cr = cr or crates()
    return hashlib.sha256(repr((_strip_local(c.get("ty"), cr), json.dumps(c.get("val"), sort_keys=True))).encode()).hexdigest()[:24]


def moved_items(docs, kind):
    """types (kind 'adts') / constants (kind 'consts') of the inventory that disappeared while an item of the same name and the
    same definition appeared under another path: {new path: inventory path}"""
    inv_all = _items().get(kind, {})
    cr = crates()
    fpf = adt_fingerprint if kind == "adts" else const_fingerprint
    out = {}
    for c, d in docs.items():
        inv = inv_all.get(c)
        if not inv:
            continue
        have = {a["path"]: a for a in d.get(kind, [])}
        gone = [p for p in inv if p not in have]
        if not gone:
            continue
        fresh = [p for p in have if p not in inv]
        fps = {q: fpf(have[q], cr) for q in fresh}
        for g in gone:
            cands = [q for q in fresh if q.rsplit("::", 1)[-1] == g.rsplit("::", 1)[-1] and fps[q] == inv[g]]
            if len(cands) == 1 and cands[0] not in out:
                out[cands[0]] = g
        # renamed (not only moved): the definition is unique among the vanished and among the new items
        left_g = [g for g in gone if g not in out.values()]
        left_f = [q for q in fresh if q not in out]
        for g in left_g:
            if sum(1 for h in left_g if inv[h] == inv[g]) != 1:
                continue
            cands = [q for q in left_f if fps[q] == inv[g]]
            if len(cands) == 1:
                out[cands[0]] = g
    return out


def _rewrite(docs, fix):
    def walk(x):
        if isinstance(x, dict):
            for k, v in x.items():
                if isinstance(v, str):
                    if "::" in v:
                        x[k] = fix(v)
                else:
                    walk(v)
        elif isinstance(x, list):
            for i, v in enumerate(x):
                if isinstance(v, str):
                    if "::" in v:
                        x[i] = fix(v)
                else:
                    walk(v)
    for d in docs.values():
        walk(d)


def canonicalise(docs):
    """docs: {crate: parsed fact file}.  Gives moved types, constants and functions their inventory paths back, everywhere.
    Returns the map {path in this tree: inventory path}."""
    import re
    total = {}
    # 1. types: every path that goes through the type (its methods, its trait impls, type strings) moves with it
    for _ in range(4):      # a renamed type changes the definition of the types that contain it: repeat until stable
        mp = moved_items(docs, "adts")
        mp = {k: v for k, v in mp.items() if k not in total}
        if not mp:
            break
        rx = re.compile("(?:%s)(?![A-Za-z0-9_])" % "|".join(re.escape(k) for k in sorted(mp, key=len, reverse=True)))
        _rewrite(docs, lambda s, rx=rx, mp=mp: rx.sub(lambda m: mp[m.group(0)], s))
        total.update(mp)
    # 2. constants and statics
    mc = moved_items(docs, "consts")
    if mc:
        _rewrite(docs, lambda s: mc.get(s, s))
        total.update(mc)
    # 3. functions
    total.update(_canonicalise_fns(docs))
    return total


def _canonicalise_fns(docs):
    """docs: {crate: parsed fact file}.  Renames moved functions back to their inventory paths, everywhere.  Returns the map."""
    mp = moved({c: d["fns"] for c, d in docs.items()})
    if not mp:
        return mp
    pre = [(n + "::{", o + "::{") for n, o in mp.items()]

    def fix(s):
        if s in mp:
            return mp[s]
        for a, bb in pre:
            if s.startswith(a):
                return bb + s[len(a):]
        return s

    def walk(x):
        if isinstance(x, dict):
            for k, v in x.items():
                if isinstance(v, str):
                    if "::" in v:
                        x[k] = fix(v)
                else:
                    walk(v)
        elif isinstance(x, list):
            for i, v in enumerate(x):
                if isinstance(v, str):
                    if "::" in v:
                        x[i] = fix(v)
                else:
                    walk(v)

    for d in docs.values():
        walk(d)
    return mp
