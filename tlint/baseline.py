"""The function inventory of the tree the rules were written against (tlint/data/baseline_fns.json, tools/mkbaseline.py).

A callee that is not in the inventory is a helper introduced later (extract-function refactoring): rules see through it.
A private inventory function that no longer exists was folded into its callers (inline-function refactoring): a rule
anchored on it is `not decided`, not violated — the property can only be decided where the rule's structure still exists."""
import json
import os

_DATA = os.path.join(os.path.dirname(os.path.abspath(__file__)), "data", "baseline_fns.json")
_B = None


def _load():
    global _B
    if _B is None:
        with open(_DATA) as fh:
            _B = json.load(fh)
    return _B


def is_new(path):
    """a function of one of the repository's crates that the inventory does not know"""
    b = _load()
    crate = path.lstrip("<").split("::", 1)[0]
    if crate not in b:
        return False
    return path not in b[crate]


def was_private(suffix):
    """did the inventory contain a NON-public function whose path ends with `suffix` (and no public one)?"""
    b = _load()
    hits = [r for fns in b.values() for p, r in fns.items() if p == suffix or p.endswith("::" + suffix) or p.endswith(suffix)]
    return bool(hits) and not any(hits)


def lookup(name):
    """None: the inventory has no function of that path / suffix; True: a public one; False: only private ones"""
    b = _load()
    hits = [r for fns in b.values() for p, r in fns.items() if p == name or p.endswith("::" + name) or
            (name.startswith("::") and p.endswith(name))]
    if not hits:
        return None
    return any(hits)
