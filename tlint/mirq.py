"""MIR helpers: CFG, dominators, def/use, call sites, call graph."""
from collections import defaultdict


def line_of(x):
    if isinstance(x, list):
        return x[0]
    return x


def place_local(p):
    return p if isinstance(p, int) else p["l"]


def place_proj(p):
    return [] if isinstance(p, int) else p["p"]


def op_place(op):
    """place of a copy/move operand or None"""
    if "c" in op:
        return op["c"]
    if "m" in op:
        return op["m"]
    return None


def op_local(op):
    p = op_place(op)
    return None if p is None else place_local(p)


def op_const(op):
    return op.get("k")


class Call:
    __slots__ = ("bb", "t", "body")

    def __init__(self, bb, t, body):
        self.bb, self.t, self.body = bb, t, body

    @property
    def fn(self):
        return self.t["fn"]

    @property
    def path(self):
        return self.t["fn"].get("path")

    @property
    def target(self):
        """resolved callee path when known, else declared path"""
        f = self.t["fn"]
        return f.get("resolved") or f.get("path")

    @property
    def full(self):
        return self.t["fn"].get("full")

    @property
    def args(self):
        return self.t["args"]

    @property
    def dest(self):
        return self.t["dest"]

    @property
    def line(self):
        return line_of(self.t.get("line"))

    @property
    def macros(self):
        l = self.t.get("line")
        return l[1] if isinstance(l, list) else []

    @property
    def generic_args(self):
        return self.t["fn"].get("args", [])

    def __repr__(self):
        return "<Call bb%d %s>" % (self.bb, self.target)


class Body:
    def __init__(self, fn, mir=None):
        self.fn = fn
        self.m = mir if mir is not None else fn.mir
        self.blocks = self.m["blocks"]
        self.locals = self.m["locals"]
        self.argc = self.m["argc"]
        self._doms = None
        self._preds = None
        self._defs = None

    # ---- basic structure -----------------------------------------------------
    def local_ty(self, l):
        return self.locals[l][0]

    def local_name(self, l):
        return self.locals[l][1]

    def succs(self, bb, unwind=False):
        t = self.blocks[bb]["t"]
        k = t["k"]
        out = []
        if k == "goto":
            out.append(t["t"])
        elif k == "switch":
            out += [a[1] for a in t["arms"]] + [t["else"]]
        elif k in ("call", "drop", "assert"):
            if t.get("t") is not None:
                out.append(t["t"])
            if unwind and isinstance(t.get("unwind"), int):
                out.append(t["unwind"])
        return out

    def preds(self):
        if self._preds is None:
            p = defaultdict(list)
            for i in range(len(self.blocks)):
                for s in self.succs(i):
                    p[s].append(i)
            self._preds = p
        return self._preds

    def reachable(self, start=0, unwind=False, stop=None):
        seen = set()
        st = [start]
        while st:
            b = st.pop()
            if b in seen:
                continue
            seen.add(b)
            if stop is not None and stop(b):
                continue
            st += self.succs(b, unwind)
        return seen

    def calls(self):
        out = []
        for i, b in enumerate(self.blocks):
            if b["t"]["k"] == "call":
                out.append(Call(i, b["t"], self))
        return out

    def normal_blocks(self):
        return [i for i, b in enumerate(self.blocks) if not b["cleanup"]]

    # ---- dominators (normal edges) ----------------------------------------------
    def dominators(self):
        if self._doms is not None:
            return self._doms
        n = len(self.blocks)
        reach = self.reachable(0)
        order = []
        seen = set()

        def dfs(b):
            stack = [(b, iter(self.succs(b)))]
            seen.add(b)
            while stack:
                node, it = stack[-1]
                adv = False
                for s in it:
                    if s not in seen:
                        seen.add(s)
                        stack.append((s, iter(self.succs(s))))
                        adv = True
                        break
                if not adv:
                    order.append(node)
                    stack.pop()
        dfs(0)
        rpo = list(reversed(order))
        idx = {b: i for i, b in enumerate(rpo)}
        idom = {0: 0}
        preds = self.preds()
        changed = True
        while changed:
            changed = False
            for b in rpo[1:]:
                ps = [p for p in preds[b] if p in idom]
                if not ps:
                    continue
                new = ps[0]
                for p in ps[1:]:
                    a, c = p, new
                    while a != c:
                        while idx[a] > idx[c]:
                            a = idom[a]
                        while idx[c] > idx[a]:
                            c = idom[c]
                    new = a
                if idom.get(b) != new:
                    idom[b] = new
                    changed = True
        self._doms = idom
        return idom

    def dominates(self, a, b):
        idom = self.dominators()
        if b not in idom:
            return False
        while True:
            if a == b:
                return True
            if b == 0 or idom[b] == b:
                return a == b
            b = idom[b]

    # ---- defs and uses ----------------------------------------------------------
    def defs(self):
        """local -> list of (bb, idx|'term', kind, payload)"""
        if self._defs is None:
            d = defaultdict(list)
            for i, b in enumerate(self.blocks):
                for j, s in enumerate(b["s"]):
                    if s[0] == "=":
                        d[place_local(s[1])].append((i, j, "assign", s))
                t = b["t"]
                if t["k"] == "call":
                    d[place_local(t["dest"])].append((i, "term", "call", t))
            self._defs = d
        return self._defs

    def uses(self, local):
        """all reads of `local`: list of (bb, idx|'term', description, node)"""
        out = []

        def in_operand(op):
            p = op_place(op)
            return p is not None and place_local(p) == local

        def in_place_index(p):
            return any(isinstance(e, dict) and e.get("idx") == local for e in place_proj(p))
        for i, b in enumerate(self.blocks):
            for j, s in enumerate(b["s"]):
                if s[0] != "=":
                    continue
                rv = s[2]
                kind = rv[0]
                # writes through a projection of the local read it too
                if place_local(s[1]) == local and place_proj(s[1]):
                    out.append((i, j, "assign-into", s))
                if kind == "use" and in_operand(rv[1]):
                    out.append((i, j, "move" if "m" in rv[1] else "copy", s))
                elif kind == "ref" and place_local(rv[2]) == local:
                    out.append((i, j, "ref-" + rv[1], s))
                elif kind == "rawptr" and place_local(rv[2]) == local:
                    out.append((i, j, "rawptr", s))
                elif kind == "cast" and in_operand(rv[2]):
                    out.append((i, j, "cast", s))
                elif kind == "bin" and (in_operand(rv[2]) or in_operand(rv[3])):
                    out.append((i, j, "bin", s))
                elif kind == "un" and in_operand(rv[2]):
                    out.append((i, j, "un", s))
                elif kind == "discr" and place_local(rv[1]) == local:
                    out.append((i, j, "discr", s))
                elif kind == "agg" and any(in_operand(o) for o in rv[2]):
                    out.append((i, j, "agg", s))
                elif kind == "repeat" and in_operand(rv[1]):
                    out.append((i, j, "repeat", s))
            t = b["t"]
            k = t["k"]
            if k == "call":
                for ai, a in enumerate(t["args"]):
                    if in_operand(a):
                        out.append((i, "term", "arg%d" % ai, t))
                f = t["fn"]
                if "ptr" in f and in_operand(f["ptr"]):
                    out.append((i, "term", "callee", t))
            elif k == "drop" and place_local(t["place"]) == local:
                out.append((i, "term", "drop", t))
            elif k == "switch" and in_operand(t["on"]):
                out.append((i, "term", "switch", t))
            elif k == "assert" and in_operand(t["cond"]):
                out.append((i, "term", "assert", t))
        return out


def static_refs(fn, suffix):
    """(bb, idx, local) of assignments `local = const &STATIC` whose static path ends with suffix"""
    out = []
    if fn.mir is None:
        return out
    for i, b in enumerate(fn.mir["blocks"]):
        for j, s in enumerate(b["s"]):
            if s[0] == "=" and s[2][0] == "use" and "k" in s[2][1]:
                v = s[2][1]["k"].get("val")
                if isinstance(v, dict) and str(v.get("static", "")).endswith(suffix):
                    out.append((i, j, place_local(s[1])))
    return out


class CallGraph:
    """resolved call graph over a set of crates; trait calls on unresolved receivers fan out to every local impl"""

    def __init__(self, fx, crates):
        self.fx = fx
        self.crates = crates
        self.fns = {}
        for c in crates:
            for f in fx[c].fns:
                if f.mir is not None:
                    self.fns[f.path] = f
        # trait method name -> impl fns
        self.impls = defaultdict(list)
        for f in self.fns.values():
            tr = f.d.get("impl_trait")
            if tr:
                self.impls[(tr, f.name)].append(f)
        self.edges = {}
        self.sites = {}

    def callees(self, path):
        if path in self.edges:
            return self.edges[path]
        f = self.fns.get(path)
        out = set()
        sites = []
        if f is not None:
            b = Body(f)
            for c in b.calls():
                tgts = self.resolve(c)
                for t in tgts:
                    out.add(t)
                sites.append((c, tgts))
            # closures defined in the body are potential callees
            for i, blk in enumerate(b.blocks):
                for s in blk["s"]:
                    if s[0] == "=" and s[2][0] == "agg" and "closure" in s[2][1]:
                        out.add(s[2][1]["closure"])
            # function items passed as values (e.g. map(Into::into), map(Self::f))
            for blk in b.blocks:
                t = blk["t"]
                if t["k"] == "call":
                    for a in t["args"]:
                        k = a.get("k")
                        if k and "fn" in k:
                            fnj = k["fn"]
                            out.add(fnj.get("resolved") or fnj.get("path"))
        self.edges[path] = out
        self.sites[path] = sites
        return out

    def resolve(self, c):
        f = c.fn
        if "ptr" in f:
            return set()
        tgt = f.get("resolved") or f.get("path")
        if tgt in self.fns:
            return {tgt}
        tr = f.get("trait")
        if tr and "resolved" not in f:
            name = f["path"].rsplit("::", 1)[-1]
            impls = self.impls.get((tr, name))
            if impls:
                return {g.path for g in impls}
        # Display via ToString / format machinery: edge to the local Display impl of the type argument
        p = f.get("path", "")
        if p in ("alloc::string::ToString::to_string", "core::fmt::rt::Argument::<'_>::new_display",
                 "core::fmt::Display::fmt"):
            out = set()
            if not hasattr(self, "_display_impls"):
                self._display_impls = {}
                for g in self.fns.values():
                    d = getattr(g, "d", {})
                    if g.name == "fmt" and (d.get("impl_trait") or "").endswith("fmt::Display") and d.get("impl_self"):
                        self._display_impls.setdefault(d["impl_self"], set()).add(g.path)
            for a in f.get("args", []):
                a = a.lstrip("&").replace("mut ", "")
                cand = "<%s as core::fmt::Display>::fmt" % a
                if cand in self.fns:
                    out.add(cand)
                out |= self._display_impls.get(a, set())
            if out:
                return out
        return {tgt} if tgt else set()

    def closure(self, roots):
        seen = set()
        st = list(roots)
        while st:
            p = st.pop()
            if p in seen:
                continue
            seen.add(p)
            st += list(self.callees(p))
        return seen

    def path_to(self, root, pred, limit=100000):
        """shortest call chain from root to a function satisfying pred (BFS)"""
        from collections import deque
        prev = {root: None}
        dq = deque([root])
        n = 0
        while dq:
            p = dq.popleft()
            n += 1
            if n > limit:
                break
            if pred(p) and p != root:
                chain = []
                while p is not None:
                    chain.append(p)
                    p = prev[p]
                return list(reversed(chain))
            for q in self.callees(p):
                if q not in prev:
                    prev[q] = p
                    dq.append(q)
        return None
