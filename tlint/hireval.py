"""Constant folding / partial evaluation of type-checked HIR trees.

This is the table extractor behind the R1 rules: small pure functions of the
repository (match tables over enum variants, literals and constants) are folded
over every element of their finite domain, *from the exported syntax tree*; no
compiled code of the repository is executed.  Anything the folder does not
understand becomes an opaque `Sym` term, so a result is only ever used when it
folded completely.
"""
import re
from collections import namedtuple
from . import baseline as _baseline

V = namedtuple("V", "path args")          # enum variant / tuple-struct constructor value
S = namedtuple("S", "path fields")        # struct literal (fields: tuple of (name, value))
T = namedtuple("T", "items")              # tuple
Sym = namedtuple("Sym", "what parts")     # opaque residual term
Range = namedtuple("Range", "lo hi inclusive")
Closure = namedtuple("Closure", "node env")


_MISSING = object()


class Panic(Exception):
    def __init__(self, what, line=None):
        Exception.__init__(self, what)
        self.what = what
        self.line = line


class Return(Exception):
    def __init__(self, value):
        Exception.__init__(self)
        self.value = value


class Break(Exception):
    def __init__(self, value):
        Exception.__init__(self)
        self.value = value


class Budget(Exception):
    pass


class Continue(Exception):
    pass


SOME = "core::option::Option::Some"
NONE = "core::option::Option::None"
OK = "core::result::Result::Ok"
ERR = "core::result::Result::Err"
CONTINUE = "core::ops::control_flow::ControlFlow::Continue"
BREAK = "core::ops::control_flow::ControlFlow::Break"


def some(x):
    return V(SOME, (x,))


NONE_V = V(NONE, ())


def is_sym(v):
    return isinstance(v, Sym)


def has_sym(v):
    if isinstance(v, Sym):
        return True
    if isinstance(v, V):
        return any(has_sym(a) for a in v.args)
    if isinstance(v, S):
        return any(has_sym(a) for _, a in v.fields)
    if isinstance(v, T):
        return any(has_sym(a) for a in v.items)
    return False


def sfield(s, name):
    for n, v in s.fields:
        if n == name:
            return v
    return Sym("nofield", (name,))


INT_BITS = {"i8": 8, "i16": 16, "i32": 32, "i64": 64, "i128": 128, "isize": 64,
            "u8": 8, "u16": 16, "u32": 32, "u64": 64, "u128": 128, "usize": 64}


def wrap_int(v, ty):
    if ty not in INT_BITS or not isinstance(v, int) or isinstance(v, bool):
        return v
    bits = INT_BITS[ty]
    m = v & ((1 << bits) - 1)
    if ty[0] == "i" and m >= (1 << (bits - 1)):
        m -= (1 << bits)
    return m


def line_of(node):
    l = node.get("l") if isinstance(node, dict) else None
    if isinstance(l, list):
        return l[0]
    return l


class Evaluator:
    def __init__(self, facts, max_steps=200000, max_depth=40):
        self.facts = facts
        self.max_steps = max_steps
        self.max_depth = max_depth
        self.steps = 0
        self.depth = 0
        self.variant_index = {}
        self.calls_folded = set()
        self.inline = lambda path: True     # which in-repo callees are folded (others stay terms)
        self.trace = []                     # residual calls in evaluation order (effects)
        self.fork = False                   # path-forking mode (decision extraction)
        self._oracle = []
        self._taken = []
        self.index_events = []              # (line, base term, index term, decisions so far) for symbolic indexing
        self.stubs = {}                     # substring of a callee path -> function(args) -> value | NotImplemented
        self.lossy = []                     # why a folded VALUE cannot be trusted (skipped loop, lost early return, &mut call)
        self._loop_depth = 0
        for c in facts.crates.values():
            for p, a in c.adts.items():
                if a["kind"] == "enum":
                    for i, v in enumerate(a["variants"]):
                        self.variant_index[p + "::" + v["name"]] = (i, v.get("discr"))

    # ---- public helpers ----------------------------------------------------
    def enum_values(self, adt_path):
        for c in self.facts.crates.values():
            a = c.adts.get(adt_path)
            if a:
                return [V(adt_path + "::" + v["name"], ()) for v in a["variants"]]
        return None

    def call_fn(self, fn, args):
        """fold function `fn` (facts.Fn) on argument values"""
        self.steps = 0
        self.trace = []
        return self._call(fn, list(args))

    def paths(self, fn, args, max_paths=512):
        """decision extraction: fold `fn` along every combination of outcomes of its undecidable
        branch conditions.  Yields (decisions, outcome, trace) where decisions is a list of
        (condition-term, choice) and outcome is a value, or a Panic instance."""
        from .terms import show
        out = []
        pending = [[]]
        old = self.fork
        self.fork = True
        try:
            while pending:
                prefix = pending.pop()
                self._oracle = list(prefix)
                self._taken = []
                self.steps = 0
                self.trace = []
                self.index_events = []
                try:
                    res = self._call(fn, list(args))
                except Panic as pn:
                    res = pn
                taken = list(self._taken)
                # schedule the untried alternatives of every choice made beyond the prefix
                for i in range(len(prefix), len(taken)):
                    cond, choice, alts = taken[i]
                    for a in alts:
                        if a != choice:
                            pending.append([(c, ch) for c, ch, _ in taken[:i]] + [(cond, a)])
                out.append(([(c, ch) for c, ch, _ in taken], res, list(self.trace)))
                self.all_index_events = getattr(self, "all_index_events", []) + list(self.index_events)
                if len(out) > max_paths:
                    raise Budget()
        finally:
            self.fork = old
        return out

    def _decide(self, condterm, alternatives):
        from .terms import show
        # `!c` is decided through `c` (so that rules reading decisions see one atom whatever the polarity in the source)
        if isinstance(condterm, Sym) and condterm.what == "un!" and list(alternatives) == [True, False]:
            return not self._decide(condterm.parts[0], [False, True])
        key = show(condterm)
        i = len(self._taken)
        # a condition decided earlier on this path keeps its outcome
        for c, ch, _ in self._taken:
            if c == key and ch in alternatives:
                return ch
        if i < len(self._oracle) and self._oracle[i][0] == key:
            choice = self._oracle[i][1]
        else:
            choice = alternatives[0]
        self._taken.append((key, choice, list(alternatives)))
        return choice

    # ---- internals ----------------------------------------------------------
    def _tick(self):
        self.steps += 1
        if self.steps > self.max_steps:
            raise Budget()

    def _call(self, fn, args):
        hir = fn.hir
        if hir is None:
            return Sym("nohir", (fn.path,))
        if self.depth >= self.max_depth:
            return Sym("depth", (fn.path,))
        self.depth += 1
        self.calls_folded.add(fn.path)
        try:
            env = {}
            params = hir["params"]
            if len(params) != len(args):
                return Sym("arity", (fn.path,))
            for p, a in zip(params, args):
                if not self.bind(p, a, env):
                    return Sym("parambind", (fn.path,))
            self._last_env = env
            try:
                return self.ev(hir["value"], env)
            except Return as r:
                return r.value
            finally:
                self._last_env = env
        finally:
            self.depth -= 1

    def lookup_fn(self, path):
        return self.facts.fn(path)

    def _write_back(self, n, f, env):
        """after folding a callee: what it assigned through a `&mut` parameter is visible in the caller's local"""
        cenv = getattr(self, "_last_env", None)
        if not isinstance(cenv, dict) or not isinstance(n, dict):
            return
        pats = f.hir.get("params") or []
        nodes = []
        if n.get("k") == "mcall":
            nodes.append((n.get("recv"), str(n.get("recv_ty", "")).lstrip().startswith("&mut")))
            nodes += [(a, isinstance(a, dict) and a.get("k") == "addr" and bool(a.get("mut"))) for a in n.get("args") or []]
        else:
            nodes += [(a, isinstance(a, dict) and a.get("k") == "addr" and bool(a.get("mut"))) for a in n.get("args") or []]
        for (an, is_mut), pat in zip(nodes, pats):
            if not is_mut or not isinstance(an, dict):
                continue
            while an.get("k") in ("addr", "un"):
                an = an.get("e") if an["k"] == "addr" else an.get("a")
                if not isinstance(an, dict):
                    break
            if not isinstance(an, dict) or pat.get("k") != "bind":
                if is_mut:
                    self.lossy.append("a `&mut` argument the folder cannot write back")
                continue
            newv = cenv.get(pat["name"])
            chain = []
            b = an
            while b.get("k") == "field":
                chain.append(b["name"])
                b = b.get("e") or {}
            if b.get("k") == "path" and "local" in b.get("res", {}):
                name = b["res"]["local"]
                if chain:
                    env[name] = self._set_field(env.get(name, Sym("local", (name,))), list(reversed(chain)), newv)
                else:
                    env[name] = newv
            else:
                self.lossy.append("a `&mut` argument the folder cannot write back")

    def _dispatch_trait_method(self, path, recv):
        """a trait method called through a type parameter (`Roundable::is_exact(x, d)` inside generic code): with a concrete
        receiver value the implementation is the one for that value's type - the unique impl of the trait for an integer /
        float / the value's own ADT in the repository's crates"""
        if "::" not in path or path.startswith("<"):
            return None
        trait, method = path.rsplit("::", 1)
        if not trait.startswith(("temporal_rs::", "temporal_capi::", "temporal_provider::")):
            return None
        if isinstance(recv, bool):
            want = ("bool",)
        elif isinstance(recv, int):
            want = tuple(INT_BITS)
        elif isinstance(recv, float):
            want = ("f64", "f32")
        elif isinstance(recv, (V, S)):
            want = (recv.path, recv.path.rsplit("::", 1)[0])
        else:
            return None
        cands = []
        for c in self.facts.crates.values():
            for t in want:
                f = c.by_path.get("<%s as %s>::%s" % (t, trait, method))
                if f is not None and f.hir is not None:
                    cands.append(f)
        return cands[0] if len(cands) == 1 else None

    # pattern matching: returns True / False / None (unknown)
    def bind(self, pat, val, env):
        k = pat["k"]
        if k == "wild":
            return True
        if k == "bind":
            if pat.get("sub") is not None:
                r = self.bind(pat["sub"], val, env)
                if r is not True:
                    return r
            env[pat["name"]] = val
            return True
        if k in ("ref", "deref"):
            return self.bind(pat["pat"], val, env)
        if k == "or":
            unknown = False
            for p in pat["pats"]:
                e2 = dict(env)
                r = self.bind(p, val, e2)
                if r is True:
                    env.update(e2)
                    return True
                if r is None:
                    unknown = True
            return None if unknown else False
        if is_sym(val):
            return None
        if k == "lit":
            lv = self.litval(pat["v"])
            if isinstance(val, (int, str, bool, float)):
                return val == lv
            return None
        if k == "range":
            if not isinstance(val, int):
                return None
            lo = self.pat_expr_val(pat["lo"]) if pat.get("lo") else None
            hi = self.pat_expr_val(pat["hi"]) if pat.get("hi") else None
            if (lo is not None and not isinstance(lo, int)) or (hi is not None and not isinstance(hi, int)):
                return None
            if lo is not None and val < lo:
                return False
            if hi is not None:
                if pat["inclusive"] and val > hi:
                    return False
                if not pat["inclusive"] and val >= hi:
                    return False
            return True
        if k == "path":
            res = pat["path"]
            if "val" in pat and pat["val"] is not None and not isinstance(pat["val"], dict):
                return val == pat["val"]
            if "def" in res:
                if isinstance(val, V):
                    return val.path == res["def"] and len(val.args) == 0
                if isinstance(val, S):
                    return val.path == res["def"]
                return None
            return None
        if k == "tstruct":
            res = pat["path"]
            p = res.get("def") or res.get("selfctor")
            if not isinstance(val, V):
                return None
            if val.path != p:
                return False
            vargs = list(val.args)
            dd = pat.get("ddpos")
            if isinstance(dd, int) and len(vargs) >= len(pat["pats"]):
                skip = len(vargs) - len(pat["pats"])
                vargs = vargs[:dd] + vargs[dd + skip:]
            if len(vargs) != len(pat["pats"]):
                return None
            unknown = False
            for sp, sv in zip(pat["pats"], vargs):
                r = self.bind(sp, sv, env)
                if r is False:
                    return False
                if r is None:
                    unknown = True
            return None if unknown else True
        if k == "struct":
            res = pat["path"]
            p = res.get("def") or res.get("selfty")
            if isinstance(val, S):
                if val.path != p and not p.endswith(val.path) and not val.path.endswith(p or "?"):
                    return False
                unknown = False
                for name, sp in pat["fields"]:
                    r = self.bind(sp, sfield(val, name), env)
                    if r is False:
                        return False
                    if r is None:
                        unknown = True
                return None if unknown else True
            return None
        if k == "tuple":
            if not isinstance(val, T):
                return None
            pats, items = pat["pats"], list(val.items)
            dd = pat.get("ddpos")
            if isinstance(dd, int) and len(items) >= len(pats):
                # `(a, b, ..)`: the rest pattern stands for the items not named
                skip = len(items) - len(pats)
                items = items[:dd] + items[dd + skip:]
            if len(items) != len(pats):
                return None
            unknown = False
            for sp, sv in zip(pats, items):
                r = self.bind(sp, sv, env)
                if r is False:
                    return False
                if r is None:
                    unknown = True
            return None if unknown else True
        if k == "slice":
            if not isinstance(val, T):
                return None
            before, after, mid = pat.get("before") or [], pat.get("after") or [], pat.get("mid")
            n_ = len(val.items)
            if mid is None and n_ != len(before) + len(after):
                return False
            if n_ < len(before) + len(after):
                return False
            unknown = False
            subs = list(zip(before, val.items[:len(before)])) + list(zip(after, val.items[n_ - len(after):] if after else []))
            if mid is not None:
                subs.append((mid, T(tuple(val.items[len(before):n_ - len(after)]))))
            for sp, sv in subs:
                r = self.bind(sp, sv, env)
                if r is False:
                    return False
                if r is None:
                    unknown = True
            return None if unknown else True
        if k == "guard":
            r = self.bind(pat["pat"], val, env)
            if r is not True:
                return r
            c = self.ev(pat["cond"], env)
            return c if isinstance(c, bool) else None
        return None

    def pat_expr_val(self, pe):
        if pe["k"] == "lit":
            return self.litval(pe["v"])
        if pe["k"] == "path":
            v = pe.get("val")
            if v is not None and not isinstance(v, dict):
                return v
        return Sym("patexpr", ())

    def litval(self, l):
        for k in ("int", "str", "bool", "float", "char", "bytes"):
            if k in l:
                return l[k]
        return Sym("lit", ())

    def const_val(self, node):
        v = node.get("val")
        if v is None:
            return None
        if isinstance(v, dict):
            if "str" in v:
                return v["str"]
            if "tinystr" in v:
                return v["tinystr"]
            if "f64" in v:
                return v["f64"]
            if "char" in v:
                return chr(v["char"])
            return None
        return v

    def ev(self, n, env):
        self._tick()
        k = n["k"]
        m = getattr(self, "ev_" + k, None)
        if m is None:
            return Sym("unhandled:" + k, ())
        return m(n, env)

    # ---- expression kinds -------------------------------------------------------
    def ev___value(self, n, env):
        return n["v"]

    def ev_lit(self, n, env):
        v = self.litval(n["v"])
        return v

    def ev_path(self, n, env):
        res = n["res"]
        if "local" in res:
            return env.get(res["local"], Sym("local", (res["local"],)))
        if "def" in res:
            dk = res.get("dk", "")
            if dk in ("Const", "AssocConst"):
                cv = self.const_val(n)
                if cv is not None:
                    return cv
                if res["def"].startswith("core::num::nonzero::NonZero::<") and res["def"].endswith(">::MIN"):
                    return 1
                if res["def"] in ("num_traits::identities::ConstZero::ZERO", "num_traits::identities::ConstOne::ONE"):
                    # the associated constant of a numeric type parameter: the same number whatever the instantiation
                    one = res["def"].endswith("ONE")
                    ty = n.get("ty")
                    return (1.0 if one else 0.0) if ty in ("f64", "f32") else (1 if one else 0)
                # fold the const's own initialiser
                f = self.lookup_fn(res["def"])
                if f is not None and f.hir is not None:
                    return self._call(f, [])
                return Sym("const", (res["def"],))
            if dk == "Ctor":
                return V(self._ctor_path(res["def"]), ())
            if dk in ("Fn", "AssocFn"):
                return Sym("fnref", (res["def"],))
            if dk == "Static":
                return Sym("static", (res["def"],))
            return V(res["def"], ())
        if "selfctor" in res:
            return V(res["selfctor"], ())
        return Sym("path", (str(res),))

    def _ctor_path(self, p):
        # constructor def paths end in "::{constructor#0}" in some printers; normalise
        if p.endswith("::{constructor#0}"):
            return p[: -len("::{constructor#0}")]
        return p

    def ev_block(self, n, env):
        saved = {}

        def install(e2):
            for name, val in e2.items():
                if name not in env or env[name] is not val:
                    if name not in saved:
                        saved[name] = env.get(name, _MISSING)
                    env[name] = val

        try:
            for st in n["stmts"]:
                k = st["k"]
                if k == "let":
                    if st.get("init") is None:
                        for name in pat_names(st["pat"]):
                            install({name: Sym("uninit", (name,))})
                        continue
                    v = self.ev(st["init"], env)
                    e2 = {}
                    r = self.bind(st["pat"], v, e2)
                    if r is True:
                        install(e2)
                    elif r is False and st.get("els") is not None:
                        self.ev(st["els"], env)
                        return Sym("let-else-fallthrough", ())
                    else:
                        if st.get("els") is not None:
                            if self.fork:
                                if not self._decide(Sym("let-else", (pat_show(st["pat"]), v)), [True, False]):
                                    self.ev(st["els"], env)
                                    return Sym("let-else-fallthrough", ())
                            else:
                                self._safe(st["els"], dict(env))
                        install({name: Sym("pat", (name, v)) for name in pat_names(st["pat"])})
                elif k == "semi":
                    if _lost_control(self.ev(st["e"], env)):
                        self.lossy.append("an early return / break under an undecided condition was dropped")
                else:
                    if _lost_control(self.ev(st, env)):
                        self.lossy.append("an early return / break under an undecided condition was dropped")
            if n.get("expr") is not None:
                return self.ev(n["expr"], env)
            return T(())
        finally:
            for name, val in saved.items():
                if val is _MISSING:
                    env.pop(name, None)
                else:
                    env[name] = val

    def ev_semi(self, n, env):
        self.ev(n["e"], env)
        return T(())

    def ev_if(self, n, env):
        l0 = n.get("l")
        if isinstance(l0, list) and any(str(m).startswith("debug_assert") for m in l0[1]) and n.get("else") is None \
                and not getattr(self, "_in_dbg", False):
            # a debug assertion that FAILS on the values being folded: a panic of debug builds only.  The fold computes the
            # value of the release build (where the macro expands to nothing) and notes that the arguments are outside the
            # domain the function asserts.
            self._in_dbg = True
            try:
                return self._ev_if(n, env)
            except Panic as p:
                self.debug_assert_failed = getattr(self, "debug_assert_failed", []) + [p.line]
                return T(())
            finally:
                self._in_dbg = False
        return self._ev_if(n, env)

    def _ev_if(self, n, env):
        c = n["cond"]
        e2 = dict(env)
        cv = self.cond(c, e2)
        if cv is True:
            return self._in_scope(n["then"], env, e2)
        if cv is False:
            if n.get("else") is not None:
                return self.ev(n["else"], env)
            return T(())
        # the condition was evaluated once by cond(); evaluating it again only serves to obtain its term: the calls it
        # contains are the same calls and must not appear twice in the trace
        n_tr = len(self.trace)
        if self.fork:
            condterm = self._safe(c, dict(env))
            del self.trace[n_tr:]
            l = n.get("l")
            if isinstance(l, list) and any(str(m).startswith("debug_assert") for m in l[1]):
                condterm = Sym("debug_assertion", (condterm,))
            if self._decide(condterm, [True, False]):
                return self._in_scope(n["then"], env, e2)
            if n.get("else") is not None:
                return self.ev(n["else"], env)
            return T(())
        condterm = self._safe(c, dict(env))
        del self.trace[n_tr:]
        l = n.get("l")
        if isinstance(l, list) and any(str(m).startswith("debug_assert") for m in l[1]) and n.get("else") is None:
            # an undecided debug assertion: it has no effect on the value in a release build and panics in a debug
            # build only when it fails; the fold continues as in a release build
            return T(())
        ea = dict(e2)
        a = self._safe(n["then"], ea)
        eb = dict(env)
        b = self._safe(n["else"], eb) if n.get("else") is not None else T(())
        self._merge(env, condterm, ea, eb)
        return Sym("ite", (condterm, a, b))

    def _in_scope(self, node, env, e2):
        """evaluate node with the extra bindings of e2, keeping assignments to outer variables"""
        added = {k: v for k, v in e2.items() if k not in env or env[k] is not v}
        saved = {k: env.get(k, _MISSING) for k in added}
        env.update(added)
        try:
            return self.ev(node, env)
        finally:
            for k, v in saved.items():
                # a pattern binding shadows; restore the outer binding
                if v is _MISSING:
                    env.pop(k, None)
                else:
                    env[k] = v

    def _merge(self, env, cond, ea, eb):
        for name in list(env.keys()):
            va, vb = ea.get(name, _MISSING), eb.get(name, _MISSING)
            if va is _MISSING or vb is _MISSING:
                continue
            if va is env[name] and vb is env[name]:
                continue
            if va is vb or (not has_sym(va) and not has_sym(vb) and va == vb):
                env[name] = va
            else:
                env[name] = Sym("phi", (va, vb))

    def _safe(self, node, env):
        try:
            return self.ev(node, env)
        except Return as r:
            return Sym("return", (r.value,))
        except Panic as p:
            return Sym("panic", (p.what, p.line))

    def cond(self, c, env):
        """evaluate a condition, binding `let` patterns into env"""
        if c["k"] == "letx":
            v = self.ev(c["init"], env)
            e2 = {}
            r = self.bind(c["pat"], v, e2)
            if r is True:
                env.update(e2)
            elif r is None:
                for name in pat_names(c["pat"]):
                    env[name] = Sym("pat", (name, v))
            return r
        if c["k"] == "bin" and c["op"] == "&&":
            a = self.cond(c["a"], env)
            if a is False:
                return False
            b = self.cond(c["b"], env)
            if a is True:
                return b if isinstance(b, bool) else None
            return False if b is False else None
        v = self.ev(c, env)
        return v if isinstance(v, bool) else None

    def ev_letx(self, n, env):
        v = self.ev(n["init"], env)
        r = self.bind(n["pat"], v, env)
        return r if isinstance(r, bool) else Sym("letx", ())

    def ev_match(self, n, env):
        if n.get("src") == "TryDesugar":
            sc = n["scrut"]
            inner = sc["args"][0] if sc.get("k") == "call" and sc.get("args") else None
            if inner is not None:
                iv = self.ev(inner, env)
                if isinstance(iv, V) and iv.path in (OK, SOME):
                    return iv.args[0]
                if isinstance(iv, V) and iv.path in (ERR, NONE):
                    raise Return(iv)
                return Sym("try", (iv,))
        sv = self.ev(n["scrut"], env)
        unknown_from = None
        for i, arm in enumerate(n["arms"]):
            e2 = dict(env)
            r = self.bind(arm["pat"], sv, e2)
            if r is True:
                if arm.get("guard") is not None:
                    g = self.cond(arm["guard"], e2)
                    if g is False:
                        continue
                    if g is not True:
                        unknown_from = i
                        break
                return self._in_scope(arm["body"], env, e2)
            if r is None:
                unknown_from = i
                break
        if unknown_from is None:
            return Sym("match-noarm", (sv,))
        if self.fork:
            feasible = []
            for arm in n["arms"][unknown_from:]:
                e2 = dict(env)
                r = self.bind(arm["pat"], sv, e2)
                if r is False:
                    continue
                for name in pat_names(arm["pat"]):
                    if name not in e2 or r is None:
                        e2[name] = Sym("pat", (name, sv))
                label = pat_show(arm["pat"]) + (" if …" if arm.get("guard") is not None else "")
                feasible.append((label, arm, e2))
            labels = []
            for lab, _, _ in feasible:
                while lab in labels:
                    lab += "'"
                labels.append(lab)
            pick = self._decide(sv, labels)
            _, arm, e2 = feasible[labels.index(pick)]
            return self._in_scope(arm["body"], env, e2)
        outs = []
        envs = []
        for arm in n["arms"][unknown_from:]:
            e2 = dict(env)
            r = self.bind(arm["pat"], sv, e2)
            if r is False:
                continue
            for name in pat_names(arm["pat"]):
                if name not in e2 or r is None:
                    e2[name] = Sym("pat", (name, sv))
            outs.append(Sym("arm", (pat_show(arm["pat"]), self._safe(arm["body"], e2))))
            envs.append(e2)
        for name in list(env.keys()):
            vals = [e.get(name, _MISSING) for e in envs]
            if any(v is _MISSING for v in vals) or all(v is env[name] for v in vals):
                continue
            env[name] = Sym("phi", tuple(vals))
        return Sym("match", (sv, tuple(outs)))

    def ev_ret(self, n, env):
        v = self.ev(n["e"], env) if n.get("e") is not None else T(())
        raise Return(v)

    def ev_tup(self, n, env):
        return T(tuple(self.ev(e, env) for e in n["es"]))

    def ev_array(self, n, env):
        return T(tuple(self.ev(e, env) for e in n["es"]))

    def ev_addr(self, n, env):
        return self.ev(n["e"], env)

    def ev_closure(self, n, env):
        return Closure(n, dict(env))

    def ev_struct(self, n, env):
        res = n["path"]
        p = res.get("def") or res.get("selfty") or res.get("selfctor") or "?"
        fields = [(name, self.ev(e, env)) for name, e in n["fields"]]
        if "base" in n and isinstance(n["base"], dict):
            b = self.ev(n["base"], env)
            if isinstance(b, S):
                have = {nm for nm, _ in fields}
                fields += [(nm, v) for nm, v in b.fields if nm not in have]
            else:
                fields.append(("..", b))
        # `a..b` ranges are struct literals of core::ops::Range
        if p.endswith("ops::range::Range") or p.endswith("ops::Range"):
            d = dict(fields)
            return Range(d.get("start"), d.get("end"), False)
        return S(p, tuple(fields))

    def ev_field(self, n, env):
        b = self.ev(n["e"], env)
        name = n["name"]
        if isinstance(b, S):
            return sfield(b, name)
        if isinstance(b, (T, V)) and name.isdigit():
            items = b.items if isinstance(b, T) else b.args
            i = int(name)
            if i < len(items):
                return items[i]
        return Sym("field", (b, name))

    def ev_cast(self, n, env):
        v = self.ev(n["e"], env)
        ty = n.get("ty")
        if isinstance(v, bool) and ty in INT_BITS:
            return int(v)
        if isinstance(v, int):
            if ty in INT_BITS:
                return wrap_int(v, ty)
            if ty in ("f64", "f32"):
                return float(v)
        if isinstance(v, float) and ty in INT_BITS:
            if v != v:
                return 0
            bits = INT_BITS[ty]
            lo, hi = (-(1 << (bits - 1)), (1 << (bits - 1)) - 1) if ty[0] == "i" else (0, (1 << bits) - 1)
            return max(lo, min(hi, int(v)))
        if isinstance(v, V) and ty in INT_BITS and not v.args:
            vi = self.variant_index.get(v.path)
            if vi is not None:
                return vi[1] if vi[1] is not None else vi[0]
            if v.path.startswith("core::cmp::Ordering::"):
                return {"Less": -1, "Equal": 0, "Greater": 1}.get(v.path.rsplit("::", 1)[-1], Sym("cast", (v, ty)))
        if isinstance(v, str) and len(v) == 1 and ty in INT_BITS:
            return ord(v)
        return Sym("cast", (v, ty))

    def ev_un(self, n, env):
        a = self.ev(n["a"], env)
        op = n["op"]
        if op == "*":
            return a
        if is_sym(a):
            return Sym("un" + op, (a,))
        if op == "!":
            if isinstance(a, bool):
                return not a
            if isinstance(a, int):
                return wrap_int(~a, n.get("ty"))
        if op == "-" and isinstance(a, (int, float)) and not isinstance(a, bool):
            return -a
        return Sym("un" + op, (a,))

    def cmp_key(self, v):
        if isinstance(v, bool):
            return int(v)
        if isinstance(v, (int, float, str)):
            return v
        if isinstance(v, V) and not v.args:
            vi = self.variant_index.get(v.path)
            if vi is not None:
                return vi[0]
        if isinstance(v, V) and v.path == SOME:
            k = self.cmp_key(v.args[0])
            return None if k is None else (1, k)
        if isinstance(v, V) and v.path == NONE:
            return (0, 0)
        if isinstance(v, V) and len(v.args) == 1 and self._ordered_newtype(v.path):
            return self.cmp_key(v.args[0])
        return None

    def _ordered_newtype(self, path):
        """a one-field tuple struct whose ordering is that of its field: PartialOrd is derived (the comparison with a bare
        f64 of FiniteF64 forwards to the field too: src/primitive.rs `impl PartialOrd<f64> for FiniteF64`)"""
        cache = self.__dict__.setdefault("_newtype_cache", {})
        if path not in cache:
            ok = False
            for c in self.facts.crates.values():
                a = c.adts.get(path)
                if a and a["kind"] == "struct" and len(a["variants"]) == 1 and len(a["variants"][0]["fields"]) == 1:
                    ok = any(i.get("self_ty") == path and (i.get("trait") or "").endswith("cmp::PartialOrd") and i.get("derived")
                             for i in c.impls)
            cache[path] = ok
        return cache[path]

    def ev_bin(self, n, env):
        op = n["op"]
        if op in ("&&", "||"):
            a = self.ev(n["a"], env)
            if isinstance(a, bool):
                if op == "&&" and not a:
                    return False
                if op == "||" and a:
                    return True
                b = self.ev(n["b"], env)
                return b if isinstance(b, bool) else Sym("bool", (b,))
            b = self.ev(n["b"], env)
            if isinstance(b, bool):
                if op == "&&" and not b:
                    return False
                if op == "||" and b:
                    return True
            return Sym(op, (a, b))
        a = self.ev(n["a"], env)
        b = self.ev(n["b"], env)
        return self.binop(op, a, b, n.get("ty"), n)

    def binop(self, op, a, b, ty, n=None):
        if has_sym(a) or has_sym(b):
            if op in ("==", "!=") and _definitely_ne(self, a, b):
                # partly symbolic values that differ in a component whatever the symbols are (Some(x) against None)
                return op == "!="
            return Sym("bin" + op, (a, b))
        if op in ("==", "!="):
            if type(a) is type(b) or (isinstance(a, (int, float)) and isinstance(b, (int, float))):
                r = a == b
                return r if op == "==" else not r
            ka, kb = self.cmp_key(a), self.cmp_key(b)
            if ka is not None and kb is not None and isinstance(ka, (int, float)) and isinstance(kb, (int, float)) \
                    and (isinstance(a, V) and len(a.args) == 1 or isinstance(b, V) and len(b.args) == 1):
                return (ka == kb) if op == "==" else (ka != kb)         # ordered newtype against its field type
            return Sym("eq", (a, b))
        if op in ("<", "<=", ">", ">="):
            ka, kb = self.cmp_key(a), self.cmp_key(b)
            if ka is None or kb is None or type(ka) is not type(kb) and not (
                    isinstance(ka, (int, float)) and isinstance(kb, (int, float))):
                return Sym("cmp", (a, b))
            return {"<": ka < kb, "<=": ka <= kb, ">": ka > kb, ">=": ka >= kb}[op]
        if isinstance(a, bool) and isinstance(b, bool):
            if op == "&":
                return a and b
            if op == "|":
                return a or b
            if op == "^":
                return a != b
        if isinstance(a, (int, float)) and isinstance(b, (int, float)) and not isinstance(a, bool):
            isf = isinstance(a, float) or isinstance(b, float)
            try:
                if op == "+":
                    r = a + b
                elif op == "-":
                    r = a - b
                elif op == "*":
                    r = a * b
                elif op == "/":
                    if isf:
                        if b == 0:
                            r = float("nan") if (a == 0 or a != a) else float("inf") * (1 if (a > 0) == (str(float(b))[0] != "-") else -1)
                        else:
                            r = a / b
                    else:
                        if b == 0:
                            raise Panic("division by zero", line_of(n) if n else None)
                        q = abs(a) // abs(b)
                        r = q if (a >= 0) == (b >= 0) else -q
                elif op == "%":
                    if isf:
                        import math
                        r = math.fmod(a, b) if (b != 0 and a == a and abs(a) != float("inf")) else float("nan")
                    else:
                        if b == 0:
                            raise Panic("remainder by zero", line_of(n) if n else None)
                        r = abs(a) % abs(b)
                        r = r if a >= 0 else -r
                elif op == "<<":
                    r = a << b
                elif op == ">>":
                    r = a >> b
                elif op == "&":
                    r = a & b
                elif op == "|":
                    r = a | b
                elif op == "^":
                    r = a ^ b
                else:
                    return Sym("bin" + op, (a, b))
            except ZeroDivisionError:
                raise Panic("division by zero")
            if not isf and ty in INT_BITS:
                w = wrap_int(r, ty)
                if w != r:
                    raise Panic("arithmetic overflow in %s" % ty, line_of(n) if n else None)
            return r
        return Sym("bin" + op, (a, b))

    def ev_assign(self, n, env):
        v = self.ev(n["b"], env)
        a = n["a"]
        if a["k"] == "path" and "local" in a["res"]:
            env[a["res"]["local"]] = v
        elif a["k"] == "field":
            chain = []
            b = a
            while b["k"] == "field":
                chain.append(b["name"])
                b = b["e"]
            while b["k"] in ("un", "addr") :
                b = b["a"] if b["k"] == "un" else b["e"]
            if b["k"] == "path" and "local" in b["res"]:
                name = b["res"]["local"]
                env[name] = self._set_field(env.get(name, Sym("local", (name,))), list(reversed(chain)), v)
            else:
                self.lossy.append("an assignment through a place the folder does not model")
        elif a["k"] == "index":
            self._assign_index(a, v, env)
        elif a["k"] == "un" and a.get("op") == "*" and a["a"].get("k") == "path" and "local" in a["a"].get("res", {}):
            env[a["a"]["res"]["local"]] = v          # `*r = v` for a local reference modelled by its referent
        else:
            self.lossy.append("an assignment through a place the folder does not model")
        return T(())

    def _assign_index(self, a, v, env):
        base = a["a"]
        while base.get("k") in ("addr", "un"):
            base = base["e"] if base["k"] == "addr" else base["a"]
        idx = self.ev(a["b"], env)
        if base.get("k") == "path" and "local" in base.get("res", {}):
            name = base["res"]["local"]
            cur = env.get(name)
            if isinstance(cur, T) and isinstance(idx, int) and not isinstance(idx, bool):
                if not 0 <= idx < len(cur.items):
                    raise Panic("index out of bounds", line_of(a))
                items = list(cur.items)
                items[idx] = v
                env[name] = T(tuple(items))
                return
            env[name] = Sym("index-assigned", (name,))
        self.lossy.append("an indexed assignment the folder cannot resolve")

    def _set_field(self, base, chain, v):
        if not chain:
            return v
        f = chain[0]
        if isinstance(base, S):
            fields = []
            done = False
            for nm, val in base.fields:
                if nm == f:
                    fields.append((nm, self._set_field(val, chain[1:], v)))
                    done = True
                else:
                    fields.append((nm, val))
            if not done:
                fields.append((f, self._set_field(Sym("field", (base, f)), chain[1:], v)))
            return S(base.path, tuple(fields))
        return S("<updated>", (("..", base), (f, self._set_field(Sym("field", (base, f)), chain[1:], v))))

    def ev_assignop(self, n, env):
        a = n["a"]
        if a["k"] == "path" and "local" in a["res"]:
            name = a["res"]["local"]
            cur = env.get(name, Sym("local", (name,)))
            v = self.ev(n["b"], env)
            env[name] = self.binop(n["op"].rstrip("="), cur, v, a.get("ty"), n)
        elif a["k"] == "index":
            cur = self.ev(a, env)
            v = self.ev(n["b"], env)
            self._assign_index(a, self.binop(n["op"].rstrip("="), cur, v, a.get("ty"), n), env)
        elif a["k"] == "field":
            cur = self.ev(a, env)
            v = self.ev(n["b"], env)
            self.ev_assign({"a": a, "b": {"k": "__value", "v": self.binop(n["op"].rstrip("="), cur, v, a.get("ty"), n)}}, env)
        else:
            self.lossy.append("a compound assignment through a place the folder does not model")
        return T(())

    def ev_index(self, n, env):
        a = self.ev(n["a"], env)
        b = self.ev(n["b"], env)
        if isinstance(a, T) and isinstance(b, int):
            if 0 <= b < len(a.items):
                return a.items[b]
            raise Panic("index out of bounds", line_of(n))
        if isinstance(a, T) and isinstance(b, S) and b.path.startswith("core::ops::range::Range"):
            kind = b.path.rsplit("::", 1)[-1]
            st = sfield(b, "start") if kind in ("Range", "RangeFrom", "RangeInclusive") else 0
            en = sfield(b, "end") if kind in ("Range", "RangeTo", "RangeInclusive", "RangeToInclusive") else len(a.items)
            if isinstance(st, int) and isinstance(en, int) and not isinstance(st, bool) and not isinstance(en, bool):
                if kind in ("RangeInclusive", "RangeToInclusive"):
                    en += 1
                if not (0 <= st <= en <= len(a.items)):
                    raise Panic("range index out of bounds", line_of(n))
                return T(tuple(a.items[st:en]))
        an = n["a"]
        while an.get("k") in ("addr", "un"):
            an = an["e"] if an["k"] == "addr" else an["a"]
        bname = an["res"].get("local") if an.get("k") == "path" else an.get("name") if an.get("k") == "field" else None
        self.index_events.append((line_of(n), a, b, [(c, ch) for c, ch, _ in self._taken], bname))
        return Sym("index", (a, b))

    def ev_loop(self, n, env):
        """`for` loops over a concrete array / vector / integer range are executed (bounded); every other loop is skipped
        and recorded in `lossy`: a value folded from a function with a skipped loop is not a value of the function"""
        if not self.fork and n.get("src") == "ForLoop":
            r = self._run_for(n, env)
            if r is not NotImplemented:
                return r
        self.lossy.append("loop")
        # variables assigned in the body are unknown afterwards
        for x in _walk_nodes(n["body"]):
            if x.get("k") in ("assign", "assignop"):
                tgt = x.get("lhs") or x.get("a") or {}
                while isinstance(tgt, dict) and tgt.get("k") in ("field", "index", "un", "addr"):
                    tgt = tgt.get("of") or tgt.get("e") or tgt.get("a") or {}
                nm = (tgt.get("res") or {}).get("local") if isinstance(tgt, dict) and tgt.get("k") == "path" else None
                if nm in env:
                    env[nm] = Sym("loop-var", (nm,))
        return Sym("loop", ())

    def _run_for(self, n, env):
        body = n["body"]
        st = body.get("stmts") or []
        m = st[0] if (len(st) == 1 and body.get("expr") is None) else body.get("expr") if not st else None
        if not isinstance(m, dict) or m.get("k") != "match" or m.get("src") != "ForLoopDesugar":
            return NotImplemented
        sc = m["scrut"]
        if not str(sc.get("fn", "")).endswith("Iterator::next") or not sc.get("args"):
            return NotImplemented
        it = sc["args"][0]
        while it.get("k") in ("addr",):
            it = it["e"]
        name = (it.get("res") or {}).get("local") if it.get("k") == "path" else None
        seq = env.get(name)
        if isinstance(seq, Range) and isinstance(seq.lo, int) and isinstance(seq.hi, int):
            items = list(range(seq.lo, seq.hi + (1 if seq.inclusive else 0)))
        elif isinstance(seq, T):
            items = list(seq.items)
        else:
            return NotImplemented
        if len(items) > 4096:
            return NotImplemented
        some_arm = next((a for a in m["arms"] if "Some" in str((a["pat"].get("path") or {}).get("def", ""))), None)
        if some_arm is None:
            return NotImplemented
        self._loop_depth += 1
        try:
            for v in items:
                self._tick()
                e2 = {}
                sp = some_arm["pat"]
                inner = None
                if sp.get("k") == "struct" and len(sp.get("fields") or []) == 1:
                    inner = sp["fields"][0][1]
                elif sp.get("k") == "tstruct" and len(sp.get("pats") or []) == 1:
                    inner = sp["pats"][0]
                ok = self.bind(inner, v, e2) if inner is not None else self.bind(sp, some(v), e2)
                if ok is not True:
                    self.lossy.append("loop-pattern")
                    return Sym("loop", ())
                try:
                    r = self._in_scope(some_arm["body"], env, e2)
                    if _lost_control(r):
                        self.lossy.append("undecided control flow in a loop body")
                except Continue:
                    continue
                except Break:
                    break
        finally:
            self._loop_depth -= 1
        return T(())

    def ev_break(self, n, env):
        if self._loop_depth and not self.fork:
            raise Break(None)
        return Sym("break", ())

    def ev_continue(self, n, env):
        if self._loop_depth and not self.fork:
            raise Continue()
        return Sym("continue", ())

    def ev_repeat(self, n, env):
        # [e; N] with a literal length in the (monomorphic) type: N copies of the element
        m = re.search(r";\s*(\d+)\]$", n.get("ty") or "")
        if m and int(m.group(1)) <= 4096 and n.get("e") is not None:
            v = self.ev(n["e"], env)
            return T(tuple([v] * int(m.group(1))))
        return Sym("repeat", ())

    def ev_other(self, n, env):
        return Sym("other", (n.get("dbg"),))

    def ev_constblock(self, n, env):
        return self.ev(n["e"], env)

    # ---- calls ------------------------------------------------------------------
    def ev_call(self, n, env):
        args = [self.ev(a, env) for a in n["args"]]
        if "ctor" in n:
            return V(self._ctor_path(n["ctor"]), tuple(args))
        if "fn" in n:
            return self.apply(n, n["fn"], n.get("resolved"), args, env)
        f = self.ev(n["f"], env)
        if isinstance(f, Closure):
            return self.apply_closure(f, args)
        if isinstance(f, V) and not f.args:
            return V(f.path, tuple(args))
        return Sym("call", (f, tuple(args)))

    def ev_mcall(self, n, env):
        recv = self.ev(n["recv"], env)
        args = [recv] + [self.ev(a, env) for a in n["args"]]
        if "fn" not in n:
            return Sym("mcall", (n["name"], tuple(args)))
        return self.apply(n, n["fn"], n.get("resolved"), args, env)

    def apply_closure(self, c, args):
        env = dict(c.env)
        for p, a in zip(c.node["params"], args):
            self.bind(p, a, env)
        try:
            return self.ev(c.node["body"], env)
        except Return as r:
            return r.value

    def _option_mutator(self, n, path, args, env):
        """`local.get_or_insert(x)`, `.insert(x)`, `.take()`, `.replace(x)` on an Option held in a plain local whose current
        value is concretely known: the method's effect on the local and its result are folded (anything else stays opaque)"""
        recv = n.get("recv")
        if not isinstance(recv, dict):
            return NotImplemented
        r0 = recv.get("e") if recv.get("k") == "addr" else recv
        if not (isinstance(r0, dict) and r0.get("k") == "path"):
            return NotImplemented
        nm = (r0.get("res") or {}).get("local")
        cur = env.get(nm) if nm is not None else None
        if not (isinstance(cur, V) and cur.path in (SOME, NONE)) or not args or args[0] is not cur and args[0] != cur:
            return NotImplemented
        name = path.rsplit("::", 1)[-1]
        if name == "take" and len(args) == 1:
            env[nm] = V(NONE, ())
            return cur
        if name == "insert" and len(args) == 2:
            env[nm] = V(SOME, (args[1],))
            return args[1]
        if name == "replace" and len(args) == 2:
            env[nm] = V(SOME, (args[1],))
            return cur
        if name == "get_or_insert" and len(args) == 2:
            if cur.path == NONE:
                env[nm] = V(SOME, (args[1],))
                return args[1]
            return cur.args[0]
        if name == "get_or_insert_with" and len(args) == 2 and isinstance(args[1], Closure):
            if cur.path == NONE:
                v = self.apply_closure(args[1], [])
                env[nm] = V(SOME, (v,))
                return v
            return cur.args[0]
        return NotImplemented

    def panic_from_macro(self, n):
        l = n.get("l")
        if isinstance(l, list):
            return l[1]
        return []

    def apply(self, n, path, resolved, args, env):
        target = resolved or path
        # panics
        if path.startswith("core::panicking::") or path.startswith("std::rt::begin_panic") or \
                path.startswith("core::panicking::panic"):
            macros = self.panic_from_macro(n)
            raise Panic("panic (%s)" % ",".join(macros), line_of(n))
        for key, st in self.stubs.items():
            # a rule may replace an opaque callee by the outcomes it wants to distinguish (e.g. a lookup that hits / misses)
            if key in target or key in path:
                r = st(args, env, self) if getattr(st, "wants_env", False) else st(args)
                if r is not NotImplemented:
                    return r
        if path in _OPTION_MUTATORS:
            r = self._option_mutator(n, path, args, env)
            if r is not NotImplemented:
                return r
        b = BUILTINS.get(path) or BUILTINS.get(target)
        if b is not None:
            r = b(self, n, args)
            if r is not NotImplemented:
                return r
        f = self.lookup_fn(target)
        if f is None and resolved is None:
            f = self.lookup_fn(path)
        if f is None and args and not has_sym(args[0]):
            f = self._dispatch_trait_method(target or path, args[0])
        if f is not None and f.hir is not None and (self.inline(f.path) or (not f.reachable and _baseline.is_new(f.path))):
            # callees the rule asked for, and private helpers that did not exist when the rules were written (an
            # extract-function refactoring must not change a verdict)
            r = self._call(f, args)
            self._write_back(n, f, env)
            return r
        r = Sym("call", (target if f is not None else path, tuple(args)))
        self.trace.append(r)
        for an in (n.get("args") or []) + ([n["recv"]] if isinstance(n.get("recv"), dict) else []):
            if isinstance(an, dict) and an.get("k") == "addr" and an.get("mut"):
                nm = _root_local(an["e"])
                if nm in env:
                    env[nm] = Sym("mutated-by", (nm, r))
                    self.lossy.append("a local was passed by &mut to an opaque callee")
        if isinstance(n.get("recv"), dict) and str(n.get("recv_ty") or "").startswith("&mut") and n["recv"].get("k") != "addr":
            # auto-referenced receiver of a `&mut self` method the folder does not model (`buf[..k].copy_from_slice(..)`):
            # whatever it knew about the local is gone
            nm = _root_local(n["recv"])
            if nm in env and not isinstance(env[nm], Sym):
                env[nm] = Sym("mutated-by", (nm, r))
                self.lossy.append("a local was the &mut receiver of an opaque method")
        return r


def _root_local(t):
    """the local a place expression is rooted in (through fields, indexing, derefs and re-borrows), or None"""
    for _ in range(32):
        if not isinstance(t, dict):
            return None
        k = t.get("k")
        if k == "field" or k == "addr":
            t = t.get("e")
        elif k == "index":
            t = t.get("a")
        elif k == "un" and t.get("op") == "*":
            t = t.get("a")
        elif k == "path":
            return (t.get("res") or {}).get("local")
        else:
            return None
    return None


def _walk_nodes(n):
    if isinstance(n, dict):
        yield n
        for v in n.values():
            yield from _walk_nodes(v)
    elif isinstance(n, list):
        for v in n:
            yield from _walk_nodes(v)


def _lost_control(v, depth=0):
    """does a value produced in statement position hide a `return` / `break` / panic taken under an undecided condition?"""
    if depth > 12:
        return False
    if isinstance(v, Sym):
        if v.what in ("return", "break", "continue", "panic"):
            return True
        if v.what in ("ite", "match", "arm", "phi"):
            return any(_lost_control(p, depth + 1) for p in v.parts if isinstance(p, (Sym, tuple)))
    if isinstance(v, tuple) and not isinstance(v, (V, S, T, Sym, Range, Closure)):
        return any(_lost_control(p, depth + 1) for p in v)
    return False


def pat_show(p):
    k = p["k"]
    if k == "wild":
        return "_"
    if k == "bind":
        return p["name"]
    if k in ("ref", "deref"):
        return pat_show(p["pat"])
    if k == "or":
        return "|".join(pat_show(x) for x in p["pats"])
    if k == "lit":
        for kk in ("int", "str", "bool", "float", "char"):
            if kk in p["v"]:
                return repr(p["v"][kk])
        return "lit"
    if k == "path":
        r = p["path"]
        return (r.get("def") or r.get("selfctor") or "?").rsplit("::", 1)[-1]
    if k == "tstruct":
        r = p["path"]
        return "%s(%s)" % ((r.get("def") or r.get("selfctor") or "?").rsplit("::", 1)[-1],
                           ",".join(pat_show(x) for x in p["pats"]))
    if k == "tuple":
        return "(%s)" % ",".join(pat_show(x) for x in p["pats"])
    if k == "struct":
        return "{%s}" % ",".join("%s:%s" % (n, pat_show(x)) for n, x in p["fields"])
    if k == "range":
        return "range"
    return k


def pat_names(p):
    k = p["k"]
    if k == "bind":
        return [p["name"]] + (pat_names(p["sub"]) if p.get("sub") else [])
    out = []
    for key in ("pats", "before", "after"):
        for s in p.get(key, []):
            out += pat_names(s)
    if isinstance(p.get("mid"), dict):
        out += pat_names(p["mid"])
    if "pat" in p and isinstance(p["pat"], dict):
        out += pat_names(p["pat"])
    for f in p.get("fields", []):
        out += pat_names(f[1])
    return out


# ---- builtins for std ------------------------------------------------------------

def _b_unwrap_or(ev, n, a):
    o, d = a
    if isinstance(o, V):
        if o.path in (SOME, OK):
            return o.args[0]
        if o.path in (NONE, ERR):
            return d
    return Sym("unwrap_or", (o, d))


def _b_unwrap(ev, n, a):
    o = a[0]
    if isinstance(o, V):
        if o.path in (SOME, OK):
            return o.args[0]
        if o.path in (NONE, ERR):
            raise Panic("unwrap/expect on %s" % o.path.rsplit("::", 1)[-1], line_of(n))
    return Sym("unwrap", (o,))


def _b_is(which):
    name = {SOME: "is_some", NONE: "is_none", OK: "is_ok", ERR: "is_err"}[which[0]]

    def f(ev, n, a):
        o = a[0]
        if isinstance(o, V) and o.path in (SOME, NONE, OK, ERR):
            return o.path in which
        return Sym(name, (o,))
    return f


def _b_map(ev, n, a):
    o, f = a
    if isinstance(o, V):
        if o.path in (SOME, OK):
            if isinstance(f, Closure):
                return V(o.path, (ev.apply_closure(f, [o.args[0]]),))
            if isinstance(f, Sym) and f.what == "fnref":
                fn = ev.lookup_fn(f.parts[0])
                if fn is not None:
                    return V(o.path, (ev._call(fn, [o.args[0]]),))
                if f.parts[0].endswith("convert::Into::into") or f.parts[0].endswith("convert::From::from"):
                    return V(o.path, (Sym("into", (o.args[0],)),))
            return V(o.path, (Sym("mapped", (o.args[0], f)),))
        if o.path in (NONE, ERR):
            return o
    if isinstance(f, Closure):
        try:
            ev.apply_closure(f, [Sym("elem", (o,))])
        except (Return, Panic):
            pass
    return Sym("map", (o, f))


def _b_map_err(ev, n, a):
    o, f = a
    if isinstance(o, V):
        if o.path == OK:
            return o
        if o.path == ERR:
            r = _callable(ev, f, [o.args[0]]) if (isinstance(f, Closure) or (isinstance(f, Sym) and f.what == "fnref" and
                                                                            ev.lookup_fn(f.parts[0]) is not None)) else None
            if r is not None:
                return V(ERR, (r,))
            return V(ERR, (Sym("mapped", (o.args[0], f)),))
    return Sym("map_err", (o, f))


def _b_map_or_else(ev, n, a):
    o, dflt, f = a
    if isinstance(o, V) and o.path in (SOME, OK):
        if isinstance(f, Closure):
            return ev.apply_closure(f, [o.args[0]])
        return Sym("mapped", (o.args[0], f))
    if isinstance(o, V) and o.path in (NONE, ERR):
        if isinstance(dflt, Closure):
            return ev.apply_closure(dflt, [] if o.path == NONE else [o.args[0]])
        return Sym("lazy", (dflt,))
    return Sym("map_or_else", (o, dflt, f))


def _b_map_or(ev, n, a):
    o, dflt, f = a
    if isinstance(o, V) and o.path in (SOME, OK):
        if isinstance(f, Closure):
            return ev.apply_closure(f, [o.args[0]])
        return Sym("mapped", (o.args[0], f))
    if isinstance(o, V) and o.path in (NONE, ERR):
        return dflt
    return Sym("map_or", (o, dflt, f))


def _b_ok_or(ev, n, a):
    o, e = a
    if isinstance(o, V):
        if o.path == SOME:
            return V(OK, (o.args[0],))
        if o.path == NONE:
            return V(ERR, (e,))
    return Sym("ok_or", (o, e))


def _b_ok_or_else(ev, n, a):
    o, f = a
    if isinstance(o, V):
        if o.path == SOME:
            return V(OK, (o.args[0],))
        if o.path == NONE:
            r = _callable(ev, f, [])        # a closure or a named function (`ok_or_else(unit_required)`)
            if r is not None:
                return V(ERR, (r,))
            return V(ERR, (Sym("lazy", (f,)),))
    return Sym("ok_or_else", (o, f))


def _b_ok(ev, n, a):
    o = a[0]
    if isinstance(o, V):
        if o.path == OK:
            return some(o.args[0])
        if o.path == ERR:
            return NONE_V
    return Sym("ok", (o,))


def _b_branch(ev, n, a):
    o = a[0]
    if isinstance(o, V):
        if o.path in (OK, SOME):
            return V(CONTINUE, (o.args[0],))
        if o.path == ERR:
            return V(BREAK, (V(ERR, o.args),))
        if o.path == NONE:
            return V(BREAK, (NONE_V,))
    return Sym("branch", (o,))


def _b_identity(ev, n, a):
    return a[0]


def _b_nz_new(ev, n, a):
    if isinstance(a[0], int):
        return some(a[0]) if a[0] != 0 else NONE_V
    return Sym("nonzero_new", (a[0],))


def _b_into(ev, n, a):
    v = a[0]
    if isinstance(v, T) and ("Vec<" in str(n.get("ty", "")) or str(n.get("ty", "")).startswith("[")):
        return v                      # array -> Vec / slice: the same sequence
    if isinstance(v, bool) and n.get("ty") in INT_BITS:
        return int(v)
    if isinstance(v, (int, float)) and not isinstance(v, bool):
        ty = n.get("ty")
        if ty in INT_BITS:
            return wrap_int(v, ty)
        if ty in ("f64", "f32"):
            return float(v)
        if ty is None:
            return v
        return NotImplemented         # a user From impl (`Unit::from(usize)`): resolved and folded like any function
    return NotImplemented


def _b_minmax(which):
    def f(ev, n, a):
        x, y = a
        kx, ky = ev.cmp_key(x), ev.cmp_key(y)
        if kx is None or ky is None or type(kx) is not type(ky):
            return Sym(which, (x, y))
        if which == "max":
            return y if ky >= kx else x
        return x if kx <= ky else y
    return f


def _b_cmp(ev, n, a):
    x, y = a
    kx, ky = ev.cmp_key(x), ev.cmp_key(y)
    if kx is None or ky is None:
        return Sym("cmp", (x, y))
    p = "core::cmp::Ordering::"
    return V(p + ("Less" if kx < ky else "Greater" if kx > ky else "Equal"), ())


def _b_partial_cmp(ev, n, a):
    x, y = a
    kx, ky = ev.cmp_key(x), ev.cmp_key(y)
    if kx is None or ky is None or type(kx) is not type(ky) and not (isinstance(kx, (int, float)) and isinstance(ky, (int, float))):
        return NotImplemented
    if isinstance(kx, float) and kx != kx or isinstance(ky, float) and ky != ky:
        return V(NONE, ())
    p = "core::cmp::Ordering::"
    return some(V(p + ("Less" if kx < ky else "Greater" if kx > ky else "Equal"), ()))


def _derives_eq(ev, path):
    """is `==` on this ADT (given by the path of the type or of one of its variants) the derived structural equality?"""
    if path.startswith(("core::option::Option", "core::result::Result")):
        return True
    cache = ev.__dict__.setdefault("_derives_eq_cache", {})
    if path not in cache:
        ok = False
        cands = (path, path.rsplit("::", 1)[0])
        try:
            crates = ev.facts.crates.values()
        except AttributeError:
            crates = ()
        for c in crates:
            for i in c.impls:
                if i.get("self_ty") in cands and str(i.get("trait") or "").startswith("core::cmp::PartialEq") and i.get("derived"):
                    ok = True
        cache[path] = ok
    return cache[path]


def _definitely_ne(ev, x, y, depth=0):
    """are the two (partly symbolic) values different whatever the symbols stand for?  Structural: different variants of one
    enum, or one pair of components that is definitely different, under derived equality only."""
    if depth > 8:
        return False
    if isinstance(x, bool) or isinstance(y, bool):
        return isinstance(x, bool) and isinstance(y, bool) and x != y
    if isinstance(x, int) and isinstance(y, int):
        return x != y
    if isinstance(x, V) and isinstance(y, V):
        if not _derives_eq(ev, x.path) or not _derives_eq(ev, y.path):
            return False
        if x.path != y.path:
            return x.path.rsplit("::", 1)[0] == y.path.rsplit("::", 1)[0]
        return len(x.args) == len(y.args) and any(_definitely_ne(ev, a, b, depth + 1) for a, b in zip(x.args, y.args))
    if isinstance(x, S) and isinstance(y, S) and x.path == y.path and _derives_eq(ev, x.path):
        fy = dict(y.fields)
        return any(k in fy and _definitely_ne(ev, v, fy[k], depth + 1) for k, v in x.fields)
    if isinstance(x, T) and isinstance(y, T) and len(x.items) == len(y.items):
        return any(_definitely_ne(ev, a, b, depth + 1) for a, b in zip(x.items, y.items))
    return False


def _b_eq(neg):
    def f(ev, n, a):
        x, y = a
        if has_sym(x) or has_sym(y):
            if _definitely_ne(ev, x, y):
                return bool(neg)
            return Sym("eq", (x, y))
        if type(x) is not type(y) and not (isinstance(x, (int, float)) and isinstance(y, (int, float))):
            # a newtype compared with its field type (`FiniteF64 == f64`): through the field when the type orders by it;
            # anything else is not decided (python equality of unlike values would be a wrong `false`)
            kx, ky = ev.cmp_key(x), ev.cmp_key(y)
            if kx is None or ky is None or isinstance(kx, tuple) != isinstance(ky, tuple):
                return Sym("eq", (x, y))
            x, y = kx, ky
        r = x == y
        return (not r) if neg else r
    return f


def _b_contains(ev, n, a):
    r, x = a
    if isinstance(r, Range) and isinstance(x, (int, float)):
        lo, hi = r.lo, r.hi
        if isinstance(lo, (int, float)) and isinstance(hi, (int, float)):
            return lo <= x <= hi if r.inclusive else lo <= x < hi
    if isinstance(r, Range) and all(isinstance(v, V) and not v.args for v in (r.lo, r.hi, x)) and \
            len({v.path.rsplit("::", 1)[0] for v in (r.lo, r.hi, x)}) == 1:
        # a range of variants of one fieldless enum (`(Unit::Nanosecond..=Unit::Hour).contains(&u)`): by declaration order,
        # as the derived ordering does
        klo, khi, kx = ev.cmp_key(r.lo), ev.cmp_key(r.hi), ev.cmp_key(x)
        if all(isinstance(k, int) for k in (klo, khi, kx)):
            return klo <= kx <= khi if r.inclusive else klo <= kx < khi
    return Sym("contains", (r, x))


def _b_range_incl_new(ev, n, a):
    return Range(a[0], a[1], True)


def _b_pow(ev, n, a):
    b, e = a
    if isinstance(b, int) and isinstance(e, int) and e >= 0:
        r = b ** e
        ty = n.get("ty")
        if ty in INT_BITS and wrap_int(r, ty) != r:
            raise Panic("pow overflow", line_of(n))
        return r
    return Sym("pow", (b, e))


def _b_abs(ev, n, a):
    if isinstance(a[0], (int, float)) and not isinstance(a[0], bool):
        return abs(a[0])
    return Sym("abs", (a[0],))


def _b_written(ev, n, a):
    # <str as Display>::fmt(s, f) / Formatter::write_str(f, s) / pad
    for x in a:
        if isinstance(x, str):
            ev.trace.append(Sym("call", ("core::fmt::Write::write_str", tuple(a))))
            return V("fmt::Written", (x,))
    return NotImplemented


def _b_default(ev, n, a):
    ty = n.get("ty")
    if ty in INT_BITS:
        return 0
    if ty == "bool":
        return False
    if ty and ty.startswith("core::option::Option<"):
        return NONE_V
    if ty in ("f64", "f32"):
        return 0.0
    if ty:
        # the type's own Default impl (derived impls are exported like any function)
        for c in ev.facts.crates.values():
            f = c.by_path.get("<%s as core::default::Default>::default" % ty)
            if f is not None and f.hir is not None:
                return ev._call(f, [])
    return NotImplemented


def _b_unwrap_or_default(ev, n, a):
    o = a[0]
    if isinstance(o, V) and o.path in (SOME, OK):
        return o.args[0]
    if isinstance(o, V) and o.path in (NONE, ERR):
        ty = n.get("ty")
        if ty in INT_BITS:
            return 0
        # find `<ty as Default>::default` in the crate
        for c in ev.facts.crates.values():
            f = c.fn("<%s as core::default::Default>::default" % ty)
            if f is not None:
                return ev._call(f, [])
        return Sym("default", (ty,))
    return Sym("unwrap_or_default", (o,))


def _b_rem_euclid(ev, n, a):
    x, y = a
    if isinstance(x, int) and isinstance(y, int) and y != 0:
        return x % abs(y)
    return Sym("rem_euclid", (x, y))


def _b_div_euclid(ev, n, a):
    x, y = a
    if isinstance(x, int) and isinstance(y, int) and y != 0:
        r = x % abs(y)
        return (x - r) // y
    return Sym("div_euclid", (x, y))


def _b_clamp(ev, n, a):
    x, lo, hi = a
    if all(isinstance(v, (int, float)) for v in a):
        return max(lo, min(hi, x))
    return Sym("clamp", tuple(a))


def _b_is_some_and(ev, n, a):
    o, f = a
    if isinstance(o, V) and o.path == NONE:
        return False
    if isinstance(o, V) and o.path == SOME and isinstance(f, Closure):
        return ev.apply_closure(f, [o.args[0]])
    return _sym_apply(ev, "is_some_and", o, f)


def _b_str_eq_ignore_case(ev, n, a):
    if isinstance(a[0], str) and isinstance(a[1], str):
        return a[0].lower() == a[1].lower()
    return Sym("eq_ignore_ascii_case", tuple(a))


def _b_tinystr_try_from_utf8(ev, n, a):
    """TinyAsciiStr<N>::try_from_utf8 of concretely known bytes: Ok(text) when they fit, are ASCII and contain no NUL"""
    import re as _re
    if len(a) == 1 and isinstance(a[0], T) and all(isinstance(b, int) and not isinstance(b, bool) for b in a[0].items):
        m = _re.search(r"TinyAsciiStr<(\d+)>", str(n.get("ty") or ""))
        if m:
            bs = a[0].items
            if len(bs) <= int(m.group(1)) and all(0 < b < 128 for b in bs):
                return V(OK, ("".join(chr(b) for b in bs),))
            return V(ERR, (Sym("tinystr-error", ()),))
    return NotImplemented


def _b_u8_is_ascii_digit(ev, n, a):
    if len(a) == 1 and isinstance(a[0], int) and not isinstance(a[0], bool):
        return 48 <= a[0] <= 57
    if len(a) == 1 and isinstance(a[0], str) and len(a[0]) == 1:
        return "0" <= a[0] <= "9"
    return NotImplemented

def _b_tinystr_all_bytes(ev, n, a):
    """TinyAsciiStr<N>::all_bytes of a concretely known string: its bytes padded with NUL to N"""
    import re as _re
    if len(a) == 1 and isinstance(a[0], str):
        m = _re.search(r"\[u8; (\d+)\]", str(n.get("ty") or ""))
        if m and len(a[0]) <= int(m.group(1)) and all(ord(c) < 128 for c in a[0]):
            bs = [ord(c) for c in a[0]] + [0] * (int(m.group(1)) - len(a[0]))
            return T(tuple(bs))
    return NotImplemented

_OPTION_MUTATORS = {"core::option::Option::<T>::" + m for m in ("take", "insert", "replace", "get_or_insert", "get_or_insert_with")}

BUILTINS = {
    "tinystr::ascii::TinyAsciiStr::<N>::try_from_utf8": _b_tinystr_try_from_utf8,
    "core::num::<impl u8>::is_ascii_digit": _b_u8_is_ascii_digit,
    "core::char::methods::<impl char>::is_ascii_digit": _b_u8_is_ascii_digit,
    "tinystr::ascii::TinyAsciiStr::<N>::all_bytes": _b_tinystr_all_bytes,
    "core::option::Option::<T>::unwrap_or": _b_unwrap_or,
    "core::result::Result::<T, E>::unwrap_or": _b_unwrap_or,
    "core::option::Option::<T>::unwrap": _b_unwrap,
    "core::option::Option::<T>::expect": _b_unwrap,
    "core::result::Result::<T, E>::unwrap": _b_unwrap,
    "core::result::Result::<T, E>::expect": _b_unwrap,
    "core::option::Option::<T>::unwrap_or_default": _b_unwrap_or_default,
    "core::result::Result::<T, E>::unwrap_or_default": _b_unwrap_or_default,
    "core::option::Option::<T>::is_some": _b_is((SOME,)),
    "core::option::Option::<T>::is_none": _b_is((NONE,)),
    "core::result::Result::<T, E>::is_ok": _b_is((OK,)),
    "core::result::Result::<T, E>::is_err": _b_is((ERR,)),
    "core::option::Option::<T>::map": _b_map,
    "core::result::Result::<T, E>::map": _b_map,
    "core::result::Result::<T, E>::map_err": _b_map_err,
    "core::option::Option::<T>::ok_or": _b_ok_or,
    "core::option::Option::<T>::map_or_else": _b_map_or_else,
    "core::option::Option::<T>::map_or": _b_map_or,
    "core::result::Result::<T, E>::map_or_else": _b_map_or_else,
    "core::option::Option::<T>::ok_or_else": _b_ok_or_else,
    "core::result::Result::<T, E>::ok": _b_ok,
    "core::option::Option::<T>::is_some_and": _b_is_some_and,
    "core::ops::try_trait::Try::branch": _b_branch,
    "core::ops::try_trait::FromResidual::from_residual": _b_identity,
    "core::convert::Into::into": _b_into,
    "core::convert::From::from": _b_into,
    "core::clone::Clone::clone": _b_identity,
    "core::borrow::Borrow::borrow": _b_identity,
    "core::convert::AsRef::as_ref": _b_identity,
    "core::option::Option::<T>::as_ref": _b_identity,
    "core::option::Option::<&T>::copied": _b_identity,
    "core::option::Option::<&T>::cloned": _b_identity,
    "core::ops::deref::Deref::deref": _b_identity,
    "core::cmp::Ord::max": _b_minmax("max"),
    "core::cmp::Ord::min": _b_minmax("min"),
    "core::cmp::max": _b_minmax("max"),
    "core::cmp::min": _b_minmax("min"),
    "core::cmp::Ord::cmp": _b_cmp,
    "core::cmp::PartialOrd::partial_cmp": _b_partial_cmp,
    "core::cmp::PartialEq::eq": _b_eq(False),
    "core::cmp::PartialEq::ne": _b_eq(True),
    "core::ops::range::RangeInclusive::<Idx>::contains": _b_contains,
    "core::ops::range::Range::<Idx>::contains": _b_contains,
    "core::ops::range::RangeInclusive::<Idx>::new": _b_range_incl_new,
    "core::ops::RangeInclusive::<Idx>::new": _b_range_incl_new,
    "core::fmt::Display::fmt": _b_written,
    "core::fmt::Formatter::<'a>::write_str": _b_written,
    "core::fmt::Formatter::<'a>::pad": _b_written,
    "core::fmt::Write::write_str": _b_written,
    "core::default::Default::default": _b_default,
    "core::str::<impl str>::eq_ignore_ascii_case": _b_str_eq_ignore_case,
}
for _t in INT_BITS:
    BUILTINS["core::num::<impl %s>::pow" % _t] = _b_pow
    BUILTINS["core::num::<impl %s>::abs" % _t] = _b_abs
    BUILTINS["core::num::<impl %s>::rem_euclid" % _t] = _b_rem_euclid
    BUILTINS["core::num::<impl %s>::div_euclid" % _t] = _b_div_euclid
    BUILTINS["core::num::<impl %s>::unsigned_abs" % _t] = _b_abs
BUILTINS["core::cmp::Ord::clamp"] = _b_clamp



def _callable(ev, f, args):
    """apply a closure or a function reference to argument values (None when neither)"""
    if isinstance(f, Closure):
        return ev.apply_closure(f, list(args))
    if isinstance(f, Sym) and f.what == "fnref":
        fn = ev.lookup_fn(f.parts[0])
        if fn is not None:
            return ev._call(fn, list(args))
        b = BUILTINS.get(f.parts[0])
        if b is not None:
            r = b(ev, {}, list(args))
            if r is not NotImplemented:
                return r
    return None



def _sym_apply(ev, name, o, f, nargs=1):
    """a combinator on a symbolic receiver: the closure is still folded on an opaque element so that the calls it makes
    appear in the trace and in the resulting term"""
    r = f
    if isinstance(f, Closure):
        try:
            r = ev.apply_closure(f, [Sym("elem", (o,))] * nargs)
        except (Return, Panic):
            r = f
    return Sym(name, (o, r))


def _b_and_then(ev, n, a):
    o, f = a
    if isinstance(o, V):
        if o.path in (NONE, ERR):
            return o
        if o.path in (SOME, OK):
            r = _callable(ev, f, [o.args[0]])
            if r is not None:
                return r
    return _sym_apply(ev, "and_then", o, f)


def _b_or_else(ev, n, a):
    o, f = a
    if isinstance(o, V):
        if o.path in (SOME, OK):
            return o
        if o.path == NONE:
            r = _callable(ev, f, [])
            if r is not None:
                return r
        if o.path == ERR:
            r = _callable(ev, f, [o.args[0]])
            if r is not None:
                return r
    return _sym_apply(ev, "or_else", o, f, 0 if "option" in str(n.get("fn", "")).lower() else 1)


def _b_or(ev, n, a):
    o, d = a
    if isinstance(o, V):
        if o.path in (SOME, OK):
            return o
        if o.path in (NONE, ERR):
            return d
    return Sym("or", (o, d))


def _b_unwrap_or_else(ev, n, a):
    o, f = a
    if isinstance(o, V):
        if o.path in (SOME, OK):
            return o.args[0]
        r = _callable(ev, f, [] if o.path == NONE else [o.args[0]]) if o.path in (NONE, ERR) else None
        if r is not None:
            return r
    return _sym_apply(ev, "unwrap_or_else", o, f, 0)


def _b_filter(ev, n, a):
    o, f = a
    if isinstance(o, V):
        if o.path == NONE:
            return o
        if o.path == SOME:
            r = _callable(ev, f, [o.args[0]])
            if r is True:
                return o
            if r is False:
                return V(NONE, ())
    return _sym_apply(ev, "filter", o, f)


def _b_is_ok_and(ev, n, a):
    o, f = a
    if isinstance(o, V) and o.path == ERR:
        return False
    if isinstance(o, V) and o.path == OK:
        r = _callable(ev, f, [o.args[0]])
        if isinstance(r, bool):
            return r
    return _sym_apply(ev, "is_ok_and", o, f)


def _b_then(ev, n, a):
    c, f = a
    if c is False:
        return V(NONE, ())
    if c is True:
        r = _callable(ev, f, [])
        if r is not None:
            return some(r)
    return Sym("then", (c, f))


def _b_then_some(ev, n, a):
    c, v = a
    if c is False:
        return V(NONE, ())
    if c is True:
        return some(v)
    return Sym("then_some", (c, v))


def _b_transpose(ev, n, a):
    o = a[0]
    if isinstance(o, V):
        if o.path == NONE:
            return V(OK, (V(NONE, ()),))
        if o.path == SOME and isinstance(o.args[0], V) and o.args[0].path == OK:
            return V(OK, (some(o.args[0].args[0]),))
        if o.path == SOME and isinstance(o.args[0], V) and o.args[0].path == ERR:
            return o.args[0]
    return Sym("transpose", (o,))


def _int_target(n):
    import re as _re
    ty = n.get("ty") or ""
    m = _re.match(r"core::result::Result<(\w+),", ty)
    return m.group(1) if m and m.group(1) in INT_BITS else None


def _b_try_from_int(ev, n, a):
    """integer -> integer TryFrom / TryInto (the target is the Ok type of the call's result type)"""
    v = a[0]
    t = _int_target(n)
    if t is None or not isinstance(v, int) or isinstance(v, bool):
        return NotImplemented
    bits = INT_BITS[t]
    lo, hi = (0, (1 << bits) - 1) if t.startswith("u") else (-(1 << (bits - 1)), (1 << (bits - 1)) - 1)
    if lo <= v <= hi:
        return V(OK, (v,))
    return V(ERR, (Sym("TryFromIntError", ()),))


def _arith_checked(op):
    def f(ev, n, a):
        x, y = a
        if not all(isinstance(v, int) and not isinstance(v, bool) for v in (x, y)):
            return NotImplemented
        import re as _re
        m = _re.match(r"core::option::Option<(\w+)>", n.get("ty") or "")
        t = m.group(1) if m else None
        if t not in INT_BITS:
            return NotImplemented
        r = {"add": x + y, "sub": x - y, "mul": x * y}[op]
        return some(r) if wrap_int(r, t) == r else V(NONE, ())
    return f


def _arith_saturating(op):
    def f(ev, n, a):
        x, y = a
        t = n.get("ty")
        if t not in INT_BITS or not all(isinstance(v, int) and not isinstance(v, bool) for v in (x, y)):
            return NotImplemented
        bits = INT_BITS[t]
        lo, hi = (0, (1 << bits) - 1) if t.startswith("u") else (-(1 << (bits - 1)), (1 << (bits - 1)) - 1)
        r = {"add": x + y, "sub": x - y, "mul": x * y}[op]
        return min(max(r, lo), hi)
    return f


def _b_second(ev, n, a):
    return a[1] if len(a) > 1 else NotImplemented


def _b_seq_identity(ev, n, a):
    return a[0] if isinstance(a[0], (T, Range)) else NotImplemented


def _b_len(ev, n, a):
    return len(a[0].items) if isinstance(a[0], T) else NotImplemented


def _b_first(ev, n, a):
    if isinstance(a[0], T):
        return some(a[0].items[0]) if a[0].items else V(NONE, ())
    return NotImplemented


def _b_last(ev, n, a):
    if isinstance(a[0], T):
        return some(a[0].items[-1]) if a[0].items else V(NONE, ())
    return NotImplemented


def _b_is_empty(ev, n, a):
    return (len(a[0].items) == 0) if isinstance(a[0], T) else NotImplemented


def _b_numcast(ev, n, a):
    """num_traits NumCast::from / ToPrimitive::to_* / FromPrimitive::from_*: Some(v) when the target type holds the value"""
    import re as _re
    v = a[0]
    if not isinstance(v, (int, float)) or isinstance(v, bool):
        return NotImplemented
    m = _re.match(r"core::option::Option<(\w+)>", n.get("ty") or "")
    t = m.group(1) if m else None
    if t in INT_BITS:
        if isinstance(v, float):
            if v != v or v in (float("inf"), float("-inf")):
                return V(NONE, ())
            v = int(v)
        return some(v) if wrap_int(v, t) == v else V(NONE, ())
    if t in ("f64", "f32"):
        return some(float(v))
    if t and _re.fullmatch(r"[A-Z]\w{0,2}", t):
        # a numeric type parameter (`<T as NumCast>::from(x)` in generic code): the value itself - the instantiations in
        # this repository (i128, f64) hold every increment (at most 10^9 x 8.64e13) exactly
        return some(v) if abs(v) < 2 ** 53 else NotImplemented
    return NotImplemented


def _b_num_abs(ev, n, a):
    v = a[0]
    return abs(v) if isinstance(v, (int, float)) and not isinstance(v, bool) else NotImplemented


def _b_num_signum(ev, n, a):
    v = a[0]
    if isinstance(v, bool) or not isinstance(v, (int, float)):
        return NotImplemented
    return type(v)((v > 0) - (v < 0))


def _iter_items(v):
    if isinstance(v, T):
        return list(v.items)
    if isinstance(v, Range) and isinstance(v.lo, int) and isinstance(v.hi, int) and v.hi - v.lo < 4096:
        return list(range(v.lo, v.hi + (1 if v.inclusive else 0)))
    return None


def _b_iter_find(ev, n, a):
    items = _iter_items(a[0])
    if items is None:
        return NotImplemented
    for it in items:
        r = _callable(ev, a[1], [it])
        if r is True:
            return some(it)
        if r is not False:
            return Sym("find", (a[0],))
    return V(NONE, ())


def _b_iter_position(ev, n, a):
    items = _iter_items(a[0])
    if items is None:
        return NotImplemented
    for i, it in enumerate(items):
        r = _callable(ev, a[1], [it])
        if r is True:
            return some(i)
        if r is not False:
            return Sym("position", (a[0],))
    return V(NONE, ())


def _b_iter_any(ev, n, a):
    items = _iter_items(a[0])
    if items is None:
        return NotImplemented
    for it in items:
        r = _callable(ev, a[1], [it])
        if r is True:
            return True
        if r is not False:
            return Sym("any", (a[0],))
    return False


def _b_iter_all(ev, n, a):
    items = _iter_items(a[0])
    if items is None:
        return NotImplemented
    for it in items:
        r = _callable(ev, a[1], [it])
        if r is False:
            return False
        if r is not True:
            return Sym("all", (a[0],))
    return True


def _b_iter_find_map(ev, n, a):
    items = _iter_items(a[0])
    if items is None:
        return NotImplemented
    for it in items:
        r = _callable(ev, a[1], [it])
        if isinstance(r, V) and r.path == SOME:
            return r
        if not (isinstance(r, V) and r.path == NONE):
            return Sym("find_map", (a[0],))
    return V(NONE, ())


def _b_iter_enumerate(ev, n, a):
    items = _iter_items(a[0])
    return T(tuple(T((i, it)) for i, it in enumerate(items))) if items is not None else NotImplemented


def _b_iter_zip(ev, n, a):
    x, y = _iter_items(a[0]), _iter_items(a[1])
    return T(tuple(T((p, q)) for p, q in zip(x, y))) if x is not None and y is not None else NotImplemented


def _b_iter_map(ev, n, a):
    items = _iter_items(a[0])
    if items is None or not isinstance(a[1], (Closure, Sym)):
        return NotImplemented
    out = []
    for it in items:
        r = _callable(ev, a[1], [it])
        if r is None:
            return NotImplemented
        out.append(r)
    return T(tuple(out))


def _b_iter_sum(ev, n, a):
    items = _iter_items(a[0])
    if items is None or not all(isinstance(v, (int, float)) and not isinstance(v, bool) for v in items):
        return NotImplemented
    return sum(items) if items else (0.0 if n.get("ty") in ("f64", "f32") else 0)


def _b_iter_rev(ev, n, a):
    items = _iter_items(a[0])
    return T(tuple(reversed(items))) if items is not None else NotImplemented


def _b_slice_contains(ev, n, a):
    items = _iter_items(a[0])
    if items is None or has_sym(a[1]) or any(has_sym(x) for x in items):
        return NotImplemented
    return any(x == a[1] for x in items)


def _b_slice_get(ev, n, a):
    if isinstance(a[0], T) and isinstance(a[1], int) and not isinstance(a[1], bool):
        return some(a[0].items[a[1]]) if 0 <= a[1] < len(a[0].items) else V(NONE, ())
    return NotImplemented


def _b_strip_suffix(ev, n, a):
    if isinstance(a[0], str) and isinstance(a[1], str):
        return some(a[0][:len(a[0]) - len(a[1])]) if a[1] and a[0].endswith(a[1]) else (some(a[0]) if a[1] == "" else V(NONE, ()))
    return NotImplemented


def _b_strip_prefix(ev, n, a):
    if isinstance(a[0], str) and isinstance(a[1], str):
        return some(a[0][len(a[1]):]) if a[0].startswith(a[1]) else V(NONE, ())
    return NotImplemented


def _b_str_pred(which):
    def f(ev, n, a):
        if isinstance(a[0], str) and isinstance(a[1], str):
            return {"ends_with": a[0].endswith(a[1]), "starts_with": a[0].startswith(a[1]), "contains": a[1] in a[0]}[which]
        return NotImplemented
    return f


BUILTINS.update({
    "core::str::<impl str>::as_bytes": lambda ev, n, a: a[0] if isinstance(a[0], str) else NotImplemented,
    "core::str::<impl str>::strip_suffix": _b_strip_suffix,
    "core::str::<impl str>::strip_prefix": _b_strip_prefix,
    "core::str::<impl str>::ends_with": _b_str_pred("ends_with"),
    "core::str::<impl str>::starts_with": _b_str_pred("starts_with"),
    "core::str::<impl str>::len": lambda ev, n, a: len(a[0].encode()) if isinstance(a[0], str) else NotImplemented,
    "core::str::<impl str>::is_empty": lambda ev, n, a: (a[0] == "") if isinstance(a[0], str) else NotImplemented,
    "core::iter::traits::iterator::Iterator::find": _b_iter_find,
    "core::iter::traits::iterator::Iterator::position": _b_iter_position,
    "core::iter::traits::iterator::Iterator::any": _b_iter_any,
    "core::iter::traits::iterator::Iterator::all": _b_iter_all,
    "core::iter::traits::iterator::Iterator::find_map": _b_iter_find_map,
    "core::iter::traits::iterator::Iterator::rev": _b_iter_rev,
    "core::iter::traits::iterator::Iterator::zip": _b_iter_zip,
    "core::iter::traits::iterator::Iterator::map": _b_iter_map,
    "core::iter::traits::iterator::Iterator::sum": _b_iter_sum,
    "core::iter::traits::iterator::Iterator::enumerate": _b_iter_enumerate,
    "alloc::vec::Vec::<T, A>::iter": _b_seq_identity,
    "alloc::vec::Vec::<T>::iter": _b_seq_identity,
    "core::slice::<impl [T]>::contains": _b_slice_contains,
    "core::slice::<impl [T]>::get": _b_slice_get,
    "num_traits::cast::NumCast::from": _b_numcast,
    "num_traits::sign::Signed::abs": _b_num_abs,
    "num_traits::sign::Signed::signum": _b_num_signum,
    "core::slice::<impl [T]>::first": _b_first,
    "core::slice::<impl [T]>::last": _b_last,
    "core::slice::<impl [T]>::is_empty": _b_is_empty,
    "alloc::vec::Vec::<T, A>::is_empty": _b_is_empty,
    "alloc::vec::Vec::<T, A>::as_slice": _b_seq_identity,
    "alloc::boxed::box_assume_init_into_vec_unsafe": _b_seq_identity,
    "alloc::intrinsics::write_box_via_move": _b_second,
    "alloc::slice::<impl [T]>::into_vec": _b_seq_identity,
    "alloc::boxed::Box::<T>::new": _b_identity,
    "core::iter::traits::collect::IntoIterator::into_iter": _b_seq_identity,
    "core::slice::<impl [T]>::iter": _b_seq_identity,
    "core::slice::<impl [T]>::len": _b_len,
    "alloc::vec::Vec::<T, A>::len": _b_len,
    "core::iter::traits::iterator::Iterator::copied": _b_seq_identity,
    "core::iter::traits::iterator::Iterator::cloned": _b_seq_identity,
    "core::option::Option::<T>::and_then": _b_and_then,
    "core::result::Result::<T, E>::and_then": _b_and_then,
    "core::option::Option::<T>::or_else": _b_or_else,
    "core::result::Result::<T, E>::or_else": _b_or_else,
    "core::option::Option::<T>::or": _b_or,
    "core::result::Result::<T, E>::or": _b_or,
    "core::option::Option::<T>::unwrap_or_else": _b_unwrap_or_else,
    "core::result::Result::<T, E>::unwrap_or_else": _b_unwrap_or_else,
    "core::option::Option::<T>::filter": _b_filter,
    "core::result::Result::<T, E>::is_ok_and": _b_is_ok_and,
    "core::bool::<impl bool>::then": _b_then,
    "core::bool::<impl bool>::then_some": _b_then_some,
    "core::option::Option::<core::result::Result<T, E>>::transpose": _b_transpose,
    "core::convert::TryFrom::try_from": _b_try_from_int,
    "core::convert::TryInto::try_into": _b_try_from_int,
})
for _t in INT_BITS:
    for _op in ("add", "sub", "mul"):
        BUILTINS["core::num::<impl %s>::checked_%s" % (_t, _op)] = _arith_checked(_op)
        BUILTINS["core::num::<impl %s>::saturating_%s" % (_t, _op)] = _arith_saturating(_op)


def _b_euclid(which):
    def f(ev, n, a):
        x, y = a
        if isinstance(x, bool) or isinstance(y, bool) or not isinstance(x, (int, float)) or not isinstance(y, (int, float)):
            return NotImplemented
        if y == 0:
            if isinstance(x, float) or isinstance(y, float):
                return NotImplemented
            raise Panic("division by zero")
        if isinstance(x, float) or isinstance(y, float):
            import math
            r = math.fmod(x, y)
            if r < 0:
                r += abs(y)
            q = (x - r) / y
        else:
            r = x % abs(y)
            q = (x - r) // y
        return {"div": q, "rem": r, "both": T((q, r))}[which]
    return f


BUILTINS.update({
    "num_traits::ops::euclid::Euclid::div_rem_euclid": _b_euclid("both"),
    "num_traits::ops::euclid::Euclid::div_euclid": _b_euclid("div"),
    "num_traits::ops::euclid::Euclid::rem_euclid": _b_euclid("rem"),
})
for _n in ("from_i128", "from_i64", "from_u64", "from_u128", "from_f64", "from_i32", "from_u32", "from_usize", "from_u8", "from_i8"):
    BUILTINS["num_traits::cast::FromPrimitive::" + _n] = _b_numcast
for _n in ("to_i64", "to_i128", "to_f64", "to_u64", "to_i32", "to_u32", "to_u128", "to_usize", "to_u8", "to_i8", "to_i16", "to_u16"):
    BUILTINS["num_traits::cast::ToPrimitive::" + _n] = _b_numcast


def _b_neg(ev, n, a):
    v = a[0]
    if isinstance(v, bool) or not isinstance(v, (int, float)):
        return NotImplemented
    t = n.get("ty")
    if isinstance(v, int) and t in INT_BITS and wrap_int(-v, t) != -v:
        raise Panic("attempt to negate with overflow")
    return -v


BUILTINS["core::ops::arith::Neg::neg"] = _b_neg

def _f64(fn):
    def f(ev, n, a):
        if isinstance(a[0], (int, float)) and not isinstance(a[0], bool):
            return fn(float(a[0]))
        return Sym("f64op", tuple(a))
    return f


import math as _math
for _pre in ("core::f64::<impl f64>::", "std::f64::<impl f64>::"):
    BUILTINS[_pre + "is_finite"] = _f64(_math.isfinite)
    BUILTINS[_pre + "is_nan"] = _f64(_math.isnan)
    BUILTINS[_pre + "trunc"] = _f64(lambda x: float(_math.trunc(x)))
    BUILTINS[_pre + "floor"] = _f64(lambda x: float(_math.floor(x)))
    BUILTINS[_pre + "ceil"] = _f64(lambda x: float(_math.ceil(x)))
    BUILTINS[_pre + "abs"] = _f64(abs)
    BUILTINS[_pre + "signum"] = _f64(lambda x: x if x != x else _math.copysign(1.0, x))
    BUILTINS[_pre + "round"] = _f64(lambda x: float(_math.floor(abs(x) + 0.5)) * (1.0 if x >= 0 else -1.0) if _math.isfinite(x) else x)
    BUILTINS[_pre + "fract"] = _f64(lambda x: x - float(_math.trunc(x)) if _math.isfinite(x) else float("nan"))
    BUILTINS[_pre + "is_sign_negative"] = _f64(lambda x: _math.copysign(1.0, x) < 0)
    BUILTINS[_pre + "is_sign_positive"] = _f64(lambda x: _math.copysign(1.0, x) > 0)
    BUILTINS[_pre + "copysign"] = (lambda ev, n, a: _math.copysign(float(a[0]), float(a[1]))
                                   if all(isinstance(v, (int, float)) and not isinstance(v, bool) for v in a[:2]) else NotImplemented)
    BUILTINS[_pre + "max"] = (lambda ev, n, a: max(float(a[0]), float(a[1]))
                              if all(isinstance(v, (int, float)) and not isinstance(v, bool) for v in a[:2]) else NotImplemented)
    BUILTINS[_pre + "min"] = (lambda ev, n, a: min(float(a[0]), float(a[1]))
                              if all(isinstance(v, (int, float)) and not isinstance(v, bool) for v in a[:2]) else NotImplemented)
BUILTINS["core::num::nonzero::NonZero::<T>::get"] = _b_identity
BUILTINS["core::num::nonzero::NonZero::<T>::new_unchecked"] = _b_identity
BUILTINS["core::num::nonzero::NonZero::<T>::new"] = _b_nz_new
