"""Utilities over hireval terms (copy-propagated, constant-folded expression trees)."""
from .hireval import V, S, T, Sym, Closure, Range


def show(t, depth=0):
    if depth > 30:
        return "…"
    if isinstance(t, Sym):
        w = t.what
        if w == "param":
            return "$" + t.parts[0]
        if w == "call":
            return "%s(%s)" % (short(t.parts[0]), ", ".join(show(a, depth + 1) for a in t.parts[1]))
        if w == "field":
            return "%s.%s" % (show(t.parts[0], depth + 1), t.parts[1])
        if w == "fnref":
            return "fn:" + short(t.parts[0])
        return "%s[%s]" % (w, ", ".join(show(a, depth + 1) for a in t.parts))
    if isinstance(t, V):
        if not t.args:
            return short(t.path)
        return "%s(%s)" % (short(t.path), ", ".join(show(a, depth + 1) for a in t.args))
    if isinstance(t, S):
        return "%s{%s}" % (short(t.path), ", ".join("%s: %s" % (n, show(v, depth + 1)) for n, v in t.fields))
    if isinstance(t, T):
        return "(%s)" % ", ".join(show(a, depth + 1) for a in t.items)
    if isinstance(t, Closure):
        return "|..|{%s}" % t.node.get("def", "closure").rsplit("::", 1)[-1]
    if isinstance(t, Range):
        return "%s..%s%s" % (show(t.lo), "=" if t.inclusive else "", show(t.hi))
    if isinstance(t, tuple):
        return "(%s)" % ", ".join(show(a, depth + 1) for a in t)
    return repr(t)


def short(p):
    if not isinstance(p, str):
        return str(p)
    segs = p.split("::")
    return "::".join(segs[-2:]) if len(segs) > 2 else p


def children(t):
    if isinstance(t, Sym):
        for p in t.parts:
            if isinstance(p, tuple) and not isinstance(p, (V, S, T, Sym, Closure, Range)):
                yield from p
            else:
                yield p
    elif isinstance(t, V):
        yield from t.args
    elif isinstance(t, S):
        for _, v in t.fields:
            yield v
    elif isinstance(t, T):
        yield from t.items
    elif isinstance(t, Range):
        yield t.lo
        yield t.hi


def walk(t):
    yield t
    for c in children(t):
        if isinstance(c, (V, S, T, Sym, Range)):
            yield from walk(c)


def calls(t):
    """all call terms inside t"""
    return [x for x in walk(t) if isinstance(x, Sym) and x.what == "call"]


def params_in(t):
    return [x.parts[0] for x in walk(t) if isinstance(x, Sym) and x.what == "param"]
