"""R2 — wiring of paired arithmetic operations (add/subtract, until/since) and difference direction."""
from .. import hireval as H
from ..terms import show, walk

CORE = "temporal_rs::builtins::core::"
DIFFOP = "temporal_rs::options::DifferenceOperation::"


def norm(fx, f):
    ev = H.Evaluator(fx)
    ev.inline = lambda p: False
    r = ev.call_fn(f, [H.Sym("param", (p["name"],)) for p in f.params])
    return r, list(ev.trace)


def unwrap(t):
    """strip Ok(..)/try[..] around a single call"""
    while True:
        if isinstance(t, H.V) and t.path in (H.OK, H.SOME) and len(t.args) == 1:
            t = t.args[0]
        elif isinstance(t, H.Sym) and t.what == "try":
            t = t.parts[0]
        else:
            return t


def is_call(t):
    return isinstance(t, H.Sym) and t.what == "call" and isinstance(t.parts[0], str)


def is_negated(t, x):
    return is_call(t) and t.parts[0].endswith("::negated") and len(t.parts[1]) == 1 and t.parts[1][0] == x


def check_add_subtract(run, fx, rs, ty, add_name, sub_name, depth=0):
    """subtract(d) must be the same kernel call as add(d) with d negated exactly once and everything else equal"""
    rule = "R2.subtract-is-add-negated"
    run.rule(rule, "`subtract(d)` reaches the same kernel as `add(d)` with the duration negated exactly once and every "
                   "other argument identical (so subtract(d) == add(-d) by construction)")
    fa, fs = rs.fn(CORE + ty + "::" + add_name), rs.fn(CORE + ty + "::" + sub_name)
    key = "%s::%s/%s" % (ty.rsplit("::", 1)[-1], add_name, sub_name)
    if fa is None or fs is None:
        run.anchor_missing(rule, key, "%s::%s / %s not found" % (ty, add_name, sub_name))
        return
    ta, _ = norm(fx, fa)
    ts, _ = norm(fx, fs)
    ca, cs = unwrap(ta), unwrap(ts)
    # subtract may be defined as add(self, negated(other)) directly
    if is_call(cs) and cs.parts[0] == fa.path:
        args = cs.parts[1]
        pn = [H.Sym("param", (p["name"],)) for p in fs.params]
        neg = [i for i, (a, p) in enumerate(zip(args, pn)) if is_negated(a, p)]
        same = [i for i, (a, p) in enumerate(zip(args, pn)) if a == p]
        ok = len(neg) == 1 and len(neg) + len(same) == len(args)
        run.check(ok, rule, key, "subtract = add(.., negated(%s), ..)" % (fs.params[neg[0]]["name"] if neg else "?"),
                  "%s::%s is not %s with exactly one negated argument: %s" % (ty, sub_name, add_name, show(ts)[:160]), fs.loc)
        return
    if not (is_call(ca) and is_call(cs)):
        run.bad(rule, key, "add/subtract bodies are not single kernel calls: add=%s subtract=%s" %
                (show(ta)[:100], show(ts)[:100]), fs.loc)
        return
    if ca.parts[0] == cs.parts[0]:
        aa, sa = ca.parts[1], cs.parts[1]
        if len(aa) != len(sa):
            run.bad(rule, key, "kernel called with different arities", fs.loc)
            return
        neg = [i for i, (a, s) in enumerate(zip(aa, sa)) if is_negated(s, a)]
        same = [i for i, (a, s) in enumerate(zip(aa, sa)) if a == s]
        ok = len(neg) == 1 and len(neg) + len(same) == len(aa)
        run.check(ok, rule, key, "both call %s; argument #%s negated for subtract" %
                  (ca.parts[0].rsplit("::", 1)[-1], neg[0] if neg else "?"),
                  "%s::%s and ::%s both call %s but do not differ by exactly one negation: add(%s) subtract(%s)" %
                  (ty, add_name, sub_name, ca.parts[0].rsplit("::", 1)[-1], ", ".join(show(a)[:40] for a in aa),
                   ", ".join(show(a)[:40] for a in sa)), fs.loc)
        return
    # different callees: they must themselves be an add/subtract pair on the same type with equal arguments
    na, ns = ca.parts[0].rsplit("::", 1)[-1], cs.parts[0].rsplit("::", 1)[-1]
    if depth < 2 and ca.parts[1] == cs.parts[1] and ca.parts[0].rsplit("::", 1)[0] == cs.parts[0].rsplit("::", 1)[0] \
            and ns.replace("subtract", "add") == na:
        run.ok(rule, key, "add -> %s, subtract -> %s with equal arguments" % (na, ns), fs.loc)
        ty2 = ca.parts[0][len(CORE):].rsplit("::", 1)[0]
        check_add_subtract(run, fx, rs, ty2, na, ns, depth + 1)
        return
    run.bad(rule, key, "add calls %s(%s) but subtract calls %s(%s)" %
            (na, ", ".join(show(a)[:40] for a in ca.parts[1]), ns, ", ".join(show(a)[:40] for a in cs.parts[1])), fs.loc)


def check_until_since(run, fx, rs, ty, until_name, since_name):
    rule = "R2.until-since-constants"
    run.rule(rule, "`until` and `since` call the same difference kernel with identical arguments (receiver and other not "
                   "swapped) except for the constant DifferenceOperation::Until / ::Since")
    fu, fs = rs.fn(CORE + ty + "::" + until_name), rs.fn(CORE + ty + "::" + since_name)
    key = "%s::%s/%s" % (ty.rsplit("::", 1)[-1], until_name, since_name)
    if fu is None or fs is None:
        run.anchor_missing(rule, key, "%s::%s / %s not found" % (ty, until_name, since_name))
        return None
    tu, _ = norm(fx, fu)
    ts, _ = norm(fx, fs)
    cu, cs = unwrap(tu), unwrap(ts)
    if not (is_call(cu) and is_call(cs) and cu.parts[0] == cs.parts[0] and len(cu.parts[1]) == len(cs.parts[1])):
        run.bad(rule, key, "until/since are not calls of one kernel: until=%s since=%s" % (show(tu)[:100], show(ts)[:100]),
                fs.loc)
        return None
    diffs = [(a, b) for a, b in zip(cu.parts[1], cs.parts[1]) if a != b]
    okc = len(diffs) == 1 and diffs[0] == (H.V(DIFFOP + "Until", ()), H.V(DIFFOP + "Since", ()))
    # receiver/other order
    pu = [show(a) for a in cu.parts[1] if isinstance(a, H.Sym) and a.what == "param"]
    want = ["$" + p["name"] for p in fu.params]
    run.check(okc and pu == want, rule, key, "kernel %s(%s)" % (cu.parts[0].rsplit("::", 1)[-1], ", ".join(show(a) for a in
                                                                                                       cu.parts[1])),
              "until -> %s ; since -> %s (must differ only by the Until/Since constant, parameters in order)" %
              (show(cu)[:140], show(cs)[:140]), fs.loc)
    return rs.fn(cu.parts[0])


def remove_one_negation(s, target):
    """can `s` be turned into `target` by deleting exactly one `X::negated(` ... `)` wrapper?"""
    i = 0
    while True:
        j = s.find("::negated(", i)
        if j < 0:
            return False
        # find start of the callee name (back to a delimiter)
        k = j
        while k > 0 and (s[k - 1].isalnum() or s[k - 1] in "_:<>"):
            k -= 1
        # matching close paren
        depth = 0
        p = j + len("::negated(") - 1
        q = p
        while q < len(s):
            if s[q] == "(":
                depth += 1
            elif s[q] == ")":
                depth -= 1
                if depth == 0:
                    break
            q += 1
        cand = s[:k] + s[p + 1:q] + s[q + 1:]
        if cand == target:
            return True
        i = j + 1


def check_diff_kernel(run, fx, kernel):
    rule = "R2.since-negates-once"
    run.rule(rule, "inside a difference kernel the operation influences only the option resolver (which mirrors the "
                   "rounding mode) and one final negation of the result: kernel(Since) == negated(kernel(Until)) "
                   "structurally")
    if kernel is None:
        return
    key = kernel.path.replace(CORE, "")
    ev = H.Evaluator(fx)
    ev.inline = lambda p: False
    out = {}
    for op in ("Until", "Since"):
        args = [H.V(DIFFOP + op, ()) if p["ty"].endswith("DifferenceOperation") else H.Sym("param", (p["name"],))
                for p in kernel.params]
        if not any(isinstance(a, H.V) for a in args):
            run.anchor_missing(rule, key, "kernel has no DifferenceOperation parameter")
            return
        try:
            r = ev.call_fn(kernel, args)
        except (H.Panic, H.Budget) as e:
            run.bad(rule, key, "kernel could not be normalised: %s" % e, kernel.loc)
            return
        fd = [c for c in ev.trace if str(c.parts[0]).endswith("::from_diff_settings")]
        okfd = len(fd) == 1 and H.V(DIFFOP + op, ()) in fd[0].parts[1]
        run.check(okfd, rule, key + "/resolver-op/" + op, "from_diff_settings receives the operation unchanged",
                  "with operation %s the option resolver receives %s" % (op, [show(c)[:80] for c in fd]), kernel.loc)
        out[op] = show(r)
    s_since = out["Since"].replace("DifferenceOperation::Since", "DifferenceOperation::Until")
    ok = remove_one_negation(s_since, out["Until"])
    run.check(ok, rule, key, "kernel(Since) = negated(kernel(Until))",
              "the Since and Until results do not differ by exactly one final negation:\n  until: %s\n  since: %s" %
              (out["Until"][:200], out["Since"][:200]), kernel.loc)


def check_direction(run, fx, f, first, second, what):
    """the function's result is `<first-derived> - <second-derived>`"""
    rule = "R2.difference-direction"
    run.rule(rule, "a difference is computed as other - self (until semantics), never swapped")
    if f is None:
        run.anchor_missing(rule, what, "function not found")
        return
    t, tr = norm(fx, f)
    subs = [x for x in walk(t) if isinstance(x, H.Sym) and x.what == "bin-"]
    for c in tr:
        subs += [x for x in walk(c) if isinstance(x, H.Sym) and x.what == "bin-"]
    good = bad = 0
    for s in subs:
        l = {x.parts[0] for x in walk(s.parts[0]) if isinstance(x, H.Sym) and x.what == "param"}
        r = {x.parts[0] for x in walk(s.parts[1]) if isinstance(x, H.Sym) and x.what == "param"}
        if l == {first} and r == {second}:
            good += 1
        elif l == {second} and r == {first}:
            bad += 1
    run.check(good > 0 and bad == 0, rule, what, "%d subtraction(s) %s - %s" % (good, first, second),
              "%s computes %s - %s (%d) / %s - %s (%d); expected only %s - %s" %
              (f.name, first, second, good, second, first, bad, first, second), f.loc)
