"""R8.index-guard — indexing a list must be dominated by a guard that makes the index valid.

Decision extraction (fork mode of the HIR folder) enumerates the paths of a function; every symbolic
index expression `base[i]` is recorded together with the branch decisions taken before it.  The index is
discharged when those decisions contain a recognised non-emptiness / length guard for the same base:
`base.len() == c` (c > i), `base.len() != 0`, `!base.is_empty()`, or the same through a local `n = base.len()`.
Debug assertions do not count (they vanish in release builds).
"""
import re
from .. import hireval as H
from ..terms import show

RULE = "R8.index-guard"


def _len_of(base_s):
    return "len(%s)" % base_s


def guarded(base, idx, decisions):
    bs = show(base)
    is0 = idx == 0
    islast = (isinstance(idx, H.Sym) and idx.what == "bin-" and idx.parts[1] == 1 and isinstance(idx.parts[0], H.Sym)
              and idx.parts[0].what == "call" and str(idx.parts[0].parts[0]).endswith("::len")
              and idx.parts[0].parts[1] and idx.parts[0].parts[1][0] == base)
    if not (is0 or islast or isinstance(idx, int)):
        return None     # not a form this rule understands
    need = (idx + 1) if isinstance(idx, int) else 1
    for cond, choice in decisions:
        if cond.startswith("debug_assertion["):
            continue
        if _len_of(bs) in cond:
            m = re.match(r"bin==\[.*len\(.*\), (\d+)\]$", cond)
            if m and choice is True and int(m.group(1)) >= need:
                return True
            m = re.match(r"bin!=\[.*len\(.*\), 0\]$", cond)
            if m and choice is True and need == 1:
                return True
            m = re.match(r"bin>=?\[.*len\(.*\), (\d+)\]$", cond)
            if m and choice is True:
                k = int(m.group(1)) + (1 if cond.startswith("bin>[") else 0)
                if k >= need:
                    return True
        if "is_empty(%s)" % bs in cond and need == 1:
            neg = cond.startswith("un![")
            if (neg and choice is True) or (not neg and choice is False):
                return True
    return False


def check_fn(run, fx, f, prop_note=""):
    """returns number of index sites examined"""
    ev = H.Evaluator(fx)
    ev.inline = lambda p: p.startswith("temporal_rs::error::")
    ev.all_index_events = []
    args = [H.Sym("param", (p["name"],)) for p in f.params]
    try:
        ev.paths(f, args, max_paths=400)
    except H.Budget:
        run.ok(RULE, f.path + "/too-large", "function too large for path enumeration; not examined", f.loc, nontrivial=False)
        return 0
    sites = {}
    for line, base, idx, dec, bname in ev.all_index_events:
        g = guarded(base, idx, dec)
        if g is None:
            continue
        key = (line, bname or show(base)[:60], show(idx)[:40])
        sites[key] = sites.get(key, True) and g
    n = 0
    ordinal = {}
    for (line, bs, ix), ok in sorted(sites.items(), key=lambda kv: (kv[0][0] or 0, str(kv[0]))):
        n += 1
        nm = "%s[%s]" % (bs, ix.replace("<T, A>::", ""))
        ordinal[nm] = ordinal.get(nm, 0) + 1
        k = "%s/%s#%d" % (f.path, nm, ordinal[nm])
        run.check(ok, RULE, k, "%s is guarded on every path" % nm,
                  "%s in %s is reachable with an empty/short list: no dominating length or emptiness check "
                  "(debug assertions do not count)" % (nm, f.name), "%s:%s" % (f.file, line))
    return n
