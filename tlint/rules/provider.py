"""R10 — lock discipline of the process-wide provider and effects of FsTzdbProvider."""
from .. import hireval as H
from .. import mirq as M
from ..terms import show, walk

GUARD_TY = "std::sync::poison::mutex::MutexGuard<"
LOCK = "std::sync::poison::mutex::Mutex::<T>::lock"
STATIC = "builtins::TZ_PROVIDER"
STATIC_TY = "std::sync::lazy_lock::LazyLock<std::sync::poison::mutex::Mutex<temporal_rs::tzdb::FsTzdbProvider>>"
PROVIDER = "temporal_rs::tzdb::FsTzdbProvider"


def flow_uses(body, local, passthrough=()):
    """follow a value through copies/moves/refs (and passthrough calls); return terminal uses"""
    seen = set()
    work = [local]
    terms = []
    while work:
        l = work.pop()
        if l in seen:
            continue
        seen.add(l)
        for (bb, idx, kind, node) in body.uses(l):
            if kind in ("copy", "move", "ref-shared", "ref-mut", "ref-fake", "cast") and idx != "term":
                tgt = node[1]
                tl = M.place_local(tgt)
                if tl == 0:
                    terms.append(("returned", bb, node))
                elif M.place_proj(tgt):
                    terms.append(("stored-into:" + body.local_ty(tl), bb, node))
                else:
                    work.append(tl)
            elif kind.startswith("arg"):
                c = M.Call(bb, node, body)
                if c.path in passthrough or c.target in passthrough:
                    dl = M.place_local(c.dest)
                    if dl == 0:
                        terms.append(("returned", bb, node))
                    else:
                        work.append(dl)
                else:
                    terms.append(("%s:%s" % (kind, c.path), bb, node))
            elif kind == "discr":
                continue
            else:
                terms.append((kind, bb, node))
    return terms


def lock_sites(fx, crates=("temporal_rs",)):
    """functions that reference the TZ_PROVIDER static, with their Body"""
    out = []
    for c in crates:
        for f in fx[c].fns:
            if f.mir is None:
                continue
            refs = M.static_refs(f, STATIC)
            if refs:
                out.append((f, M.Body(f), refs))
    return out


def check_lock_discipline(run, fx, cg):
    rs = fx["temporal_rs"]
    sites = lock_sites(fx)
    run.analysed["lock_sites"] = len(sites)
    run.rule("R10.L1-lock-only", "every use of the static TZ_PROVIDER is Deref::deref followed by Mutex::lock (no try_lock, "
                                 "get_mut, into_inner or raw pointer)")
    run.rule("R10.L2-guard-local", "the MutexGuard is a local that is only dereferenced and dropped; it is never "
                                   "returned, stored, leaked or passed on")
    run.rule("R10.L3-no-reentry", "while the guard is live, no function reachable through the call graph (trait calls on "
                                  "impl TimeZoneProvider fanned out to every impl) acquires the provider lock again")
    run.rule("R10.L4-no-other-sync", "while the guard is live no other lock, condition variable, channel or thread "
                                     "primitive is reachable; the static is LazyLock<Mutex<FsTzdbProvider>>; no unsafe "
                                     "impl Send/Sync exists; FsTzdbProvider is Send and not Sync (type checker's verdict)")
    run.rule("R10.L6-poison-recovery", "a panic while the guard is live must not disable later calls: the Err(PoisonError) "
                                       "result of every lock() is recovered with into_inner, not turned into an error")
    # functions that take the lock through a helper introduced after the baseline (`fn tz_provider() -> MutexGuard`) still count
    # as users of the static: the floor guards against a rule that no longer finds its sites, not against a refactoring
    from .. import baseline
    helpers = {f.path for f, _, _ in sites if baseline.is_new(f.path)}
    via_helper = 0
    if helpers:
        for c in ("temporal_rs",):
            for g in fx[c].fns:
                if g.mir is not None and g.path not in helpers and any(cl.path in helpers for cl in M.Body(g).calls()):
                    via_helper += 1
    run.analysed["lock_sites_via_new_helpers"] = via_helper
    if len(sites) + via_helper < 40:
        run.anchor_missing("R10.L1-lock-only", "lock-sites", "only %d functions use TZ_PROVIDER (expected >= 40)" %
                           (len(sites) + via_helper))
    st = rs.consts.get("temporal_rs::" + STATIC)
    if st is None:
        run.anchor_missing("R10.L4-no-other-sync", "static", "static TZ_PROVIDER not found")
    else:
        run.check(st["ty"] == STATIC_TY, "R10.L4-no-other-sync", "static-type", "TZ_PROVIDER: " + st["ty"],
                  "TZ_PROVIDER has type %s, expected %s" % (st["ty"], STATIC_TY),
                  "%s:%s" % (st["span"]["f"], st["span"]["l"]))
    prov = rs.adts.get(PROVIDER)
    if prov is None:
        run.anchor_missing("R10.L4-no-other-sync", "FsTzdbProvider", "type not found")
    else:
        run.check(prov.get("sync") is False and prov.get("send") is True, "R10.L4-no-other-sync", "auto-traits",
                  "FsTzdbProvider: Send, !Sync (sharing is impossible without the mutex)",
                  "FsTzdbProvider has sync=%s send=%s; it must be Send and must not be Sync unless its interior "
                  "mutability is removed" % (prov.get("sync"), prov.get("send")))
    for c in ("temporal_rs", "temporal_provider"):
        for i in fx[c].impls:
            tr = i.get("trait") or ""
            if tr.endswith("marker::Send") or tr.endswith("marker::Sync"):
                key = "unsafe-impl/%s/%s" % (tr.rsplit("::", 1)[-1], i["self_ty"])
                run.check(i.get("negative", False), "R10.L4-no-other-sync", key, "negative impl",
                          "manual `unsafe impl %s for %s` bypasses the compiler's thread-safety verdict" % (tr, i["self_ty"]),
                          "%s:%s" % (i["span"]["f"], i["span"]["l"]))
    # other statics holding a provider
    for c in ("temporal_rs",):
        for p, k in fx[c].consts.items():
            if k["kind"].startswith("Static") and "FsTzdbProvider" in k["ty"] and not p.endswith(STATIC):
                run.bad("R10.L1-lock-only", "other-static/" + p, "another static holds an FsTzdbProvider: %s: %s" % (p, k["ty"]))
    lockfns = {f.path for f, _, _ in sites}
    deref_ok = ("core::ops::deref::Deref::deref",)
    for f, body, refs in sites:
        key = f.path.replace("temporal_rs::builtins::compiled::", "")
        # L1
        bad = []
        lock_calls = []
        for (bb, j, loc) in refs:
            for kind, ubb, node in flow_uses(body, loc, passthrough=deref_ok):
                if kind == "arg0:" + LOCK:
                    lock_calls.append(M.Call(ubb, node, body))
                else:
                    bad.append(kind)
        for c in body.calls():
            if c.path and c.path.startswith("std::sync::poison::mutex::Mutex::<T>::") and c.path != LOCK:
                bad.append(c.path)
        run.check(not bad and lock_calls, "R10.L1-lock-only", key, "TZ_PROVIDER -> deref -> lock()",
                  "TZ_PROVIDER is used other than through Mutex::lock: %s" % bad, f.loc)
        # L2
        guards = [l for l in range(len(body.locals)) if body.local_ty(l).startswith(GUARD_TY)]
        bad2 = []
        for g in guards:
            for (bb, idx, kind, node) in body.uses(g):
                if kind == "drop":
                    continue
                if kind in ("ref-shared", "ref-mut") and idx != "term":
                    tl = M.place_local(node[1])
                    for k2, b2, n2 in flow_uses(body, tl):
                        if not (k2.startswith("arg0:core::ops::deref::Deref")):
                            bad2.append("borrow of guard used as " + k2)
                    continue
                if kind == "move" and idx != "term":
                    tgt = node[1]
                    tl = M.place_local(tgt)
                    if tl == 0:
                        bad2.append("guard moved into the return value")
                    elif M.place_proj(tgt) or not body.local_ty(tl).startswith(GUARD_TY):
                        bad2.append("guard moved into " + body.local_ty(tl))
                    continue
                bad2.append(kind if not kind.startswith("arg") else "guard passed to " + M.Call(bb, node, body).path)
        run.check(guards and not bad2, "R10.L2-guard-local", key, "%d guard local(s): deref + drop only" % len(guards),
                  "guard misuse: %s" % sorted(set(bad2)) if guards else "no MutexGuard local found", f.loc)
        # guarded region: every call reachable after a successful lock
        region_calls = []
        for lc in lock_calls:
            if lc.t.get("t") is None:
                continue
            blocks = body.reachable(lc.t["t"])
            for c in body.calls():
                if c.bb in blocks:
                    region_calls.append(c)
        roots = set()
        for c in region_calls:
            roots |= cg.resolve(c)
        # closures created while the guard is live (and handed to map_err / unwrap_or_else / ... ) run under the lock
        if lock_calls:
            live_blocks = set()
            for lc in lock_calls:
                if lc.t.get("t") is not None:
                    live_blocks |= body.reachable(lc.t["t"])
            for bi, blk in enumerate(f.mir["blocks"]):
                if bi not in live_blocks:
                    continue
                for st in blk["s"]:
                    if st[0] == "=" and st[2][0] == "agg" and isinstance(st[2][1], dict) and "closure" in st[2][1]:
                        roots.add(st[2][1]["closure"])
        clo = cg.closure(roots)
        re = sorted(p for p in clo if p in lockfns)
        chain = None
        if re:
            for r in roots:
                chain = cg.path_to(r, lambda p: p in lockfns) if r not in lockfns else [r]
                if chain:
                    break
        run.check(not re, "R10.L3-no-reentry", key, "%d functions reachable under the lock, none locks again" % len(clo),
                  "re-entrant acquisition: under the lock held by %s the call chain %s reaches a function that locks "
                  "TZ_PROVIDER again (self-deadlock on a non-reentrant mutex)" % (f.name, " -> ".join(chain or re)), f.loc)
        other = []
        for p in clo:
            if p.startswith("std::sync::") or p.startswith("std::thread::") or p.startswith("core::sync::atomic"):
                if any(x in p for x in ("MutexGuard", "PoisonError", "LazyLock", "lazy_lock")):
                    continue
                other.append(p)
        run.check(not other, "R10.L4-no-other-sync", key, "no other synchronisation primitive under the lock",
                  "other synchronisation reachable while TZ_PROVIDER is held (lock-order hazard): %s" % sorted(other)[:5],
                  f.loc)
        # L6 poison recovery
        okp = True
        why = None
        for lc in lock_calls:
            dl = M.place_local(lc.dest)
            for kind, ubb, node in flow_uses(body, dl):
                if kind.startswith("arg0:core::result::Result::<T, E>::unwrap_or_else"):
                    c = M.Call(ubb, node, body)
                    a1 = c.args[1]
                    k = a1.get("k")
                    if k and "fn" in k and k["fn"]["path"].endswith("PoisonError::<T>::into_inner"):
                        continue
                    # a closure: its body must call into_inner
                    al = M.op_local(a1)
                    okc = False
                    if al is not None:
                        ty = body.local_ty(al)
                        for g in rs.fns:
                            if g.kind == "Closure" and g.path.startswith(f.path + "::") and g.mir is not None:
                                if any(cc.path and cc.path.endswith("PoisonError::<T>::into_inner") for cc in M.Body(g).calls()):
                                    okc = True
                    if not okc:
                        okp, why = False, "unwrap_or_else handler does not call PoisonError::into_inner"
                elif kind.startswith("arg0:core::result::Result::<T, E>::map_err") or \
                        kind.startswith("arg0:core::result::Result::<T, E>::ok") or \
                        kind.startswith("arg0:core::result::Result::<T, E>::unwrap") or \
                        kind.startswith("arg0:core::result::Result::<T, E>::expect"):
                    okp, why = False, "the PoisonError of lock() is %s" % (
                        "converted into an error (map_err)" if "map_err" in kind else "discarded or unwrapped")
                elif kind == "drop":
                    continue
                else:
                    okp, why = False, "lock() result used as " + kind
        run.check(okp, "R10.L6-poison-recovery", key, "lock().unwrap_or_else(PoisonError::into_inner)",
                  "%s: after one call panics while holding the provider, every later call of %s fails" % (why, f.name),
                  f.loc)
    return sites


def provider_entry_points(fx):
    rs = fx["temporal_rs"]
    out = []
    for f in rs.fns:
        if f.d.get("impl_self") == PROVIDER and (f.d.get("impl_trait") or "").endswith("provider::TimeZoneProvider"):
            out.append(f)
    return out


MUTATORS = ("core::cell::RefCell::<T>::borrow_mut", "core::cell::RefCell::<T>::replace", "core::cell::RefCell::<T>::swap",
            "core::cell::RefCell::<T>::try_borrow_mut", "core::cell::Cell::<T>::set", "core::cell::Cell::<T>::replace",
            "core::cell::Cell::<T>::take", "core::cell::RefCell::<T>::take", "core::cell::RefCell::<T>::get_mut",
            "core::cell::UnsafeCell::<T>::get", "std::thread::LocalKey::<T>::with", "std::thread::LocalKey::<T>::set")


def check_effects(run, fx, cg):
    """history independence of FsTzdbProvider: its only state is a pure memo keyed by the identifier"""
    rs = fx["temporal_rs"]
    rule = "R10.provider-effects"
    run.rule(rule, "FsTzdbProvider's only interior-mutable state is `cache`; only FsTzdbProvider::get mutates it; the "
                   "inserted value depends on the key alone; no static mut / thread-local / other interior mutability is "
                   "reachable from the TimeZoneProvider methods; no Ref guard is live across borrow_mut")
    prov = rs.adts.get(PROVIDER)
    if prov is None:
        run.anchor_missing(rule, "FsTzdbProvider", "type not found")
        return
    fields = prov["variants"][0]["fields"]
    interior = [f["name"] for f in fields if any(t in f["ty"] for t in ("cell::RefCell<", "cell::Cell<", "sync::atomic",
                                                                          "Mutex<", "RwLock<", "UnsafeCell<", "OnceCell<"))]
    plain = [f["name"] for f in fields if f["name"] not in interior]
    run.check(interior == ["cache"], rule, "state", "interior-mutable fields: %s, other fields: %s" % (interior, plain),
              "FsTzdbProvider's interior-mutable fields are %s (expected exactly [cache]); new state must be shown to be a "
              "pure memo" % interior)
    entries = provider_entry_points(fx)
    run.check(len(entries) >= 4, rule, "entry-points", "%d TimeZoneProvider methods" % len(entries),
              "TimeZoneProvider impl for FsTzdbProvider has %d methods (expected 4)" % len(entries))
    clo = cg.closure({e.path for e in entries})
    run.analysed["provider_closure_functions"] = len(clo)
    mut_sites = []
    for p in clo:
        f = cg.fns.get(p)
        if f is None:
            continue
        for c in M.Body(f).calls():
            if c.path in MUTATORS:
                mut_sites.append((f, c))
    where = sorted({f.path for f, _ in mut_sites})
    # FsTzdbProvider::get, or a private helper introduced after the baseline that get() itself calls (the memo moved
    # into it with an extract-function refactoring)
    from .. import baseline
    getf = cg.fns.get(PROVIDER + "::get")
    helpers = set()
    if getf is not None:
        helpers = {p for p in cg.closure({getf.path}) if p.startswith("temporal_rs::tzdb::") and baseline.is_new(p)}
    allowed = {PROVIDER + "::get"} | helpers
    run.check(bool(where) and set(where) <= allowed, rule, "mutators", "interior mutation only in FsTzdbProvider::get%s" %
              (" (through its new helper %s)" % sorted(helpers) if helpers & set(where) else ""),
              "interior mutation reachable from the provider methods in %s (expected only FsTzdbProvider::get)" % where)
    memo_fn = next((f for f, _ in mut_sites if f.path in helpers), None)
    # static mut / statics with interior mutability reachable
    for p in clo:
        f = cg.fns.get(p)
        if f is None:
            continue
        for i, b in enumerate(f.mir["blocks"]):
            for s in b["s"]:
                if s[0] == "=" and s[2][0] == "use" and "k" in s[2][1]:
                    v = s[2][1]["k"].get("val")
                    if isinstance(v, dict) and "static" in v:
                        sp = v["static"]
                        sd = None
                        for c in fx.crates.values():
                            sd = sd or c.consts.get(sp)
                        ty = sd["ty"] if sd else s[2][1]["k"].get("ty", "?")
                        mutable = (sd and "Mut" in sd["kind"] and "mutability: Mut" in sd["kind"]) or any(
                            t in ty for t in ("Cell<", "Mutex<", "RwLock<", "Atomic", "LazyLock<", "OnceLock<"))
                        run.check(not mutable, rule, "static/%s/%s" % (p, sp), "immutable static %s" % sp,
                                  "provider code reads mutable/lazily initialised static %s: %s (answers could depend on "
                                  "history)" % (sp, ty), f.loc)
    # the inserted value depends on the key only
    g = rs.fn(PROVIDER + "::get")
    if g is None:
        run.anchor_missing(rule, "get", "FsTzdbProvider::get not found")
        return
    g_mir = memo_fn if memo_fn is not None else g      # the body that contains borrow_mut (MIR part below)
    ev = H.Evaluator(fx)
    ev.inline = lambda p: False
    ev.call_fn(g, [H.Sym("param", (p["name"],)) for p in g.params])
    ins = [c for c in ev.trace if c.parts[0].endswith("::or_insert") or c.parts[0].endswith("::insert")
           or c.parts[0].endswith("::or_insert_with")]
    if not ins:
        run.bad(rule, "memo-insert", "no insertion into the cache found in FsTzdbProvider::get", g.loc)
    for c in ins:
        vals = list(c.parts[1][1:]) if c.parts[0].endswith("or_insert") or c.parts[0].endswith("or_insert_with") \
            else list(c.parts[1][2:])
        deps = set()
        for v in vals:
            for x in walk(v):
                if isinstance(x, H.Sym) and x.what == "param":
                    deps.add(x.parts[0])
        run.check(deps <= {"identifier"} and deps, rule, "memo-value", "cached value depends on %s only" % sorted(deps),
                  "the cached value depends on %s; a memo must be a function of the identifier (and the files) alone" %
                  sorted(deps), g.loc, detail=show(c))
    # Ref guard not live across borrow_mut
    body = M.Body(g_mir)
    refs = [l for l in range(len(body.locals)) if body.local_ty(l).startswith("core::cell::Ref<")]
    bm = [c for c in body.calls() if c.path == "core::cell::RefCell::<T>::borrow_mut"]
    okr = True
    for r in refs:
        for (bb, idx, kind, node) in body.defs().get(r, []):
            start = node["t"] if idx == "term" and node.get("t") is not None else bb
            drops = {b for (b, i2, k2, n2) in body.uses(r) if k2 == "drop"}
            live = body.reachable(start, stop=lambda b: b in drops)
            live -= {b for b in drops}
            if any(c.bb in live for c in bm):
                okr = False
    run.check(okr and bm, rule, "no-ref-across-borrow-mut", "%d Ref guard(s) dropped before borrow_mut" % len(refs),
              "a shared RefCell borrow is still live when borrow_mut is called (BorrowMutError panic under the lock)" if bm
              else "no borrow_mut call found", g.loc)


CONVERSIONS = ("::into", "::from", "::to_string", "::to_owned", "::as_str", "::deref", "::borrow", "::as_ref", "::clone",
               "::to_str", "::as_bytes")


def _strip_conv(t):
    """remove representation-only conversions (String <-> &str, clone, deref) around a term"""
    while True:
        if isinstance(t, H.Sym) and t.what == "call" and isinstance(t.parts[0], str) and t.parts[0].endswith(CONVERSIONS) \
                and len(t.parts[1]) == 1:
            t = t.parts[1][0]
        elif isinstance(t, H.Sym) and t.what in ("addr", "deref") and t.parts:
            t = t.parts[0]
        else:
            return t


def check_cache_key(run, fx):
    rule = "R10.cache-key-agreement"
    run.rule(rule, "in FsTzdbProvider::get the key used to look the cache up, the key under which the data are inserted and the "
                   "name with which the TZif data are read are the same value (up to String/&str conversions): two identifiers "
                   "that share a cache entry read the same file, and a hit returns what a miss would have read")
    rs = fx["temporal_rs"]
    g = rs.fn(PROVIDER + "::get")
    if g is None:
        run.anchor_missing(rule, "get", "FsTzdbProvider::get not found")
        return
    ev = H.Evaluator(fx)
    ev.inline = lambda p: False
    ev.call_fn(g, [H.Sym("param", (p["name"],)) for p in g.params])
    look = [c.parts[1][1] for c in ev.trace if c.parts[0].endswith("BTreeMap::<K, V, A>::get") or c.parts[0].endswith("::contains_key")
            or c.parts[0].endswith("HashMap::<K, V, S>::get")]
    ins = [c.parts[1][1] for c in ev.trace if c.parts[0].endswith("::entry") or c.parts[0].endswith("::insert")]
    read = [c.parts[1][0] for c in ev.trace if c.parts[0].endswith("Tzif::read_tzif") or c.parts[0].endswith("jiff_tzdb::get")
            or c.parts[0].endswith("Tzif::from_path")]
    if not look or not ins or not read:
        run.anchor_missing(rule, "sites", "lookup/insert/read sites not all found (lookup %d, insert %d, read %d)" %
                           (len(look), len(ins), len(read)), g.loc)
        return
    keys = {"lookup": {show(_strip_conv(t)) for t in look}, "insert": {show(_strip_conv(t)) for t in ins},
            "read": {show(_strip_conv(t)) for t in read}}
    allk = set().union(*keys.values())
    run.check(len(allk) == 1, rule, "FsTzdbProvider::get", "lookup, insert and read all use %s" % sorted(allk),
              "the cache is looked up with %s, filled under %s, but the data are read with %s: entries and files can disagree" %
              (sorted(keys["lookup"]), sorted(keys["insert"]), sorted(keys["read"])), g.loc)


def check_identifier_pure(run, fx, cg):
    rule = "R10.check-identifier-uses-the-normalizer-only"
    run.rule(rule, "TimeZoneProvider::check_identifier of the bundled provider decides from the baked IANA normalizer alone: "
                   "nothing reachable from it touches the file system (an identifier is valid or not independent of which "
                   "files exist under the zoneinfo directory)")
    rs = fx["temporal_rs"]
    f = next((x for x in rs.fns if x.path.endswith("FsTzdbProvider as temporal_rs::provider::TimeZoneProvider>::check_identifier")), None)
    if f is None:
        run.anchor_missing(rule, "check_identifier", "not found")
        return
    clo = cg.closure({f.path})
    hits = []
    for p in clo:
        h = cg.fns.get(p)
        if h is None or h.mir is None:
            continue
        for c in M.Body(h).calls():
            tp = str(c.target or "")
            if tp.startswith(("std::fs::", "std::path::Path::is_file", "std::path::Path::exists", "std::path::Path::metadata",
                              "std::path::Path::is_dir", "std::path::Path::try_exists", "std::fs::File", "std::env::")) \
                    or "::read_tzif" in tp or "::from_path" in tp:
                hits.append("%s -> %s" % (p.rsplit("::", 1)[-1], tp))
    run.check(not hits, rule, "check_identifier", "no file-system access reachable (%d functions)" % len(clo),
              "check_identifier reaches the file system: %s" % hits[:4], f.loc)
