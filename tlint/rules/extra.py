"""Rules added after defects of the pinned tree were reported from outside the checks (each a necessary condition with a
structural form; see DESIGN.md 0.5)."""
from .. import hireval as H
from ..terms import show, walk
from .common import hir_walk, is_err

CORE = "temporal_rs::builtins::core::"


def _paths(fx, f, max_paths=400):
    ev = H.Evaluator(fx)
    ev.inline = lambda p: p.startswith("temporal_rs::error::")
    return ev.paths(f, [H.Sym("param", (p["name"],)) for p in f.params], max_paths=max_paths)


def check_total_includes_days(run, fx):
    """C09: total without relativeTo works on ToInternalDurationRecordWith24HourDays: the days are folded in"""
    rule = "R11.total-folds-days-into-the-time-total"
    run.rule(rule, "Duration::total: every success path that totals the time duration directly (no relativeTo) first folds the "
                   "days field into it (NormalizedTimeDuration::add_days), as Duration::round's no-relativeTo branch does: "
                   "the 24-hour-days internal duration, not the time fields alone, is what is totalled")
    f = fx["temporal_rs"].fn(CORE + "duration::Duration::total_with_provider")
    if f is None:
        run.anchor_missing(rule, "total_with_provider", "not found")
        return
    try:
        paths = _paths(fx, f)
    except H.Budget:
        run.ok(rule, "total_with_provider", "too many paths: not decided", f.loc, nontrivial=False)
        return
    direct = bad = 0
    for dec, res, tr in paths:
        if isinstance(res, H.Panic) or is_err(res):
            continue
        names = [str(c.parts[0]) for c in tr]
        if any(n.endswith("NormalizedTimeDuration::total") for n in names):
            direct += 1
            if not any(n.endswith("NormalizedTimeDuration::add_days") for n in names):
                bad += 1
    run.check(direct > 0 and bad == 0, rule, "Duration::total", "%d direct-total path(s), all fold the days in" % direct,
              "%d of %d success paths total `self.time` alone: the days field of the duration is ignored (P1D totals 0 hours)" %
              (bad, direct), f.loc)


def check_candidates_sorted(run, fx):
    """C13: GetPossibleEpochNanoseconds returns its list in ascending order"""
    rule = "R11.possible-instants-sorted"
    run.rule(rule, "TimeZone::get_possible_epoch_ns_for returns the candidate instants of a named zone in ascending order whatever "
                   "the provider returns: every success path that asks the provider sorts the list (compatible/earlier take the "
                   "first element, later the last)")
    f = fx["temporal_rs"].fn(CORE + "timezone::TimeZone::get_possible_epoch_ns_for")
    if f is None:
        run.anchor_missing(rule, "get_possible_epoch_ns_for", "not found")
        return
    try:
        paths = _paths(fx, f)
    except H.Budget:
        run.ok(rule, "get_possible_epoch_ns_for", "too many paths: not decided", f.loc, nontrivial=False)
        return
    asked = bad = 0
    for dec, res, tr in paths:
        if isinstance(res, H.Panic) or is_err(res):
            continue
        names = [str(c.parts[0]) for c in tr]
        if any(n.endswith("get_named_tz_epoch_nanoseconds") for n in names):
            asked += 1
            if not any(n.endswith(("::sort", "::sort_unstable", "::sort_by", "::sort_by_key", "::sort_unstable_by")) for n in names):
                bad += 1
    run.check(asked > 0 and bad == 0, rule, "named-zone branch", "%d path(s) through the provider, all sorted" % asked,
              "%d of %d success paths return the provider's list unsorted: with the candidates of a repeated wall-clock time in "
              "descending order `compatible` picks the later instant" % (bad, asked), f.loc)


def _reads_time_part(fx, g, pname, depth=0):
    """does function g use the time part of its Duration parameter `pname` (directly, or by passing it on)?"""
    if g is None or g.hir is None or depth > 2:
        return False
    for n in hir_walk(g.hir):
        if not isinstance(n, dict):
            continue
        if n.get("k") == "mcall" and n.get("name") in ("time", "hours", "minutes", "seconds", "milliseconds", "microseconds",
                                                         "nanoseconds", "fields"):
            r = n.get("recv") or {}
            if r.get("k") == "path" and (r.get("res") or {}).get("local") == pname:
                return True
        if n.get("k") == "field" and n.get("name") == "time":
            r = n.get("of") or n.get("e") or {}
            if isinstance(r, dict) and r.get("k") == "path" and (r.get("res") or {}).get("local") == pname:
                return True
    return False


def check_time_part_once(run, fx):
    """C14: AddZonedDateTime adds the date part through the calendar and the time part exactly, once each"""
    rule = "R2.time-part-added-once"
    run.rule(rule, "ZonedDateTime::add_as_instant hands the calendar addition a date-only duration: no callee that itself consumes "
                   "the time part of a duration receives the whole duration when the time part is also added to the instant "
                   "afterwards (24 hours or more of time would be counted as days and as time)")
    rs = fx["temporal_rs"]
    f = rs.fn(CORE + "zoneddatetime::ZonedDateTime::add_as_instant")
    if f is None:
        run.anchor_missing(rule, "add_as_instant", "not found")
        return
    ev = H.Evaluator(fx)
    ev.inline = lambda p: False
    ev.call_fn(f, [H.Sym("param", (p["name"],)) for p in f.params])
    dpar = next((p["name"] for p in f.params if p["ty"].endswith("duration::Duration")), None)
    if dpar is None:
        run.anchor_missing(rule, "duration parameter", "no Duration parameter", f.loc)
        return
    consumers = []
    for c in ev.trace:
        g = rs.fn(str(c.parts[0]))
        for k, a in enumerate(c.parts[1]):
            sa = show(a)
            if sa == "$" + dpar and g is not None and k < len(g.params):
                if _reads_time_part(fx, g, g.params[k]["name"]):
                    consumers.append("%s(whole duration)" % g.name)
            elif sa in ("Duration::time($%s)" % dpar, "$%s.time" % dpar):
                consumers.append("%s(time part)" % str(c.parts[0]).rsplit("::", 1)[-1])
    # one consumer per path is expected; the early-return path and the main path each have one add_to_instant
    whole = [x for x in consumers if "whole duration" in x]
    run.check(not whole and consumers, rule, "add_as_instant", "time part consumers: %s" % sorted(set(consumers)),
              "the whole duration is passed to %s, which consumes its time part, and the time part is also added to the instant "
              "(%s)" % (whole, sorted(set(consumers) - set(whole))), f.loc)


def check_iso_week_calculator(run, fx):
    """C01: ISO weeks: week 1 is the week containing at least 4 days of the year"""
    rule = "R1.iso-week-rule-constants"
    run.rule(rule, "Calendar::week_of_year and Calendar::year_of_week compute ISO 8601 weeks: the week calculator they use has "
                   "min_week_days = 4 (icu_calendar's default is 1: the week containing January 1st)")
    rs = fx["temporal_rs"]
    for nm in ("week_of_year", "year_of_week"):
        f = rs.fn(CORE + "calendar::Calendar::" + nm)
        if f is None:
            run.anchor_missing(rule, nm, "not found")
            continue
        uses_calc = any(isinstance(n, dict) and n.get("k") in ("call", "mcall") and "WeekCalculator" in str(n.get("full") or n.get("fn") or "")
                        for n in hir_walk(f.hir))
        mins = []
        for n in hir_walk(f.hir):
            if isinstance(n, dict) and n.get("k") == "assign":
                lhs = n.get("lhs") or n.get("a") or {}
                rhs = n.get("rhs") or n.get("b") or {}
                if isinstance(lhs, dict) and lhs.get("k") == "field" and lhs.get("name") == "min_week_days":
                    v = rhs.get("v") if isinstance(rhs, dict) else None
                    mins.append(v.get("int") if isinstance(v, dict) else None)
            if isinstance(n, dict) and n.get("k") == "struct" and "WeekCalculator" in str(n.get("path") or n.get("ty") or ""):
                for fld in n.get("fields", []):
                    if fld.get("name") == "min_week_days":
                        v = (fld.get("e") or {}).get("v")
                        mins.append(v.get("int") if isinstance(v, dict) else None)
        if not uses_calc:
            run.ok(rule, nm, "no icu week calculator used: not decided by this rule", f.loc, nontrivial=False)
            continue
        run.check(mins == [4], rule, nm, "min_week_days = 4",
                  "Calendar::%s uses an icu_calendar WeekCalculator with min_week_days = %s (the default is 1); ISO 8601 needs 4: "
                  "2021-01-01 is in week 53 of 2020, not week 1" % (nm, mins or "default"), f.loc)


def _is_round_call(name):
    last = name.rsplit("::", 1)[-1]
    return last in ("round", "round_instant", "round_time", "round_inner") or last.startswith("round_to_")


def check_to_string_prints_rounded(run, fx):
    """C07: fractional-digit precision in toString rounds with the requested mode: what is written is the rounded value"""
    from ..terms import calls
    rule = "R2.to-string-prints-the-rounded-value"
    run.rule(rule, "every to-string function that rounds (calls a rounding kernel with the resolved to-string options) hands the "
                   "IXDTF builder a time that is derived from the rounding result, and a date derived from the same result "
                   "(the day carry of a time that rounds up to 24:00): the writer itself only truncates to the precision")
    rs = fx["temporal_rs"]
    n = 0
    for f in rs.fns:
        if f.hir is None or f.path.endswith(("::with_time", "::with_date")) or "IxdtfStringBuilder" not in str(f.hir):
            continue
        ev = H.Evaluator(fx)
        ev.inline = lambda p: p.startswith("temporal_rs::error::")
        try:
            ev.call_fn(f, [H.Sym("param", (p["name"],)) for p in f.params])
        except (H.Panic, H.Budget):
            continue
        rounds = [c for c in ev.trace if _is_round_call(str(c.parts[0]))]
        times = [c for c in ev.trace if "IxdtfStringBuilder" in str(c.parts[0]) and str(c.parts[0]).endswith("::with_time")]
        dates = [c for c in ev.trace if "IxdtfStringBuilder" in str(c.parts[0]) and str(c.parts[0]).endswith("::with_date")]
        if not rounds or not times:
            continue
        n += 1
        name = f.path.replace(CORE, "")

        def from_round(term):
            return [show(c) for c in calls(term) if _is_round_call(str(c.parts[0]))]
        tsrc = [r for c in times for r in from_round(c.parts[1][1])] if all(len(c.parts[1]) > 1 for c in times) else []
        run.check(bool(tsrc), rule, name + "/time", "the time written derives from %s" % (tsrc[:1] or [""])[0][:80],
                  "%s rounds (%s) but the time it writes, `%s`, does not derive from the rounding result: the text is the "
                  "truncated value whatever the rounding mode" %
                  (f.name, show(rounds[0])[:60], show(times[0].parts[1][1])[:100] if len(times[0].parts[1]) > 1 else "?"), f.loc)
        if dates and tsrc:
            dsrc = [r for c in dates for r in from_round(c.parts[1][1])] if all(len(c.parts[1]) > 1 for c in dates) else []
            run.check(bool(set(dsrc) & set(tsrc)), rule, name + "/date", "the date written derives from the same rounding result",
                      "%s writes a time derived from the rounding result but the date `%s` does not derive from it: a time that "
                      "rounds up to midnight loses its day carry" % (f.name, show(dates[0].parts[1][1])[:100]), f.loc)
    if n < 4:
        run.anchor_missing(rule, "to-string functions", "only %d rounding to-string functions found (expected >= 4: PlainTime, "
                                                        "PlainDateTime, Instant, ZonedDateTime)" % n)


def check_duration_field_tables(run, fx):
    """C06 / C09: the predicates that classify a duration by its non-zero fields"""
    from .common import fold
    rule = "R1.duration-field-classification"
    run.rule(rule, "folded on the ten durations with exactly one non-zero field (both signs) and on the zero duration: "
                   "Duration::is_time_duration is true exactly when the non-zero field is hours or smaller (a day is a date "
                   "unit: Instant / PlainTime arithmetic must refuse it), Duration::default_largest_unit is the unit of that "
                   "field (nanosecond for zero), Duration::sign is the sign of that field")
    rs = fx["temporal_rs"]
    D = CORE + "duration::"
    F = "temporal_rs::primitive::FiniteF64"
    DF = ["years", "months", "weeks", "days"]
    TF = ["hours", "minutes", "seconds", "milliseconds", "microseconds", "nanoseconds"]
    UNIT = {"years": "Year", "months": "Month", "weeks": "Week", "days": "Day", "hours": "Hour", "minutes": "Minute",
            "seconds": "Second", "milliseconds": "Millisecond", "microseconds": "Microsecond", "nanoseconds": "Nanosecond"}

    def dur(nz, val):
        dd = H.S(D + "date::DateDuration", tuple((n, H.V(F, (val if n == nz else 0.0,))) for n in DF))
        td = H.S(D + "time::TimeDuration", tuple((n, H.V(F, (val if n == nz else 0.0,))) for n in TF))
        return H.S(D + "Duration", (("date", dd), ("time", td)))
    fns = {n: rs.fn1("Duration::" + n) for n in ("is_time_duration", "default_largest_unit", "sign")}
    for name, f in fns.items():
        if f is None:
            run.anchor_missing(rule, name, "Duration::%s not found" % name)
            continue
        for nz in DF + TF + [None]:
            for val in ((1.0, -1.0) if nz else (0.0,)):
                got = fold(H.Evaluator(fx), f, [dur(nz, val)])
                key = "%s/%s%s" % (name, nz or "zero", "" if val >= 0 else "/negative")
                if got[0] != "val":
                    run.ok(rule, key, "does not fold: not decided", f.loc, nontrivial=False)
                    continue
                if name == "is_time_duration":
                    want = nz not in DF
                elif name == "default_largest_unit":
                    want = H.V("temporal_rs::options::Unit::" + (UNIT[nz] if nz else "Nanosecond"), ())
                else:
                    want = H.V("temporal_rs::Sign::" + ("Zero" if not nz else "Positive" if val > 0 else "Negative"), ())
                run.check(got[1] == want, rule, key, "%s = %s" % (name, show(want)),
                          "Duration::%s of a duration whose only non-zero field is %s = %s is %s, expected %s" %
                          (name, nz or "none", val, show(got[1])[:60], show(want)), f.loc)
    run.exhaustive_tables.append("Duration field classification (10 fields x 2 signs + zero)")
