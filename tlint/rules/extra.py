"""Rules added after defects of the pinned tree were reported from outside the checks (each a necessary condition with a
structural form; see DESIGN.md 0.5)."""
from .. import hireval as H
from ..terms import show, walk
from .common import hir_walk, is_err

CORE = "temporal_rs::builtins::core::"


def _paths(fx, f, max_paths=400):
    ev = H.Evaluator(fx)
    ev.inline = lambda p: p.startswith("temporal_rs::error::")
    return ev.paths(f, [H.Sym("param", (p["name"],)) for p in f.params], max_paths=max_paths)


def check_total_includes_days(run, fx):
    """C09: total without relativeTo works on ToInternalDurationRecordWith24HourDays: the days are folded in"""
    rule = "R11.total-folds-days-into-the-time-total"
    run.rule(rule, "Duration::total: every success path that totals the time duration directly (no relativeTo) first folds the "
                   "days field into it (NormalizedTimeDuration::add_days), as Duration::round's no-relativeTo branch does: "
                   "the 24-hour-days internal duration, not the time fields alone, is what is totalled")
    f = fx["temporal_rs"].fn(CORE + "duration::Duration::total_with_provider")
    if f is None:
        run.anchor_missing(rule, "total_with_provider", "not found")
        return
    try:
        paths = _paths(fx, f)
    except H.Budget:
        run.ok(rule, "total_with_provider", "too many paths: not decided", f.loc, nontrivial=False)
        return
    direct = bad = 0
    for dec, res, tr in paths:
        if isinstance(res, H.Panic) or is_err(res):
            continue
        names = [str(c.parts[0]) for c in tr]
        if any(n.endswith("NormalizedTimeDuration::total") for n in names):
            direct += 1
            if not any(n.endswith("NormalizedTimeDuration::add_days") for n in names):
                bad += 1
    run.check(direct > 0 and bad == 0, rule, "Duration::total", "%d direct-total path(s), all fold the days in" % direct,
              "%d of %d success paths total `self.time` alone: the days field of the duration is ignored (P1D totals 0 hours)" %
              (bad, direct), f.loc)


def check_candidates_sorted(run, fx):
    """C13: GetPossibleEpochNanoseconds returns its list in ascending order"""
    rule = "R11.possible-instants-sorted"
    run.rule(rule, "TimeZone::get_possible_epoch_ns_for returns the candidate instants of a named zone in ascending order whatever "
                   "the provider returns: every success path that asks the provider sorts the list (compatible/earlier take the "
                   "first element, later the last)")
    f = fx["temporal_rs"].fn(CORE + "timezone::TimeZone::get_possible_epoch_ns_for")
    if f is None:
        run.anchor_missing(rule, "get_possible_epoch_ns_for", "not found")
        return
    try:
        paths = _paths(fx, f)
    except H.Budget:
        run.ok(rule, "get_possible_epoch_ns_for", "too many paths: not decided", f.loc, nontrivial=False)
        return
    asked = bad = 0
    for dec, res, tr in paths:
        if isinstance(res, H.Panic) or is_err(res):
            continue
        names = [str(c.parts[0]) for c in tr]
        if any(n.endswith("get_named_tz_epoch_nanoseconds") for n in names):
            asked += 1
            if not any(n.endswith(("::sort", "::sort_unstable", "::sort_by", "::sort_by_key", "::sort_unstable_by")) for n in names):
                bad += 1
    run.check(asked > 0 and bad == 0, rule, "named-zone branch", "%d path(s) through the provider, all sorted" % asked,
              "%d of %d success paths return the provider's list unsorted: with the candidates of a repeated wall-clock time in "
              "descending order `compatible` picks the later instant" % (bad, asked), f.loc)


def _reads_time_part(fx, g, pname, depth=0):
    """does function g use the time part of its Duration parameter `pname` (directly, or by passing it on)?"""
    if g is None or g.hir is None or depth > 2:
        return False
    for n in hir_walk(g.hir):
        if not isinstance(n, dict):
            continue
        if n.get("k") == "mcall" and n.get("name") in ("time", "hours", "minutes", "seconds", "milliseconds", "microseconds",
                                                         "nanoseconds", "fields"):
            r = n.get("recv") or {}
            if r.get("k") == "path" and (r.get("res") or {}).get("local") == pname:
                return True
        if n.get("k") == "field" and n.get("name") == "time":
            r = n.get("of") or n.get("e") or {}
            if isinstance(r, dict) and r.get("k") == "path" and (r.get("res") or {}).get("local") == pname:
                return True
    return False


def check_time_part_once(run, fx):
    """C14: AddZonedDateTime adds the date part through the calendar and the time part exactly, once each"""
    rule = "R2.time-part-added-once"
    run.rule(rule, "ZonedDateTime::add_as_instant hands the calendar addition a date-only duration: no callee that itself consumes "
                   "the time part of a duration receives the whole duration when the time part is also added to the instant "
                   "afterwards (24 hours or more of time would be counted as days and as time)")
    rs = fx["temporal_rs"]
    f = rs.fn(CORE + "zoneddatetime::ZonedDateTime::add_as_instant")
    if f is None:
        run.anchor_missing(rule, "add_as_instant", "not found")
        return
    ev = H.Evaluator(fx)
    ev.inline = lambda p: False
    ev.call_fn(f, [H.Sym("param", (p["name"],)) for p in f.params])
    dpar = next((p["name"] for p in f.params if p["ty"].endswith("duration::Duration")), None)
    if dpar is None:
        run.anchor_missing(rule, "duration parameter", "no Duration parameter", f.loc)
        return
    consumers = []
    for c in ev.trace:
        g = rs.fn(str(c.parts[0]))
        for k, a in enumerate(c.parts[1]):
            sa = show(a)
            if sa == "$" + dpar and g is not None and k < len(g.params):
                if _reads_time_part(fx, g, g.params[k]["name"]):
                    consumers.append("%s(whole duration)" % g.name)
            elif sa in ("Duration::time($%s)" % dpar, "$%s.time" % dpar):
                consumers.append("%s(time part)" % str(c.parts[0]).rsplit("::", 1)[-1])
    # one consumer per path is expected; the early-return path and the main path each have one add_to_instant
    whole = [x for x in consumers if "whole duration" in x]
    run.check(not whole and consumers, rule, "add_as_instant", "time part consumers: %s" % sorted(set(consumers)),
              "the whole duration is passed to %s, which consumes its time part, and the time part is also added to the instant "
              "(%s)" % (whole, sorted(set(consumers) - set(whole))), f.loc)


def check_iso_week_calculator(run, fx):
    """C01: ISO weeks: week 1 is the week containing at least 4 days of the year"""
    rule = "R1.iso-week-rule-constants"
    run.rule(rule, "Calendar::week_of_year and Calendar::year_of_week compute ISO 8601 weeks: the week calculator they use has "
                   "min_week_days = 4 (icu_calendar's default is 1: the week containing January 1st)")
    rs = fx["temporal_rs"]
    for nm in ("week_of_year", "year_of_week"):
        f = rs.fn(CORE + "calendar::Calendar::" + nm)
        if f is None:
            run.anchor_missing(rule, nm, "not found")
            continue
        uses_calc = any(isinstance(n, dict) and n.get("k") in ("call", "mcall") and "WeekCalculator" in str(n.get("full") or n.get("fn") or "")
                        for n in hir_walk(f.hir))
        mins = []
        for n in hir_walk(f.hir):
            if isinstance(n, dict) and n.get("k") == "assign":
                lhs = n.get("lhs") or n.get("a") or {}
                rhs = n.get("rhs") or n.get("b") or {}
                if isinstance(lhs, dict) and lhs.get("k") == "field" and lhs.get("name") == "min_week_days":
                    v = rhs.get("v") if isinstance(rhs, dict) else None
                    mins.append(v.get("int") if isinstance(v, dict) else None)
            if isinstance(n, dict) and n.get("k") == "struct" and "WeekCalculator" in str(n.get("path") or n.get("ty") or ""):
                for fld in n.get("fields", []):
                    if fld.get("name") == "min_week_days":
                        v = (fld.get("e") or {}).get("v")
                        mins.append(v.get("int") if isinstance(v, dict) else None)
        if not uses_calc:
            run.ok(rule, nm, "no icu week calculator used: not decided by this rule", f.loc, nontrivial=False)
            continue
        run.check(mins == [4], rule, nm, "min_week_days = 4",
                  "Calendar::%s uses an icu_calendar WeekCalculator with min_week_days = %s (the default is 1); ISO 8601 needs 4: "
                  "2021-01-01 is in week 53 of 2020, not week 1" % (nm, mins or "default"), f.loc)


def _is_round_call(name):
    last = name.rsplit("::", 1)[-1]
    return last in ("round", "round_instant", "round_time", "round_inner") or last.startswith("round_to_")


def check_to_string_prints_rounded(run, fx):
    """C07: fractional-digit precision in toString rounds with the requested mode: what is written is the rounded value"""
    from ..terms import calls
    rule = "R2.to-string-prints-the-rounded-value"
    run.rule(rule, "every to-string function that rounds (calls a rounding kernel with the resolved to-string options) hands the "
                   "IXDTF builder a time that is derived from the rounding result, and a date derived from the same result "
                   "(the day carry of a time that rounds up to 24:00): the writer itself only truncates to the precision")
    rs = fx["temporal_rs"]
    n = 0
    for f in rs.fns:
        if f.hir is None or f.path.endswith(("::with_time", "::with_date")) or "IxdtfStringBuilder" not in str(f.hir):
            continue
        ev = H.Evaluator(fx)
        ev.inline = lambda p: p.startswith("temporal_rs::error::")
        try:
            ev.call_fn(f, [H.Sym("param", (p["name"],)) for p in f.params])
        except (H.Panic, H.Budget):
            continue
        rounds = [c for c in ev.trace if _is_round_call(str(c.parts[0]))]
        times = [c for c in ev.trace if "IxdtfStringBuilder" in str(c.parts[0]) and str(c.parts[0]).endswith("::with_time")]
        dates = [c for c in ev.trace if "IxdtfStringBuilder" in str(c.parts[0]) and str(c.parts[0]).endswith("::with_date")]
        if not rounds or not times:
            continue
        n += 1
        name = f.path.replace(CORE, "")

        def from_round(term):
            return [show(c) for c in calls(term) if _is_round_call(str(c.parts[0]))]
        tsrc = [r for c in times for r in from_round(c.parts[1][1])] if all(len(c.parts[1]) > 1 for c in times) else []
        run.check(bool(tsrc), rule, name + "/time", "the time written derives from %s" % (tsrc[:1] or [""])[0][:80],
                  "%s rounds (%s) but the time it writes, `%s`, does not derive from the rounding result: the text is the "
                  "truncated value whatever the rounding mode" %
                  (f.name, show(rounds[0])[:60], show(times[0].parts[1][1])[:100] if len(times[0].parts[1]) > 1 else "?"), f.loc)
        offs = [c for c in ev.trace if "IxdtfStringBuilder" in str(c.parts[0]) and str(c.parts[0]).rsplit("::", 1)[-1] in
                ("with_minute_offset", "with_offset", "with_z")]
        if offs and tsrc and any(len(c.parts[1]) > 1 for c in offs):
            # the UTC offset that is written belongs to the instant that is written: it derives from the rounding result too
            osrc = [r for c in offs for a in c.parts[1][1:] for r in from_round(a)]
            has_val = any(H.has_sym(a) for c in offs for a in c.parts[1][1:])
            if has_val:
                run.check(bool(set(osrc) & set(tsrc)), rule, name + "/offset", "the offset written is that of the rounded instant",
                          "%s writes a time derived from the rounding result but an offset (`%s`) that does not derive from it: "
                          "rounding across an offset transition prints the old offset with the new wall-clock time" %
                          (f.name, show(offs[0].parts[1][1])[:100]), f.loc)
        if dates and tsrc:
            dsrc = [r for c in dates for r in from_round(c.parts[1][1])] if all(len(c.parts[1]) > 1 for c in dates) else []
            run.check(bool(set(dsrc) & set(tsrc)), rule, name + "/date", "the date written derives from the same rounding result",
                      "%s writes a time derived from the rounding result but the date `%s` does not derive from it: a time that "
                      "rounds up to midnight loses its day carry" % (f.name, show(dates[0].parts[1][1])[:100]), f.loc)
    if n < 4:
        run.anchor_missing(rule, "to-string functions", "only %d rounding to-string functions found (expected >= 4: PlainTime, "
                                                        "PlainDateTime, Instant, ZonedDateTime)" % n)


def check_duration_field_tables(run, fx):
    """C06 / C09: the predicates that classify a duration by its non-zero fields"""
    from .common import fold
    rule = "R1.duration-field-classification"
    run.rule(rule, "folded on the ten durations with exactly one non-zero field (both signs) and on the zero duration: "
                   "Duration::is_time_duration is true exactly when the non-zero field is hours or smaller (a day is a date "
                   "unit: Instant / PlainTime arithmetic must refuse it), Duration::default_largest_unit is the unit of that "
                   "field (nanosecond for zero), Duration::sign is the sign of that field")
    rs = fx["temporal_rs"]
    D = CORE + "duration::"
    F = "temporal_rs::primitive::FiniteF64"
    DF = ["years", "months", "weeks", "days"]
    TF = ["hours", "minutes", "seconds", "milliseconds", "microseconds", "nanoseconds"]
    UNIT = {"years": "Year", "months": "Month", "weeks": "Week", "days": "Day", "hours": "Hour", "minutes": "Minute",
            "seconds": "Second", "milliseconds": "Millisecond", "microseconds": "Microsecond", "nanoseconds": "Nanosecond"}

    def dur(nz, val):
        dd = H.S(D + "date::DateDuration", tuple((n, H.V(F, (val if n == nz else 0.0,))) for n in DF))
        td = H.S(D + "time::TimeDuration", tuple((n, H.V(F, (val if n == nz else 0.0,))) for n in TF))
        return H.S(D + "Duration", (("date", dd), ("time", td)))
    fns = {n: rs.fn1("Duration::" + n) for n in ("is_time_duration", "default_largest_unit", "sign")}
    for name, f in fns.items():
        if f is None:
            run.anchor_missing(rule, name, "Duration::%s not found" % name)
            continue
        for nz in DF + TF + [None]:
            for val in ((1.0, -1.0) if nz else (0.0,)):
                got = fold(H.Evaluator(fx), f, [dur(nz, val)])
                key = "%s/%s%s" % (name, nz or "zero", "" if val >= 0 else "/negative")
                if got[0] != "val":
                    run.ok(rule, key, "does not fold: not decided", f.loc, nontrivial=False)
                    continue
                if name == "is_time_duration":
                    want = nz not in DF
                elif name == "default_largest_unit":
                    want = H.V("temporal_rs::options::Unit::" + (UNIT[nz] if nz else "Nanosecond"), ())
                else:
                    want = H.V("temporal_rs::Sign::" + ("Zero" if not nz else "Positive" if val > 0 else "Negative"), ())
                run.check(got[1] == want, rule, key, "%s = %s" % (name, show(want)),
                          "Duration::%s of a duration whose only non-zero field is %s = %s is %s, expected %s" %
                          (name, nz or "none", val, show(got[1])[:60], show(want)), f.loc)
    run.exhaustive_tables.append("Duration field classification (10 fields x 2 signs + zero)")


def _iso_date(y, m, d):
    return H.S("temporal_rs::iso::IsoDate", (("year", y), ("month", m), ("day", d)))


def check_regulate_boundaries(run, fx):
    """C17 / C02: RegulateISODate - constrain clamps month to 1..12 and day to 1..days-in-month, reject refuses"""
    from .common import fold
    rule = "R1.regulate-iso-date-boundaries"
    run.rule(rule, "IsoDate::regulate, constrain_iso_day and is_valid_iso_day folded at both ends of the month and day ranges "
                   "(0, 1, last, last + 1; February of a common and of a leap year): constrain clamps INTO the range from both "
                   "sides, reject is a RangeError exactly outside it")
    rs = fx["temporal_rs"]
    reg = rs.fn("temporal_rs::iso::IsoDate::regulate")
    cons = rs.fn("temporal_rs::iso::constrain_iso_day")
    valid = rs.fn("temporal_rs::iso::is_valid_iso_day")
    OV = "temporal_rs::options::ArithmeticOverflow::"
    last = {(2021, 2): 28, (2024, 2): 29, (2021, 4): 30, (2021, 12): 31}
    for (y, m), n in last.items():
        for d in (0, 1, n, n + 1, 255):
            want_d = min(max(d, 1), n)
            inside = 1 <= d <= n
            if cons is not None:
                got = fold(H.Evaluator(fx), cons, [y, m, d])
                key = "constrain_iso_day/%d-%02d/%d" % (y, m, d)
                if got[0] == "opaque":
                    run.ok(rule, key, "does not fold: not decided", cons.loc, nontrivial=False)
                else:
                    run.check(got == ("val", want_d), rule, key, "day %d -> %d" % (d, want_d),
                              "constrain_iso_day(%d, %d, %d) = %s, the day clamped into 1..=%d is %d" % (y, m, d, got[1], n, want_d), cons.loc)
            if valid is not None:
                got = fold(H.Evaluator(fx), valid, [y, m, d])
                key = "is_valid_iso_day/%d-%02d/%d" % (y, m, d)
                if got[0] == "opaque":
                    run.ok(rule, key, "does not fold: not decided", valid.loc, nontrivial=False)
                else:
                    run.check(got == ("val", inside), rule, key, "day %d valid: %s" % (d, inside),
                              "is_valid_iso_day(%d, %d, %d) = %s; the month has days 1..=%d" % (y, m, d, got[1], n), valid.loc)
    if reg is None:
        run.anchor_missing(rule, "IsoDate::regulate", "not found")
        return
    for (y, m, d) in ((2021, 0, 15), (2021, 13, 15), (2021, 1, 0), (2021, 2, 29), (2024, 2, 30), (2021, 6, 15), (2021, 12, 32), (2021, 255, 255)):
        lm = min(max(m, 1), 12)
        import calendar as _cal
        n = _cal.monthrange(y, lm)[1]
        for ov in ("Constrain", "Reject"):
            got = fold(H.Evaluator(fx), reg, [y, m, d, H.V(OV + ov, ())])
            key = "regulate/%d-%d-%d/%s" % (y, m, d, ov)
            if got[0] == "opaque":
                run.ok(rule, key, "does not fold: not decided", reg.loc, nontrivial=False)
                continue
            if ov == "Constrain":
                want = ("ok", _iso_date(y, lm, min(max(d, 1), n)))
            else:
                want = ("ok", _iso_date(y, m, d)) if (1 <= m <= 12 and 1 <= d <= _cal.monthrange(y, m)[1]) else ("err", "Range")
            run.check(got == want, rule, key, "-> %s" % (show(want[1])[:50] if want[0] == "ok" else "RangeError"),
                      "IsoDate::regulate(%d, %d, %d, %s) gives %s, expected %s" %
                      (y, m, d, ov, show(got[1])[:60] if got[0] != "err" else got, show(want[1])[:60] if want[0] == "ok" else "a RangeError"),
                      reg.loc)
    run.exhaustive_tables.append("RegulateISODate boundaries (month / day ends x constrain, reject)")


def check_year_month_constructor_limits(run, fx):
    """C18: the year-month constructor accepts every month of the range whatever reference day it is given"""
    from .common import fold
    rule = "R1.year-month-constructor-limits"
    run.rule(rule, "PlainYearMonth::new_with_overflow, folded on the first and last representable month and the months just "
                   "outside, with no reference day, the canonical one and an explicit one: the boundary months are accepted (the "
                   "limit is the year-month limit, not the plain-date limit applied to the hidden reference day), the months "
                   "outside are RangeErrors")
    f = fx["temporal_rs"].fn(CORE + "year_month::PlainYearMonth::new_with_overflow")
    if f is None:
        run.anchor_missing(rule, "PlainYearMonth::new_with_overflow", "not found")
        return
    OV = "temporal_rs::options::ArithmeticOverflow::"
    cal = H.Sym("param", ("calendar",))
    for (y, m), inside in (((-271821, 4), True), ((-271821, 3), False), ((275760, 9), True), ((275760, 10), False), ((1970, 1), True)):
        for ref in (None, 1, 15, 28):
            ev = H.Evaluator(fx)
            ev.stubs["Calendar::is_iso"] = lambda a: True
            args = [y, m, H.V(H.NONE, ()) if ref is None else H.V(H.SOME, (ref,)), cal, H.V(OV + "Reject", ())]
            if len(f.params) != len(args):
                run.ok(rule, "signature", "the constructor's parameters changed: not decided", f.loc, nontrivial=False)
                return
            got = fold(ev, f, args)
            key = "%d-%02d/ref=%s" % (y, m, ref)
            if got[0] == "opaque":
                # the calendar stays symbolic inside the result: look at the outcome kind only
                r = got[1]
                if isinstance(r, H.V) and r.path == H.OK:
                    got = ("ok", None)
                else:
                    run.ok(rule, key, "does not fold: not decided", f.loc, nontrivial=False)
                    continue
            run.check((got[0] == "ok") == inside and (inside or got == ("err", "Range")), rule, key,
                      "%s" % ("accepted" if inside else "RangeError"),
                      "PlainYearMonth::new_with_overflow(%d, %d, reference day %s) gives %s; the month is %s the year-month range" %
                      (y, m, ref, got[0] if got[0] != "err" else "a %sError" % got[1], "inside" if inside else "outside"), f.loc)
    run.exhaustive_tables.append("year-month constructor limits (boundary months x reference day)")


def check_seconds_subseconds(run, fx):
    """C06: NormalizedTimeDurationSeconds / Subseconds split the total consistently"""
    from .common import fold
    rule = "R1.time-duration-seconds-split"
    run.rule(rule, "NormalizedTimeDuration::seconds and ::subseconds, folded on positive and negative totals that are and are not "
                   "whole seconds: seconds x 10^9 + subseconds equals the total and both carry the sign of the total (truncation "
                   "towards zero for both, as AddTime expects)")
    rs = fx["temporal_rs"]
    sec = rs.fn1("NormalizedTimeDuration::seconds")
    sub = rs.fn1("NormalizedTimeDuration::subseconds")
    if sec is None or sub is None:
        run.anchor_missing(rule, "seconds/subseconds", "NormalizedTimeDuration::seconds / subseconds not found")
        return
    N = CORE + "duration::normalized::NormalizedTimeDuration"
    for x in (0, 1, -1, 999_999_999, -999_999_999, 10 ** 9, -10 ** 9, 1_500_000_000, -1_500_000_000, -250_000_000, 2 ** 53 * 10 ** 9 - 1,
              -(2 ** 53 * 10 ** 9 - 1)):
        a, b = fold(H.Evaluator(fx), sec, [H.V(N, (x,))]), fold(H.Evaluator(fx), sub, [H.V(N, (x,))])
        key = "total/%d" % x
        if a[0] != "val" or b[0] != "val" or not isinstance(a[1], int) or not isinstance(b[1], int):
            run.ok(rule, key, "does not fold: not decided", sec.loc, nontrivial=False)
            continue
        s_, n_ = a[1], b[1]
        ok = s_ * 10 ** 9 + n_ == x and (x >= 0 or (s_ <= 0 and n_ <= 0)) and (x <= 0 or (s_ >= 0 and n_ >= 0))
        run.check(ok, rule, key, "%d = %d s + %d ns" % (x, s_, n_),
                  "a total of %d ns is split into %d s and %d ns subseconds: the parts do not add up to the total with its sign" %
                  (x, s_, n_), sub.loc)
    run.exhaustive_tables.append("seconds / subseconds split (sign x whole / fractional seconds)")


def check_from_epoch_nanos(run, fx):
    """C01 / C13: GetISOPartsFromEpoch + offset: floor semantics on negative and sub-minute offsets"""
    from .common import fold
    import datetime
    rule = "R5.iso-parts-from-epoch"
    run.rule(rule, "IsoDateTime::from_epoch_nanos(epoch ns, offset ns), folded on instants before and after the epoch with "
                   "positive, negative, whole-minute and sub-minute offsets, is the proleptic Gregorian date-time of epoch + "
                   "offset (floor division on every component)")
    f = fx["temporal_rs"].fn("temporal_rs::iso::IsoDateTime::from_epoch_nanos")
    if f is None:
        run.anchor_missing(rule, "from_epoch_nanos", "not found")
        return
    E = "temporal_rs::epoch_nanoseconds::EpochNanoseconds"
    base = datetime.datetime(1970, 1, 1)
    for ns, off in ((0, 0), (0, -1), (-1, 0), (0, -17_762_000_000_000), (0, 17_762_000_000_000), (-1_000_000_001, -30_000_000_000),
                    (86_399_999_999_999, 1), (1_700_000_000_123_456_789, -3_600_000_000_000), (-2_208_988_800_000_000_000, -17_762_000_000_000)):
        got = fold(H.Evaluator(fx), f, [H.V(E, (ns,)), off])
        tot = ns + off
        days, rem = divmod(tot, 86_400 * 10 ** 9)
        d = base.date() + datetime.timedelta(days=days)
        h, rem = divmod(rem, 3600 * 10 ** 9)
        mi, rem = divmod(rem, 60 * 10 ** 9)
        s_, rem = divmod(rem, 10 ** 9)
        ms, rem = divmod(rem, 10 ** 6)
        us, nn = divmod(rem, 1000)
        want = H.S("temporal_rs::iso::IsoDateTime", (("date", _iso_date(d.year, d.month, d.day)),
                                                      ("time", H.S("temporal_rs::iso::IsoTime", (("hour", h), ("minute", mi), ("second", s_),
                                                                                                ("millisecond", ms), ("microsecond", us), ("nanosecond", nn))))))
        key = "epoch%+d/offset%+d" % (ns, off)
        if got[0] == "opaque":
            run.ok(rule, key, "does not fold: not decided", f.loc, nontrivial=False)
            continue
        run.check(got == ("ok", want), rule, key, "%s" % show(want)[:70],
                  "from_epoch_nanos(%d, offset %d) = %s, the date-time of epoch + offset is %sT%02d:%02d:%02d.%03d%03d%03d" %
                  (ns, off, show(got[1])[:110] if got[0] != "err" else got, d.isoformat(), h, mi, s_, ms, us, nn), f.loc)
    run.exhaustive_tables.append("GetISOPartsFromEpoch (sign of instant x sign / granularity of offset)")


def check_parse_time_requires_time(run, fx):
    """C12: a time string needs a time: a date-only string is not midnight"""
    from .common import fold, is_ok
    rule = "R11.parse-time-requires-a-time"
    run.rule(rule, "parse_time, folded with parse_ixdtf replaced by its possible outcomes (time goal fails; date-time goal gives a "
                   "record with / without a time part): a record without a time part is a RangeError, never a defaulted "
                   "midnight; a record with one yields that time")
    f = fx["temporal_rs"].fn("temporal_rs::parsers::parse_time")
    if f is None:
        run.anchor_missing(rule, "parse_time", "not found")
        return
    REC = "ixdtf::parsers::records::IxdtfParseRecord"
    tm = H.Sym("param", ("the_time",))

    def rec(time):
        return H.S(REC, (("date", H.V(H.SOME, (H.Sym("param", ("date",)),))), ("time", time), ("offset", H.V(H.NONE, ())),
                         ("tz", H.V(H.NONE, ())), ("calendar", H.V(H.NONE, ()))))
    for name, time_val, want in (("date-only", H.V(H.NONE, ()), "err"), ("date-time", H.V(H.SOME, (tm,)), "ok")):
        ev = H.Evaluator(fx)
        ev.inline = lambda p: p.startswith("temporal_rs::")

        def stub(args, time_val=time_val):
            variant = args[1] if len(args) > 1 else None
            if isinstance(variant, H.V) and variant.path.endswith("ParseVariant::Time"):
                return H.V(H.ERR, (H.S("temporal_rs::error::TemporalError", (("kind", H.V("temporal_rs::error::ErrorKind::Range", ())),
                                                                          ("msg", H.Sym("msg", ())))),))
            return H.V(H.OK, (rec(time_val),))
        ev.stubs["parsers::parse_ixdtf"] = stub
        got = fold(ev, f, ["SRC"])
        if got[0] == "opaque" and isinstance(got[1], H.V) and got[1].path == H.OK:
            got = ("ok", got[1].args[0])
        if got[0] == "opaque":
            run.ok(rule, name, "parse_time does not fold on the stubbed parser outcomes: not decided", f.loc, nontrivial=False)
            continue
        if want == "err":
            run.check(got == ("err", "Range"), rule, name, "a record without a time part -> RangeError",
                      "parse_time accepts a date-only string (the date-time fallback produced a record without a time part) and "
                      "returns %s instead of a RangeError" % (show(got[1])[:80] if got[0] != "err" else got,), f.loc)
        else:
            run.check(got[0] == "ok" and tm in list(walk(got[1])) + [got[1]], rule, name, "a record with a time part -> that time",
                      "parse_time does not return the time part of a date-time string: %s" % (show(got[1])[:80] if got[0] != "err" else got,),
                      f.loc)
