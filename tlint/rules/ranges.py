"""R13 — range post-conditions decided by the interval engine (abstract interpretation of the MIR, no execution).

BalanceTimeDuration: for every largest unit the fields above it are zero, the fields below it lie inside their radix and
the field at it is bounded by the duration limit divided by the unit's length.  A balancing step that is missing, guarded by
the wrong unit or divides by the wrong radix leaves a field with a range wider than its radix."""
from . import intervals as I

MAXN = 2 ** 53 * 10 ** 9 - 1            # maxTimeDuration in nanoseconds
FIELDS = [("days", 86_400 * 10 ** 9, None), ("hours", 3600 * 10 ** 9, 24), ("minutes", 60 * 10 ** 9, 60),
          ("seconds", 10 ** 9, 60), ("milliseconds", 10 ** 6, 1000), ("microseconds", 10 ** 3, 1000), ("nanoseconds", 1, 1000)]
UNITS = ["Day", "Hour", "Minute", "Second", "Millisecond", "Microsecond", "Nanosecond"]


def _mag(v):
    if isinstance(v, I.Rec):
        v = v.f.get(0, v.f.get("0"))
    if isinstance(v, I.Fl):
        return v.mag
    if isinstance(v, I.AV):
        return max(abs(v.lo), abs(v.hi))
    return None


def _balance(x, ui):
    """BalanceTimeDuration in exact integer arithmetic: fields of |x| ns with largest unit index ui, times the sign"""
    sgn = -1 if x < 0 else 1
    cur = abs(x)
    out = [0] * 7
    radices = [1000, 1000, 1000, 60, 60, 24]          # ns -> us -> ms -> s -> min -> h -> d
    for step, fi in enumerate(range(6, -1, -1)):
        if fi == ui:
            out[fi] = cur
            break
        out[fi] = cur % radices[step]
        cur //= radices[step]
    return [sgn * v for v in out]


def check_balance(run, fx):
    from .. import hireval as H
    from .common import fold
    from ..terms import show
    rule = "R13.balanced-field-ranges"
    run.rule(rule, "TimeDuration::from_normalized (BalanceTimeDuration): for each largest unit, fields above it are 0, fields "
                   "below it stay inside their radix (24/60/60/1000/1000/1000) and the field at it carries the rest. Decided "
                   "twice: by interval analysis of the function body (a proof for every input when it succeeds; when the "
                   "analysis is too coarse for the way the function is written nothing is claimed) and by folding the function "
                   "on the carry boundaries of every radix, both signs, for every largest unit (violations come from here)")
    path = I.CORE + "duration::time::TimeDuration::from_normalized"
    eng = I.engine(fx)
    if path not in eng.fns:
        run.anchor_missing(rule, "from_normalized", "TimeDuration::from_normalized not found")
        return
    f = eng.fns[path]
    proved = 0
    for ui, u in enumerate(UNITS):
        norm = I.Rec({"0": I.AV(-MAXN, MAXN, True, "norm"), 0: I.AV(-MAXN, MAXN, True, "norm")})
        r = eng.call_fn(path, [norm, I.Rec({("variant", u): I.Rec({})})], ())
        ok = r.f.get(("variant", "Ok")) if isinstance(r, I.Rec) else None
        tup = ok.f.get(0) if isinstance(ok, I.Rec) else None
        vals = {}
        if isinstance(tup, I.Rec) and isinstance(tup.f.get(1), I.Rec):
            vals = {"days": tup.f.get(0)}
            vals.update({k: v for k, v in tup.f[1].f.items() if isinstance(k, str)})
        for fi, (name, length, radix) in enumerate(FIELDS):
            m = _mag(vals.get(name))
            want = 0 if fi < ui else (MAXN // length if fi == ui else radix - 1)
            key = "interval/%s/%s" % (u, name)
            if m is not None and m <= want:
                proved += 1
                run.ok(rule, key, "|%s| <= %d with largest unit %s, for every input (interval analysis)" % (name, want, u), f.loc)
            else:
                run.ok(rule, key, "the interval analysis bounds |%s| by %s only (needs <= %d): no proof for every input, see the "
                                  "folded cells" % (name, m, want), f.loc, nontrivial=False)
    run.analysed["balance_cells_proved_by_intervals"] = proved
    # value folds on the carry boundaries
    hf = fx["temporal_rs"].fn(path)
    N = "temporal_rs::builtins::core::duration::normalized::NormalizedTimeDuration"
    F = "temporal_rs::primitive::FiniteF64"
    reps = [0, 1, 999, 1000, 1001, 999_999, 10 ** 6, 10 ** 9 - 1, 10 ** 9, 60 * 10 ** 9 - 1, 60 * 10 ** 9, 3600 * 10 ** 9 - 1,
            3600 * 10 ** 9, 86_400 * 10 ** 9 - 1, 86_400 * 10 ** 9, 90_061_001_001_001, 2 ** 53 - 1]
    decided = 0
    for ui, u in enumerate(UNITS):
        bad, und = [], 0
        for a in reps + ([MAXN] if ui <= 3 else []):
            for x in ((a, -a) if a else (0,)):
                got = fold(H.Evaluator(fx), hf, [H.V(N, (x,)), H.V("temporal_rs::options::Unit::" + u, ())])
                if got[0] != "ok" or not isinstance(got[1], H.T) or len(got[1].items) != 2 or not isinstance(got[1].items[1], H.S):
                    und += 1
                    continue
                days, td = got[1].items
                have = [days.args[0] if isinstance(days, H.V) and days.args else days] + \
                       [(v.args[0] if isinstance(v, H.V) and v.args else v) for _, v in td.fields]
                want = [float(v) for v in _balance(x, ui)]
                if not all(isinstance(h, (int, float)) for h in have):
                    und += 1
                    continue
                decided += 1
                if [float(h) for h in have] != want:
                    bad.append("%d ns -> %s, BalanceTimeDuration gives %s" % (x, [float(h) for h in have], want))
        key = "folded/%s" % u
        if und and not bad:
            run.ok(rule, key, "%d representative(s) do not fold: not decided" % und, f.loc, nontrivial=False)
        else:
            run.check(not bad, rule, key, "largest unit %s: every carry boundary balances as specified" % u,
                      "with largest unit %s: %s" % (u, "; ".join(bad[:3])), f.loc)
    run.analysed["balance_cells_folded"] = decided
    run.exhaustive_tables.append("BalanceTimeDuration (7 largest units x carry boundaries of every radix x sign)")
