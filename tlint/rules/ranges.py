"""R13 — range post-conditions decided by the interval engine (abstract interpretation of the MIR, no execution).

BalanceTimeDuration: for every largest unit the fields above it are zero, the fields below it lie inside their radix and
the field at it is bounded by the duration limit divided by the unit's length.  A balancing step that is missing, guarded by
the wrong unit or divides by the wrong radix leaves a field with a range wider than its radix."""
from . import intervals as I

MAXN = 2 ** 53 * 10 ** 9 - 1            # maxTimeDuration in nanoseconds
FIELDS = [("days", 86_400 * 10 ** 9, None), ("hours", 3600 * 10 ** 9, 24), ("minutes", 60 * 10 ** 9, 60),
          ("seconds", 10 ** 9, 60), ("milliseconds", 10 ** 6, 1000), ("microseconds", 10 ** 3, 1000), ("nanoseconds", 1, 1000)]
UNITS = ["Day", "Hour", "Minute", "Second", "Millisecond", "Microsecond", "Nanosecond"]


def _mag(v):
    if isinstance(v, I.Rec):
        v = v.f.get(0, v.f.get("0"))
    if isinstance(v, I.Fl):
        return v.mag
    if isinstance(v, I.AV):
        return max(abs(v.lo), abs(v.hi))
    return None


def check_balance(run, fx):
    rule = "R13.balanced-field-ranges"
    run.rule(rule, "TimeDuration::from_normalized (BalanceTimeDuration): for each largest unit, fields above it are 0, fields "
                   "below it stay inside their radix (24/60/60/1000/1000/1000) and the field at it is at most "
                   "maxTimeDuration / unit length - computed by interval analysis of the function body for every unit")
    path = I.CORE + "duration::time::TimeDuration::from_normalized"
    eng = I.engine(fx)
    if path not in eng.fns:
        run.anchor_missing(rule, "from_normalized", "TimeDuration::from_normalized not found")
        return
    f = eng.fns[path]
    for ui, u in enumerate(UNITS):
        norm = I.Rec({"0": I.AV(-MAXN, MAXN, True, "norm"), 0: I.AV(-MAXN, MAXN, True, "norm")})
        r = eng.call_fn(path, [norm, I.Rec({("variant", u): I.Rec({})})], ())
        ok = r.f.get(("variant", "Ok")) if isinstance(r, I.Rec) else None
        tup = ok.f.get(0) if isinstance(ok, I.Rec) else None
        if not isinstance(tup, I.Rec) or not isinstance(tup.f.get(1), I.Rec):
            run.anchor_missing(rule, "unit/" + u, "no success value could be computed for largest unit %s" % u, f.loc)
            continue
        vals = {"days": tup.f.get(0)}
        vals.update({k: v for k, v in tup.f[1].f.items() if isinstance(k, str)})
        for fi, (name, length, radix) in enumerate(FIELDS):
            m = _mag(vals.get(name))
            key = "%s/%s" % (u, name)
            if fi < ui:
                want, why = 0, "a field above the largest unit is zero"
            elif fi == ui:
                want, why = MAXN // length, "the largest unit carries everything: at most maxTimeDuration / unit length"
            else:
                want, why = radix - 1, "a field below the largest unit is reduced modulo its radix %d" % radix
            run.check(m is not None and m <= want, rule, key, "|%s| <= %d with largest unit %s" % (name, want, u),
                      "with largest unit %s the field %s ranges up to %s; %s (<= %d)" % (u, name, m, why, want), f.loc)
    run.exhaustive_tables.append("BalanceTimeDuration field ranges (7 largest units x 7 fields)")
