"""R9 — unbounded-integer taint with intervals (MIR abstract interpretation).

Every integer value gets an interval and a taint bit ("derives from a value the caller of a public function chose
freely").  Sources: numeric parameters of externally reachable functions, fields of records with public fields that
arrive through such parameters, payloads of FiniteF64, results of TimeZoneProvider methods, fields of TZif records.
Type invariants of the range-checked types (PlainDate.iso.year in -271821..=275760, ...) bound the values read through
them.  Dominating comparisons refine intervals along CFG edges; clamp / rem_euclid / min / max / widening casts are
understood.  Sinks are the overflow / division / shift assertions the compiler emits (mir-opt-level 0): an alarm needs a
tainted operand AND an interval that can leave the type — values of unknown internal provenance are never alarmed.
"""
import re
from collections import defaultdict
from .. import mirq as M

BITS = {"i8": 8, "i16": 16, "i32": 32, "i64": 64, "i128": 128, "isize": 64,
        "u8": 8, "u16": 16, "u32": 32, "u64": 64, "u128": 128, "usize": 64}


def ty_range(ty):
    ty = (ty or "").lstrip("&")
    if ty not in BITS:
        return None
    b = BITS[ty]
    if ty[0] == "i":
        return (-(1 << (b - 1)), (1 << (b - 1)) - 1)
    return (0, (1 << b) - 1)


class AV:
    """abstract integer: closed interval + taint.  `w` marks a value whose range was widened at a loop head: its magnitude
    is an artefact of the analysis, not something the caller chose, so it is never reported (sticky, clears the taint)"""
    __slots__ = ("lo", "hi", "t", "why", "w", "x", "_il", "_ih")

    def __init__(self, lo, hi, t=False, why="", w=False, x=None, il=None, ih=None):
        # x: None = the bounds are an over-approximation; a frozenset of source names = EXACT: both bounds are attained by some
        # choice of the named caller-controlled sources (independent of every other source)
        self.lo, self.hi, self.t, self.why, self.w = lo, hi, (t and not w), why, w
        self.x = None if w else (frozenset() if (x is None and lo == hi) else x)
        # attained watermarks of an inexact value (a must-information beside the may-interval): some input makes the value
        # <= il, some input makes it >= ih; needs no independence of the operands (see arith)
        if w or self.x is not None:
            il = ih = None
        self._il = il if (il is not None and lo <= il <= hi) else None
        self._ih = ih if (ih is not None and lo <= ih <= hi) else None

    @property
    def wm(self):
        """(il, ih): the value is <= il for some input and >= ih for some input (None: not known)"""
        return (self.lo, self.hi) if self.x is not None else (self._il, self._ih)

    def re(self, lo, hi):
        """the same value with a refined / clamped range"""
        return AV(lo, hi, self.t, self.why, self.w, self.x, self._il, self._ih)

    def tr(self, lo, hi, f, decreasing=False):
        """the image of the value under a monotone function f (range given by the caller)"""
        il, ih = self.wm
        a, b = (None if il is None else f(il)), (None if ih is None else f(ih))
        if decreasing:
            a, b = b, a
        return AV(lo, hi, self.t, self.why, self.w, self.x, a, b)

    def __repr__(self):
        return "[%s,%s]%s%s%s%s" % (self.lo, self.hi, "T" if self.t else "", "W" if self.w else "", "x" if self.x is not None else "",
                                    "~(%s,%s)" % (self._il, self._ih) if (self._il is not None or self._ih is not None) else "")

    def key(self):
        return (self.lo, self.hi, self.t, self.w, self.x, self._il, self._ih)


class Fl:
    """abstract float: taint and, when known, bounds lo <= x <= hi (given as a magnitude |x| <= mag or explicitly); `w`, `x`
    as for AV"""
    __slots__ = ("t", "why", "lo", "hi", "w", "x")

    def __init__(self, t=False, why="", mag=None, w=False, x=None, lo=None, hi=None):
        self.t, self.why, self.w = (t and not w), why, w
        if lo is None and hi is None and mag is not None:
            lo, hi = -mag, mag
        self.lo, self.hi = lo, hi
        # exact with no bounds = every finite value is attained (a freely chosen f64)
        self.x = None if w else x

    @property
    def mag(self):
        if self.lo is None or self.hi is None:
            return None
        return max(abs(self.lo), abs(self.hi))

    def key(self):
        return ("f", self.t, self.lo, self.hi, self.w, self.x)


class Rec:
    """record / tuple / enum payload: field name or index -> value"""
    __slots__ = ("f",)

    def __init__(self, f=None):
        self.f = f or {}

    def key(self):
        return tuple(sorted((str(k), v if isinstance(v, str) else vkey(v)) for k, v in self.f.items()))


class Lazy:
    """a value of a record type whose fields are produced on demand.
    mode T: caller-controlled (every scalar reached through it is tainted, full range)
    mode V: valid (the type invariants of FIELD_INVARIANTS hold for every record reached through it; not tainted)
    mode U: unknown internal provenance (full range, not tainted: never alarmed, nothing assumed)"""
    __slots__ = ("ty", "mode", "why")

    def __init__(self, ty, mode, why=""):
        if mode is True:
            mode = "T"
        elif mode is False:
            mode = "U"
        self.ty, self.mode, self.why = ty, mode, why

    @property
    def t(self):
        return self.mode in ("T", "V")

    def key(self):
        return ("lazy", self.ty, self.mode)


def vkey(v):
    return v.key() if v is not None else None


def join(a, b):
    if a is None or b is None:
        return None
    if isinstance(a, AV) and isinstance(b, AV):
        ils = [v for v in (a.wm[0], b.wm[0]) if v is not None]
        ihs = [v for v in (a.wm[1], b.wm[1]) if v is not None]
        return AV(min(a.lo, b.lo), max(a.hi, b.hi), a.t or b.t, a.why if a.t else b.why, a.w or b.w,
                  (a.x | b.x) if (a.x is not None and b.x is not None) else None,
                  min(ils) if ils else None, max(ihs) if ihs else None)
    if isinstance(a, Fl) and isinstance(b, Fl):
        bounded = None not in (a.lo, a.hi, b.lo, b.hi)
        return Fl(a.t or b.t, a.why if a.t else b.why, None, a.w or b.w,
                  (a.x | b.x) if (a.x is not None and b.x is not None) else None,
                  lo=min(a.lo, b.lo) if bounded else None, hi=max(a.hi, b.hi) if bounded else None)
    if isinstance(a, Rec) and isinstance(b, Rec):
        out = {}
        for k in set(a.f) | set(b.f):
            if k == "__closure":
                if a.f.get(k) == b.f.get(k):
                    out[k] = a.f[k]
                continue
            if k in a.f and k in b.f:
                out[k] = join(a.f[k], b.f[k])
            elif isinstance(k, tuple) and k[0] == "variant":
                out[k] = a.f.get(k, b.f.get(k))     # the other side is a different variant
        return Rec(out)
    if isinstance(a, Lazy) and isinstance(b, Lazy) and a.ty == b.ty:
        if a.mode == b.mode:
            return a
        if "T" in (a.mode, b.mode) and "U" not in (a.mode, b.mode):
            return Lazy(a.ty, "T", a.why if a.mode == "T" else b.why)     # valid or chosen by the caller: caller-controlled
        return Lazy(a.ty, "U", "")       # one side of unknown provenance: nothing is claimed about the join
    if isinstance(a, Lazy) and isinstance(b, Rec):
        return _join_lazy_rec(a, b)
    if isinstance(b, Lazy) and isinstance(a, Rec):
        return _join_lazy_rec(b, a)
    return None


def _rec_tainted(r):
    for v in r.f.values():
        if isinstance(v, str):
            continue
        if isinstance(v, Rec):
            if _rec_tainted(v):
                return True
        elif getattr(v, "t", False):
            return True
    return False


def _join_lazy_rec(l, r):
    if l.mode == "T":
        return l
    if _ENG is not None:
        e = _ENG.expand(l)
        if e is not None:
            return join(e, r)
    return Lazy(l.ty, "U", "")           # not expandable: nothing is claimed about the join


# ---- type knowledge of the repository -------------------------------------------------------------------------------

CORE = "temporal_rs::builtins::core::"
ISO_DATE, ISO_TIME, ISO_DT = "temporal_rs::iso::IsoDate", "temporal_rs::iso::IsoTime", "temporal_rs::iso::IsoDateTime"
# invariants established by the validating constructors (C02 R6 shows every producer validates)
FIELD_INVARIANTS = {
    (ISO_DATE, "year"): (-271821, 275760), (ISO_DATE, "month"): (1, 12), (ISO_DATE, "day"): (1, 31),
    (ISO_TIME, "hour"): (0, 23), (ISO_TIME, "minute"): (0, 59), (ISO_TIME, "second"): (0, 59),
    (ISO_TIME, "millisecond"): (0, 999), (ISO_TIME, "microsecond"): (0, 999), (ISO_TIME, "nanosecond"): (0, 999),
    ("temporal_rs::epoch_nanoseconds::EpochNanoseconds", "0"): (-8_640_000_000_000_000_000_000, 8_640_000_000_000_000_000_000),
}
DATE_DUR, TIME_DUR, DUR = CORE + "duration::date::DateDuration", CORE + "duration::time::TimeDuration", CORE + "duration::Duration"
_S = 2 ** 53            # maxTimeDuration in seconds
FLOAT_INVARIANTS = {    # |field| bounds of a valid duration (is_valid_duration): calendar fields < 2^32, time total < 2^53 s
    (DATE_DUR, "years"): 2 ** 32 - 1, (DATE_DUR, "months"): 2 ** 32 - 1, (DATE_DUR, "weeks"): 2 ** 32 - 1, (DATE_DUR, "days"): _S // 86400 + 1,
    (TIME_DUR, "hours"): _S // 3600 + 1, (TIME_DUR, "minutes"): _S // 60 + 1, (TIME_DUR, "seconds"): _S,
    (TIME_DUR, "milliseconds"): _S * 10 ** 3, (TIME_DUR, "microseconds"): _S * 10 ** 6, (TIME_DUR, "nanoseconds"): _S * 10 ** 9,
}
# types whose every producer validates (C02 rule R6 checks exactly this set); values of these types are valid wherever
# they come from, so reading through them yields the invariants above
VALIDATED_OUTER = {CORE + "date::PlainDate", CORE + "datetime::PlainDateTime", CORE + "year_month::PlainYearMonth",
                   CORE + "instant::Instant", CORE + "zoneddatetime::ZonedDateTime",
                   "temporal_rs::epoch_nanoseconds::EpochNanoseconds"}
# records whose fields a caller can set freely (pub fields, Default) — tainted when they arrive through a public parameter
PUBLIC_RECORDS = {ISO_DATE, ISO_TIME, ISO_DT, CORE + "duration::time::TimeDuration", CORE + "duration::date::DateDuration",
                  CORE + "duration::Duration", CORE + "date::PartialDate", CORE + "time::PartialTime",
                  CORE + "datetime::PartialDateTime", CORE + "duration::PartialDuration", "temporal_rs::primitive::FiniteF64"}


# raw ISO records arriving through a public parameter are assumed to satisfy their documented validity (assumption A-ISO
# in DESIGN.md: `IsoDate::new_unchecked` and the public fields are an explicitly unchecked escape hatch)
ASSUMED_VALID_PARAMS = {ISO_DATE, ISO_TIME, ISO_DT, CORE + "time::PlainTime", CORE + "month_day::PlainMonthDay",
                        DUR, DATE_DUR, TIME_DUR}
# validating constructors: their success payload satisfies the invariants (they return Err otherwise)
VALIDATING_FNS = {CORE + "duration::Duration::new": DUR, CORE + "duration::date::DateDuration::new": DATE_DUR,
                  CORE + "duration::time::TimeDuration::new": TIME_DUR,
                  CORE + "duration::Duration::from_partial_duration": DUR, "temporal_rs::iso::IsoTime::new": ISO_TIME,
                  "temporal_rs::iso::IsoDate::new_with_overflow": ISO_DATE, "temporal_rs::iso::IsoDateTime::new": ISO_DT}


# pure single-argument kernels that are monotone (non-decreasing) in their argument: the image of an exact interval is the
# exact interval between the images of its end points, which are obtained by constant folding of the kernel's HIR.
# Reviewed: each is a floor-division / calendar-position function of a time or a year.
MONOTONE = {
    "temporal_rs::utils::epoch_time_to_epoch_year": "the calendar year of an epoch time grows with the time",
    "temporal_rs::utils::epoch_days_for_year": "the day number of January 1st grows with the year",
    "temporal_rs::utils::epoch_time_for_year": "the epoch time of January 1st grows with the year",
    "temporal_rs::utils::epoch_ms_to_epoch_days": "floor division by a positive constant",
    "temporal_rs::utils::epoch_time_to_day_number": "floor division by a positive constant",
}


# private-field types whose public constructors accept any value of the payload type
CALLER_BUILDS = {"temporal_rs::primitive::FiniteF64"}


def base_ty(ty):
    t = (ty or "").strip()
    while t.startswith("&"):
        t = t[1:].lstrip()
        if t.startswith("mut "):
            t = t[4:]
        if t.startswith("'"):
            t = t.split(" ", 1)[1] if " " in t else t
    return re.sub(r"<.*$", "", t)


def is_foreign_data(ty):
    b = base_ty(ty)
    return b.startswith("tzif::") or b.startswith("ixdtf::")


_ENG = None


class Alarm:
    def __init__(self, fn, kind, line, what, sub):
        self.fn, self.kind, self.line, self.what, self.sub = fn, kind, line, what, sub

    @property
    def key(self):
        return "%s/%s" % (self.fn.path, self.sub)


class Engine:
    def __init__(self, fx, crates):
        self.fx = fx
        self.fns = {}
        for c in crates:
            for f in fx[c].fns:
                if f.mir is not None:
                    self.fns[f.path] = f
        self.adts = {}
        for c in fx.crates.values():
            self.adts.update(c.adts)
        self.impls = defaultdict(list)
        for f in self.fns.values():
            tr = f.d.get("impl_trait")
            if tr:
                self.impls[(tr, f.name)].append(f)
        self.params = {}       # fn path -> [Val]
        self.rets = {}         # fn path -> Val
        self.alarms = {}
        self.stats = {"functions": 0, "asserts": 0, "asserts_tainted": 0, "asserts_safe": 0, "unresolved": 0, "rounds": 0}
        self.pending = []

    # ---- values of types -------------------------------------------------------------------------------------------
    def top(self, ty, mode=False, why="", _depth=0):
        """most general value of a type; mode False/'U' unknown, True/'T' caller-controlled, 'V' valid"""
        if mode is True:
            mode = "T"
        elif mode is False:
            mode = "U"
        ty = (ty or "").strip()
        b = ty
        while b.startswith("&"):
            b = b[1:].lstrip()
            if b.startswith("mut "):
                b = b[4:]
            elif b.startswith("'") and " " in b:
                b = b.split(" ", 1)[1]
        r = ty_range(b)
        if r:
            return AV(r[0], r[1], mode in ("T", "V"), why if mode in ("T", "V") else "", False,
                      frozenset([why]) if (mode == "T" and why) else None)
        if b == "bool":
            return AV(0, 1)
        if b in ("f64", "f32"):
            return Fl(mode in ("T", "V"), why if mode in ("T", "V") else "", None, False,
                      frozenset([why]) if (mode == "T" and why) else None)
        bt = base_ty(b)
        if is_foreign_data(b) and mode in ("T", "V"):
            # records delivered by the tzif / ixdtf parsers satisfy their format contracts (assumption of C03): their
            # fields are not treated as freely chosen by the caller
            mode, why = "U", ""
        if mode == "T" and bt not in CALLER_BUILDS:
            ad = self.adts.get(bt)
            if ad is not None and ad.get("kind") == "struct" and ad.get("variants") \
                    and any(not fd.get("pub") for fd in ad["variants"][0]["fields"]):
                # a struct with private fields is built by the library's own constructors only: its contents are not
                # freely chosen by the caller (unknown provenance: never reported, nothing assumed)
                mode, why = "U", ""
        if bt in VALIDATED_OUTER and mode != "V":
            # values of the range-checked types are valid however they arrive (C02 R6: every producer validates)
            return Lazy(b, "V", "")
        m = re.match(r"^(core::result::Result|core::option::Option|core::ops::control_flow::ControlFlow)<(.*)>$", b)
        if m and _depth < 3:
            parts = _split_generics(m.group(2))
            kind = m.group(1).rsplit("::", 1)[-1]
            if kind == "Result":
                return Rec({("variant", "Ok"): Rec({0: self.top(parts[0], mode, why, _depth + 1)}), ("variant", "Err"): Rec({})})
            if kind == "Option":
                return Rec({("variant", "Some"): Rec({0: self.top(parts[0], mode, why, _depth + 1)}), ("variant", "None"): Rec({})})
            return Rec({("variant", "Continue"): Rec({0: self.top(parts[-1], mode, why, _depth + 1)}),
                        ("variant", "Break"): Rec({})})
        if b.startswith("(") and b.endswith(")") and _depth < 3:
            parts = _split_generics(b[1:-1])
            if parts == [""]:
                return Rec({})
            return Rec({i: self.top(x, mode, why, _depth + 1) for i, x in enumerate(parts) if x})
        if "::" in b or b.startswith("["):
            return Lazy(b, mode, why)
        return None

    def expand(self, lz):
        """a Lazy record as an explicit Rec (one level), or None when the type is not a known struct"""
        ad = self.adts.get(base_ty(lz.ty))
        if ad is None or ad.get("kind") != "struct" or not ad.get("variants"):
            return None
        out = {}
        for i, f in enumerate(ad["variants"][0]["fields"]):
            v = self.field_of(lz, f["name"], i, f["ty"], lz.ty)
            out[f["name"]] = v
            out[i] = v
        return Rec(out)

    def field_of(self, val, name, idx, fty, of):
        """read a field of an abstract value"""
        if isinstance(val, Rec):
            if name is not None and name in val.f:
                return val.f[name]
            if idx in val.f:
                return val.f[idx]
            lz = val.f.get("__lazy")
            if lz is not None:
                return self.field_of(lz, name, idx, fty, of)
            return self.top(fty)
        if isinstance(val, Lazy):
            ofb = base_ty(of)
            fname = name if name is not None else str(idx)
            if val.mode == "V":
                inv = FIELD_INVARIANTS.get((ofb, fname))
                if inv:
                    src = "field `%s` of a valid %s" % (fname, ofb.rsplit("::", 1)[-1])
                    return AV(inv[0], inv[1], True, src, False, frozenset([src]))
                finv = FLOAT_INVARIANTS.get((ofb, fname))
                if finv:
                    src = "field `%s` of a valid %s" % (fname, ofb.rsplit("::", 1)[-1])
                    fl = Fl(True, src, finv, False, frozenset([src]))
                    return Rec({"0": fl, 0: fl})
                return self.top(fty, "V", val.why or "a valid %s" % ofb.rsplit("::", 1)[-1])
            if val.mode == "T":
                sub = self.top(fty, "T", val.why)
                if isinstance(sub, (AV, Fl)) and sub.t:
                    sub.why = "%s.%s" % (val.why, fname)
                    if isinstance(sub, (AV, Fl)):
                        sub.x = frozenset([sub.why])
                return sub
            return self.top(fty)
        return self.top(fty)

    # ---- driver (context-sensitive: a callee is analysed per distinct abstract argument tuple) ---------------------------
    MAX_CTX = 400
    keep_args = False
    MAX_DEPTH = 16

    def reset(self):
        self.memo = {}
        self.fold_cache = {}
        self.promoted_cache = {}
        self.ctx_args = {}
        self.ctx = defaultdict(int)
        self.joined = {}
        self.bodies = {}
        self.site = {}          # (fn path, site key) -> 0 safe / 1 unresolved / 2 alarm

    def entry_args(self, f):
        vals = []
        short = f.path.replace("temporal_rs::", "").replace("builtins::core::", "")
        for p in f.params:
            bt = base_ty(p["ty"])
            why = "parameter `%s` of %s" % (p["name"], short)
            if bt in ASSUMED_VALID_PARAMS:
                vals.append(Lazy(bt, "V", ""))
            elif (f.d.get("impl_trait") or "").endswith("provider::TimeZoneProvider") and p["ty"] == "i128":
                # contract of the trait: the library passes the epoch nanoseconds of a valid instant (+- one day of offset)
                lim = 8_640_000_000_000_000_000_000 + 86_400_000_000_000
                src = "the epoch nanoseconds passed to TimeZoneProvider::%s" % f.name
                vals.append(AV(-lim, lim, True, src, False, frozenset([src])))
            else:
                vals.append(self.top(p["ty"], "T", why))
        return vals

    def run(self):
        self.reset()
        for f in sorted(self.fns.values(), key=lambda f: f.path):
            if f.reachable and f.kind in ("Fn", "AssocFn"):
                self.stats["entry_points"] = self.stats.get("entry_points", 0) + 1
                self.call_fn(f.path, self.entry_args(f), ())
        self.stats["contexts"] = len(self.memo)
        self.stats["functions"] = len({k[0] for k in self.memo})

    def call_fn(self, path, args, stack, subst=None):
        f = self.fns[path]
        subst = subst or {}
        key = (path, tuple(vkey(a) for a in args), tuple(sorted(subst.items())))
        if key in self.memo:
            r = self.memo[key]
            if r != "in-progress":
                return r
        if key in self.memo or path in stack or len(stack) >= self.MAX_DEPTH:
            # recursion / depth bound: unknown result, tainted when any argument is
            self.stats["cutoffs"] = self.stats.get("cutoffs", 0) + 1
            return self.top(_subst_ty(f.ret, subst), "U", "")
        if self.ctx[path] >= self.MAX_CTX:
            # too many contexts: analyse the join of all further argument tuples once per growth
            j = self.joined.get(path)
            if j is None:
                nj = list(args)
            else:
                nj = [join(x, y) if (x is not None and y is not None) else None for x, y in zip(j[0], args)]
            if j is not None and [vkey(x) for x in nj] == [vkey(x) for x in j[0]]:
                return j[1]
            self.joined[path] = (nj, self.top(_subst_ty(f.ret, subst), "U", ""))
            ret = FnAnalysis(self, f, nj, stack + (path,), subst).run()
            self.joined[path] = (nj, ret)
            return ret
        self.ctx[path] += 1
        self.memo[key] = "in-progress"
        ret = FnAnalysis(self, f, args, stack + (path,), subst).run()
        self.memo[key] = ret
        if self.keep_args:
            self.ctx_args[key] = (args, stack)
        return ret

    def fold_monotone(self, path, a):
        key = (path, a.lo, a.hi)
        if key not in self.fold_cache:
            from .. import hireval as H
            out = None
            try:
                f = self.fns[path]
                lo = H.Evaluator(self.fx).call_fn(f, [a.lo])
                hi = H.Evaluator(self.fx).call_fn(f, [a.hi])
                if isinstance(lo, int) and isinstance(hi, int) and not isinstance(lo, bool) and lo <= hi:
                    out = (lo, hi)
            except Exception:
                out = None
            self.fold_cache[key] = out
        r = self.fold_cache[key]
        if r is None:
            return None
        self.stats["monotone_folds"] = self.stats.get("monotone_folds", 0) + 1
        return a.re(r[0], r[1])

    def promoted_value(self, f, idx, subst):
        key = (f.path, idx, tuple(sorted(subst.items())))
        if key not in self.promoted_cache:
            self.promoted_cache[key] = None
            pr = f.promoted
            m = None
            for i, x in enumerate(pr):
                if (x.get("idx", i) if isinstance(x, dict) else i) == idx:
                    m = x.get("mir", x) if isinstance(x, dict) else x
            if m is not None and "blocks" in m:
                fa = FnAnalysis(self, f, [], (f.path,), subst, mir=m)
                saved = dict(self.site)
                self.promoted_cache[key] = fa.run(record=False)
        return self.promoted_cache[key]

    def body(self, f):
        b = self.bodies.get(f.path)
        if b is None:
            b = self.bodies[f.path] = M.Body(f)
        return b

    def resolve(self, c, subst=None):
        f = c.fn
        if "ptr" in f:
            return []
        tgt = f.get("resolved") or f.get("path")
        tr = f.get("trait")
        if tr and "resolved" not in f:
            name = f["path"].rsplit("::", 1)[-1]
            cands = self.impls.get((tr, name), [])
            if cands:
                # a trait method on a generic receiver: the substituted self type selects the impl
                st = _subst_ty((f.get("args") or [""])[0], subst or {})
                exact = [g for g in cands if (g.d.get("impl_self") or "") == st]
                if exact:
                    return [g.path for g in exact]
                if _has_generic(st, subst):
                    return [g.path for g in cands]
                if tgt in self.fns:
                    return [tgt]          # the trait's default method body
                return []
        if tgt in self.fns:
            return [tgt]
        return []


PRIMS = set(BITS) | {"bool", "f64", "f32", "char", "str", "Self"}


def _subst_ty(ty, subst):
    if not subst or not ty:
        return ty
    return re.sub(r"(?<![\w:])([A-Za-z_]\w*)(?![\w:])", lambda m: subst.get(m.group(1), m.group(1)), ty)


def _has_generic(ty, subst):
    """does the type still mention an unsubstituted type parameter (a bare capitalised identifier)?"""
    for m in re.finditer(r"(?<![\w:])([A-Z]\w*)(?![\w:])", ty or ""):
        if m.group(1) not in PRIMS:
            return True
    return False


def widen(old, new, ty):
    """after repeated growth go to the type's full range"""
    if isinstance(old, AV) and isinstance(new, AV):
        if new.lo < old.lo or new.hi > old.hi:
            r = ty_range(ty) or (min(old.lo, new.lo), max(old.hi, new.hi))
            return new.re(min(r[0], new.lo), max(r[1], new.hi))
    return new


class FnAnalysis:
    def __init__(self, eng, f, args, stack, subst=None, mir=None):
        self.eng = eng
        self.f = f
        self.args = args
        self.stack = stack
        self.subst = subst or {}
        self.is_promoted = mir is not None
        self.b = eng.body(f) if mir is None else M.Body(f, mir)
        self.blocks = self.b.blocks
        self.nl = len(self.b.locals)

    def lty(self, l):
        t = self.b.locals[l][0]
        return _subst_ty(t, self.subst) if self.subst else t

    def sty(self, t):
        return _subst_ty(t, self.subst) if self.subst else t

    # ---- state helpers ---------------------------------------------------------------------------------------------
    def read_place(self, env, p):
        l = M.place_local(p)
        v = env.get(l)
        ty = self.lty(l)
        for e in M.place_proj(p):
            if e == "*":
                continue
            if isinstance(e, dict) and "f" in e:
                v = self.eng.field_of(v, e.get("n"), e["f"], self.sty(e.get("ty")), self.sty(e.get("of")))
            elif isinstance(e, dict) and "as" in e:
                # downcast: payload record of the variant
                if isinstance(v, Rec):
                    if ("variant", e["as"]) in v.f:
                        v = v.f[("variant", e["as"])]
                    elif "__lazy" in v.f:
                        v = v.f["__lazy"]
                    elif any(isinstance(k, tuple) for k in v.f):
                        v = None            # a variant this value cannot be (infeasible path) or unknown
                # a Lazy stays: its fields are derived from the field types
            elif isinstance(e, dict) and ("idx" in e or "cidx" in e):
                v = None if not isinstance(v, Lazy) else Lazy(v.ty + "[]", v.mode, v.why)
            else:
                v = None
        return v

    def operand(self, env, op):
        if "rp" in op:
            return self.get_path(env, op["rp"][0], op["rp"][1])
        if "k" in op:
            k = op["k"]
            v = k.get("val")
            if isinstance(v, bool):
                return AV(int(v), int(v))
            if isinstance(v, int):
                return AV(v, v)
            if k.get("def") in self.eng.fns and not isinstance(v, (int, bool)) and self.eng.fns[k["def"]].kind.startswith(("Const", "Static")):
                cv = self.eng.call_fn(k["def"], [], self.stack if k["def"] not in self.stack else self.stack)
                if cv is not None and k["def"] not in self.stack:
                    return cv
            if "enum_bits" in k:
                dm = self.discr_map(self.sty(k.get("ty")))
                if dm:
                    for nm, dv in dm.items():
                        if dv == k["enum_bits"]:
                            return Rec({("variant", nm): Rec({})})
            if "promoted" in k and not self.is_promoted:
                pv = self.eng.promoted_value(self.f, k["promoted"], self.subst)
                if pv is not None:
                    return pv
            if isinstance(v, dict) and "f64" in v:
                try:
                    fv = float(v["f64"])
                    return Fl(False, "", None, False, frozenset(), lo=fv, hi=fv)
                except (TypeError, ValueError):
                    return Fl(False)
            return self.eng.top(self.sty(k.get("ty")))
        p = M.op_place(op)
        if p is None:
            return None
        return self.read_place(env, p)

    def place_ty(self, p):
        for e in reversed(M.place_proj(p)):
            if isinstance(e, dict) and "ty" in e:
                return self.sty(e["ty"])
            if e != "*":
                return None
        return self.lty(M.place_local(p))

    def discr_map(self, ty):
        """variant name -> discriminant value of an enum type"""
        t = (ty or "").lstrip("&").strip()
        if t.startswith("core::option::Option<"):
            return {"None": 0, "Some": 1}
        if t.startswith("core::result::Result<"):
            return {"Ok": 0, "Err": 1}
        if t.startswith("core::ops::control_flow::ControlFlow<"):
            return {"Continue": 0, "Break": 1}
        ad = self.eng.adts.get(base_ty(t))
        if ad is None or ad.get("kind") != "enum":
            return None
        out = {}
        for i, v in enumerate(ad["variants"]):
            d = v.get("discr")
            out[v["name"]] = i if d is None else d
        return out

    def op_ty(self, op):
        if "k" in op:
            return self.sty(op["k"].get("ty"))
        p = M.op_place(op)
        l = M.place_local(p)
        pr = M.place_proj(p)
        for e in reversed(pr):
            if isinstance(e, dict) and "ty" in e:
                return self.sty(e["ty"])
        return self.lty(l)

    # ---- places: (root local, field path) --------------------------------------------------------------------------------
    def resolve_place(self, env, place):
        """(root local, path of (name, index) field keys) of a place made of derefs and field projections, following the
        reference / temporary-copy aliases recorded in the environment; None for anything else"""
        l = M.place_local(place)
        root, path = env.get(("alias", l), (l, ()))
        for e in M.place_proj(place):
            if e == "*":
                continue
            if isinstance(e, dict) and "f" in e:
                path = path + ((e.get("n"), e["f"], self.sty(e.get("ty")), self.sty(e.get("of"))),)
            elif isinstance(e, dict) and "as" in e and e["as"] is not None:
                path = path + ((("variant", e["as"]), None, None, None),)
            else:
                return None
        return root, path

    def get_path(self, env, root, path):
        v = env.get(root)
        for name, idx, fty, of in path:
            if isinstance(name, tuple):
                if isinstance(v, Rec):
                    v = v.f.get(name) if name in v.f else (v.f.get("__lazy") if "__lazy" in v.f else None)
                elif not isinstance(v, Lazy):
                    v = None
            else:
                v = self.eng.field_of(v, name, idx, fty, of)
        return v

    def updated(self, val, path, newval):
        (name, idx, fty, of) = path[0]
        if isinstance(val, Lazy):
            e = self.eng.expand(val)
            val = e if e is not None else Rec({"__lazy": val})
        f = dict(val.f) if isinstance(val, Rec) else {}
        cur = f.get(name) if (name is not None and name in f) else f.get(idx)
        if cur is None and "__lazy" in f and len(path) > 1:
            cur = f["__lazy"] if isinstance(name, tuple) else self.eng.field_of(f["__lazy"], name, idx, fty, of)
        new = newval if len(path) == 1 else self.updated(cur, path[1:], newval)
        if name is not None:
            f[name] = new
        if idx is not None:
            f[idx] = new
        return Rec(f)

    def set_path(self, env, root, path, newval):
        if not path:
            env[root] = newval
        else:
            env[root] = self.updated(env.get(root), path, newval)

    def kill_aliases(self, env, root, keep=None):
        for k in [k for k in env if isinstance(k, tuple) and k[0] in ("alias", "abs") and k[1] != keep]:
            v = env[k]
            if (k[0] == "alias" and v[0] == root) or (k[0] == "abs" and v[0] == root):
                del env[k]

    def write(self, env, place, val):
        l = M.place_local(place)
        pr = M.place_proj(place)
        if not pr:
            env[l] = val
            self.kill_aliases(env, l)
            return
        rp = self.resolve_place(env, place)
        if rp is None:
            # a write through an index / downcast projection: the container becomes unknown
            root = env.get(("alias", l), (l, ()))[0]
            env[root] = None
            if root != l:
                env[l] = None
            self.kill_aliases(env, root)
            return
        root, path = rp
        self.set_path(env, root, path, val)
        self.kill_aliases(env, root, keep=l)
        if root != l:
            # the reference's own view
            own = [(e.get("n"), e["f"], self.sty(e.get("ty")), self.sty(e.get("of"))) for e in pr if isinstance(e, dict) and "f" in e]
            env[l] = self.updated(env.get(l), tuple(own), val) if own else val

    # ---- arithmetic --------------------------------------------------------------------------------------------------
    def arith(self, op, a, b, ty):
        if not isinstance(a, AV) or not isinstance(b, AV):
            r = ty_range(ty)
            t = (getattr(a, "t", False) or getattr(b, "t", False))
            why = getattr(a, "why", "") if getattr(a, "t", False) else getattr(b, "why", "")
            return AV(r[0], r[1], t, why) if r else None
        w = a.w or b.w
        r_ = self._arith(op, a, b, ty)
        if r_ is not None and w:
            r_ = AV(r_.lo, r_.hi, False, "", True)
        elif r_ is not None:
            # exactness: monotone operation on independent exact operands attains its interval bounds
            ok = a.x is not None and b.x is not None and a.x.isdisjoint(b.x)
            base = op.replace("WithOverflow", "").replace("Unchecked", "")
            if ok and base in ("Div", "Rem") and not (b.lo == b.hi and b.lo != 0):
                ok = False
            if ok and base == "Rem" and (a.hi - a.lo) < abs(b.lo):
                ok = False
            if ok and base not in ("Add", "Sub", "Mul", "Div", "Rem"):
                ok = False
            r_.x = (a.x | b.x) if ok else (frozenset() if r_.lo == r_.hi else None)
            if r_.x is None:
                il, ih = self._arith_wm(base, a, b)
                if il is not None or ih is not None:
                    r_ = AV(r_.lo, r_.hi, r_.t, r_.why, r_.w, None, il, ih)
        return r_

    @staticmethod
    def _arith_wm(base, a, b):
        """watermarks of a op b.  If some input makes a >= a.ih, then for that input b >= b.lo whatever b depends on, so
        a + b >= a.ih + b.lo: no independence is needed (the other operand is taken at its worst sound bound)."""
        (ail, aih), (bil, bih) = a.wm, b.wm
        lo_c, hi_c = [], []
        if base == "Add":
            if aih is not None: hi_c.append(aih + b.lo)
            if bih is not None: hi_c.append(a.lo + bih)
            if ail is not None: lo_c.append(ail + b.hi)
            if bil is not None: lo_c.append(a.hi + bil)
        elif base == "Sub":
            if aih is not None: hi_c.append(aih - b.hi)
            if bil is not None: hi_c.append(a.lo - bil)
            if ail is not None: lo_c.append(ail - b.lo)
            if bih is not None: lo_c.append(a.hi - bih)
        elif base == "Mul":
            for p, q, (pil, pih) in ((a, b, (ail, aih)), (b, a, (bil, bih))):
                if q.lo == q.hi:
                    c = q.lo
                    if c > 0:
                        if pih is not None: hi_c.append(pih * c)
                        if pil is not None: lo_c.append(pil * c)
                    elif c < 0:
                        if pil is not None: hi_c.append(pil * c)
                        if pih is not None: lo_c.append(pih * c)
                elif q.lo >= 0 and p.lo >= 0:
                    if pih is not None: hi_c.append(pih * q.lo)
                    if pil is not None: lo_c.append(pil * q.hi)
        elif base == "Div" and b.lo == b.hi and b.lo > 0:
            if aih is not None: hi_c.append(_tdiv(aih, b.lo))
            if ail is not None: lo_c.append(_tdiv(ail, b.lo))
        return (min(lo_c) if lo_c else None), (max(hi_c) if hi_c else None)

    def _arith(self, op, a, b, ty):
        t = a.t or b.t
        why = a.why if a.t else b.why
        if op in ("Add", "AddWithOverflow", "AddUnchecked"):
            return AV(a.lo + b.lo, a.hi + b.hi, t, why)
        if op in ("Sub", "SubWithOverflow", "SubUnchecked"):
            return AV(a.lo - b.hi, a.hi - b.lo, t, why)
        if op in ("Mul", "MulWithOverflow", "MulUnchecked"):
            c = [a.lo * b.lo, a.lo * b.hi, a.hi * b.lo, a.hi * b.hi]
            return AV(min(c), max(c), t, why)
        if op in ("Div",):
            if b.lo <= 0 <= b.hi:
                m = max(abs(a.lo), abs(a.hi))
                return AV(-m, m, t, why)
            c = [int(a.lo / b.lo) if b.lo else 0, int(a.lo / b.hi), int(a.hi / b.lo), int(a.hi / b.hi)]
            c = [_tdiv(a.lo, b.lo), _tdiv(a.lo, b.hi), _tdiv(a.hi, b.lo), _tdiv(a.hi, b.hi)]
            return AV(min(c), max(c), t, why)
        if op in ("Rem",):
            m = max(abs(b.lo), abs(b.hi))
            if m == 0:
                return AV(0, 0, t, why)
            lo = -(m - 1) if a.lo < 0 else 0
            hi = (m - 1) if a.hi > 0 else 0
            return AV(max(lo, -max(abs(a.lo), abs(a.hi))), min(hi, max(abs(a.lo), abs(a.hi))), t, why)
        if op in ("BitAnd",):
            if a.lo >= 0 and b.lo >= 0:
                return AV(0, min(a.hi, b.hi), t, why)
        if op in ("BitOr", "BitXor"):
            if a.lo >= 0 and b.lo >= 0:
                hi = (1 << max(a.hi.bit_length(), b.hi.bit_length())) - 1
                return AV(0, hi, t, why)
        if op in ("Shl", "ShlUnchecked"):
            if a.lo >= 0 and 0 <= b.lo and b.hi < 256:
                return AV(a.lo << b.lo, a.hi << b.hi, t, why)
        if op in ("Shr", "ShrUnchecked"):
            if a.lo >= 0 and 0 <= b.lo and b.hi < 256:
                return AV(a.lo >> b.hi, a.hi >> b.lo, t, why)
        r = ty_range(ty)
        return AV(r[0], r[1], t, why) if r else None

    def clamp_ty(self, v, ty):
        r = ty_range(ty)
        if isinstance(v, AV) and r:
            if v.lo < r[0] or v.hi > r[1]:
                return AV(max(v.lo, r[0]) if v.lo <= r[1] else r[0], min(v.hi, r[1]) if v.hi >= r[0] else r[1], v.t, v.why, v.w, None)
        return v

    # ---- main loop -------------------------------------------------------------------------------------------------------
    def run(self, record=True):
        eng = self.eng
        f = self.f
        init = {}
        pv = self.args
        for i in range(self.b.argc):
            v = pv[i] if i < len(pv) else None
            if v is None:
                v = eng.top(self.lty(i + 1))
            init[i + 1] = v
        self.envs = {0: init}
        self.preds = {}        # bool local -> predicate, per block (tracked in env under key ('p', l))
        order = self.rpo()
        visits = defaultdict(int)
        work = [0]
        rets = []
        self.site_results = {}
        while work:
            bb = work.pop(0)
            visits[bb] += 1
            if visits[bb] > 12:
                continue
            env = dict(self.envs[bb])
            outs = self.block(bb, env, rets)
            for tgt, e2 in outs:
                if e2 is None:
                    continue
                old = self.envs.get(tgt)
                if old is None:
                    self.envs[tgt] = e2
                    work.append(tgt)
                else:
                    merged, changed = self.merge(old, e2, visits[tgt] > 3)
                    if changed:
                        self.envs[tgt] = merged
                        if tgt not in work:
                            work.append(tgt)
        # alarms from the final (stable) site results
        for key, (status, a) in (self.site_results.items() if record else ()):
            k = (f.path, key)
            eng.site[k] = max(eng.site.get(k, 0), status)
            if a is not None:
                old = eng.alarms.get(k)
                if old is None or len(old[4]) > len(self.stack):
                    eng.alarms[k] = a + (self.stack,)
        ret = None
        for r in rets:
            ret = r if ret is None else join(ret, r)
        return ret

    def rpo(self):
        return list(range(len(self.blocks)))

    def merge(self, old, new, do_widen):
        out = {}
        changed = False
        for k in set(old) | set(new):
            if k in old and k in new:
                a, b = old[k], new[k]
                if isinstance(k, tuple):      # predicates / aliases: keep only if identical
                    if a == b:
                        out[k] = a
                    else:
                        changed = changed or (k in old)
                    continue
                j = join(a, b)
                if do_widen and isinstance(j, AV) and isinstance(a, AV) and (j.lo < a.lo or j.hi > a.hi):
                    r = ty_range(self.lty(k)) if isinstance(k, int) else None
                    if r:
                        j = AV(min(r[0], j.lo), max(r[1], j.hi), False, "", True)
                if vkey(j) != vkey(a):
                    changed = True
                out[k] = j
            else:
                # defined on one path only: unknown - except a predicate whose local is a boolean constant on the other
                # path (the join of `a && b` / `a || b` compiled to branches): kept as a guarded predicate
                if isinstance(k, tuple) and k[0] == "p" and isinstance(k[1], int):
                    have, other = (old, new) if k in old else (new, old)
                    cv = other.get(k[1])
                    pr = have[k]
                    if isinstance(cv, AV) and cv.lo == cv.hi and cv.lo in (0, 1) and pr[0] in ("cmp", "contains", "fcontains", "not"):
                        # everything known on that path holds when the outcome shows the path was taken
                        snap = {l: v for l, v in have.items() if isinstance(l, int) or (isinstance(l, tuple) and l[0] in ("alias", "abs"))}
                        g = ("guard", pr, snap, cv.lo)
                        out[k] = g
                        if k not in old:
                            changed = True
                        continue
                if k in old:
                    changed = True
        return out, changed

    # ---- block transfer ----------------------------------------------------------------------------------------------
    def block(self, bb, env, rets):
        blk = self.blocks[bb]
        if blk["cleanup"]:
            return []
        self.cur_bb = bb
        self.cast_no = 0
        for st in blk["s"]:
            if st[0] != "=":
                continue
            self.assign(env, st[1], st[2])
        t = blk["t"]
        k = t["k"]
        if k == "goto":
            return [(t["t"], env)]
        if k == "return":
            rets.append(env.get(0))
            return []
        if k == "drop":
            return [(t["t"], env)]
        if k == "assert":
            self.check_assert(bb, env, t)
            return [(t["t"], self.after_assert(env, t))]
        if k == "switch":
            return self.switch(env, t)
        if k == "call":
            return self.call(bb, env, t)
        return []

    def assign(self, env, place, rv):
        kind = rv[0]
        l = M.place_local(place)
        val = None
        self._pending_alias = None
        self._pending_pred = None
        self._pending_discr = None
        if kind == "use":
            op = rv[1]
            val = self.operand(env, op)
            p = M.op_place(op)
            self._pending_alias = None
            if p is not None and not M.place_proj(place):
                rp = self.resolve_place(env, p)
                # a compiler temporary holding a copy of a scalar / a moved reference stands for the place it was read from
                if rp is not None and self.b.locals[l][1] is None and (isinstance(val, (AV, Fl)) or self.lty(l).startswith("&")):
                    self._pending_alias = rp
                if not M.place_proj(p) and ("p", p) in env:
                    self._pending_pred = env[("p", p)]
        elif kind == "ref":
            p = rv[2]
            val = self.read_place(env, p)
            self._pending_alias = self.resolve_place(env, p) if not M.place_proj(place) else None
        elif kind == "cast":
            ck, op, fty, tty = rv[1], rv[2], self.sty(rv[3]), self.sty(rv[4])
            v = self.operand(env, op)
            self.note_narrowing(ck, v, fty, tty)
            if ck == "IntToInt":
                r = ty_range(tty)
                if isinstance(v, AV) and r and v.lo >= r[0] and v.hi <= r[1]:
                    val = v.re(v.lo, v.hi)
                    p = M.op_place(op)
                    if p is not None and not M.place_proj(place) and self.b.locals[l][1] is None:
                        self._pending_alias = self.resolve_place(env, p)
                elif r:
                    t = getattr(v, "t", False)
                    cover = isinstance(v, AV) and v.lo <= r[0] and v.hi >= r[1]
                    val = AV(r[0], r[1], t, getattr(v, "why", ""), getattr(v, "w", False), v.x if cover else None)
            elif ck == "FloatToInt":
                r = ty_range(tty)
                if r:
                    m = getattr(v, "mag", None)
                    if m is not None:
                        flo, fhi = (int(v.lo) if v.lo == int(v.lo) else int(v.lo) - (v.lo < 0)), (int(v.hi) if v.hi == int(v.hi) else int(v.hi) + (v.hi > 0))
                        val = AV(min(max(r[0], flo), r[1]), max(min(r[1], fhi), r[0]), getattr(v, "t", False), getattr(v, "why", ""),
                                 getattr(v, "w", False), getattr(v, "x", None))
                    else:
                        val = AV(r[0], r[1], getattr(v, "t", False), getattr(v, "why", ""), getattr(v, "w", False),
                                 getattr(v, "x", None))
            elif ck == "IntToFloat":
                if isinstance(v, AV):
                    val = Fl(v.t, v.why, None, v.w, v.x, lo=v.lo, hi=v.hi)
                else:
                    val = Fl(getattr(v, "t", False), getattr(v, "why", ""))
            elif ck == "FloatToFloat":
                val = v if isinstance(v, Fl) else Fl(getattr(v, "t", False), getattr(v, "why", ""))
            else:
                val = v if ck.startswith("PointerCoercion") or ck in ("PtrToPtr", "Transmute") else None
                if ck.startswith("PointerCoercion"):
                    # &[T; N] -> &[T]: the slice's length is the array's (read back by `len`)
                    ma = re.match(r"^&(?:mut )?\[.*;\s*(\d+)\]$", fty or "")
                    if ma and re.match(r"^&(?:mut )?\[.*\]$", tty or "") and not re.search(r";\s*\d+\]$", tty or ""):
                        n_ = int(ma.group(1))
                        f_ = dict(val.f) if isinstance(val, Rec) else {}
                        f_["__slicelen"] = AV(n_, n_)
                        val = Rec(f_)
        elif kind == "bin":
            op, a, b, ty = rv[1], self.operand(env, rv[2]), self.operand(env, rv[3]), self.sty(rv[4])
            if op in ("Eq", "Ne", "Lt", "Le", "Gt", "Ge"):
                val = AV(0, 1)
                env[("p", l)] = ("cmp", op, rv[2], rv[3])
            elif op.endswith("WithOverflow"):
                raw = self.arith(op, a, b, ty)
                val = Rec({0: raw, 1: AV(0, 1)})
            else:
                if isinstance(a, Fl) or isinstance(b, Fl) or ty in ("f64", "f32"):
                    fa = a if isinstance(a, Fl) else (Fl(a.t, a.why, None, a.w, a.x, lo=a.lo, hi=a.hi) if isinstance(a, AV) else Fl())
                    fb = b if isinstance(b, Fl) else (Fl(b.t, b.why, None, b.w, b.x, lo=b.lo, hi=b.hi) if isinstance(b, AV) else Fl())
                    lo = hi = None
                    if None not in (fa.lo, fa.hi, fb.lo, fb.hi):
                        if op == "Add":
                            lo, hi = fa.lo + fb.lo, fa.hi + fb.hi
                        elif op == "Sub":
                            lo, hi = fa.lo - fb.hi, fa.hi - fb.lo
                        elif op == "Mul":
                            c = [fa.lo * fb.lo, fa.lo * fb.hi, fa.hi * fb.lo, fa.hi * fb.hi]
                            lo, hi = min(c), max(c)
                        elif op == "Div" and fb.lo == fb.hi and fb.lo != 0:
                            c = [fa.lo / fb.lo, fa.hi / fb.lo]
                            lo, hi = min(c), max(c)
                    if op == "Rem" and fb.mag is not None:
                        lo, hi = -fb.mag, fb.mag
                    val = Fl(fa.t or fb.t, fa.why if fa.t else fb.why, None, fa.w or fb.w,
                             (fa.x | fb.x) if (op in ("Add", "Sub", "Mul", "Div") and fa.x is not None and fb.x is not None
                                               and fa.x.isdisjoint(fb.x)) else None, lo=lo, hi=hi)
                else:
                    val = self.clamp_ty(self.arith(op, a, b, ty), ty)
        elif kind == "un":
            op, a, ty = rv[1], self.operand(env, rv[2]), self.sty(rv[3])
            if op == "Neg" and isinstance(a, AV):
                val = self.clamp_ty(a.tr(-a.hi, -a.lo, lambda v: -v, True), ty)
            elif op == "Neg" and isinstance(a, Fl):
                val = Fl(a.t, a.why, None, a.w, a.x, lo=None if a.hi is None else -a.hi, hi=None if a.lo is None else -a.lo)
            elif op == "Not":
                p = M.op_place(rv[2])
                if p is not None and ("p", M.place_local(p)) in env:
                    env[("p", l)] = ("not", env[("p", M.place_local(p))])
                val = AV(0, 1) if (ty == "bool") else self.eng.top(ty, getattr(a, "t", False), getattr(a, "why", ""))
            else:
                val = self.eng.top(ty)
        elif kind == "discr":
            val = AV(0, 64)
            ev = self.read_place(env, rv[1])
            dm = self.discr_map(self.place_ty(rv[1]))
            if dm:
                # whatever the variant, the discriminant is one of the declared ones (an `Enum as usize` table index)
                val = AV(min(dm.values()), max(dm.values()))
            if isinstance(ev, Rec) and dm and any(isinstance(k, tuple) for k in ev.f):
                poss = {dm[k[1]]: k[1] for k in ev.f if isinstance(k, tuple) and k[1] in dm}
                rp = self.resolve_place(env, rv[1])
                if poss and len(poss) == sum(1 for k in ev.f if isinstance(k, tuple)):
                    val = AV(min(poss), max(poss))
                    if rp is not None and not M.place_proj(place):
                        self._pending_discr = (rp, poss)
        elif kind == "agg":
            akind, ops = rv[1], rv[2]
            vals = [self.operand(env, o) for o in ops]
            if "tuple" in akind or "array" in akind:
                val = Rec({i: v for i, v in enumerate(vals)})
            elif "adt" in akind:
                names = akind.get("fields") or []
                rec = {}
                for i, v in enumerate(vals):
                    rec[names[i] if i < len(names) else i] = v
                    rec[i] = v
                val = Rec(rec)
                ad = self.eng.adts.get(akind["adt"])
                if akind["adt"] in VALIDATED_OUTER:
                    val = Lazy(akind["adt"], "V", "")
                elif akind["adt"].startswith("core::") and akind["adt"].rsplit("::", 1)[-1] in ("Result", "Option", "ControlFlow") \
                        or (ad is not None and ad.get("kind") == "enum"):
                    val = Rec({("variant", akind["variant"]): val})
            elif "closure" in akind:
                rec = {i: v for i, v in enumerate(vals)}
                rec["__closure"] = akind["closure"]
                val = Rec(rec)
            else:
                val = None
        else:
            val = None
        if val is None and kind not in ("use", "ref", "agg"):
            val = self.eng.top(self.lty(l)) if not M.place_proj(place) else None
        pend_p = {k: env[k] for k in (("p", l),) if k in env} if kind in ("bin", "un") else {}
        if not M.place_proj(place):
            env.pop(("alias", l), None)
            env.pop(("abs", l), None)
            if kind not in ("bin", "un"):
                env.pop(("p", l), None)
        self.write(env, place, val)
        env.update(pend_p)
        if self._pending_alias is not None and self._pending_alias[0] != l:
            env[("alias", l)] = self._pending_alias
        if self._pending_pred is not None:
            env[("p", l)] = self._pending_pred
        if not M.place_proj(place):
            env.pop(("discr", l), None)
            env.pop(("vp", l), None)
            if self._pending_discr is not None and self._pending_discr[0][0] != l:
                env[("discr", l)] = self._pending_discr

    def note_narrowing(self, ck, v, fty, tty):
        """a numeric cast that cannot represent every value of its caller-controlled, exactly known operand loses
        information silently (float -> int saturates, int -> int wraps)"""
        r = ty_range(tty)
        if r is None or ck not in ("FloatToInt", "IntToInt"):
            return
        self.cast_no = getattr(self, "cast_no", 0) + 1
        skey = ("narrowing", getattr(self, "cur_bb", 0) * 100 + self.cast_no)
        if isinstance(v, AV):
            lo, hi = v.lo, v.hi
        elif isinstance(v, Fl) and v.mag is not None:
            lo, hi = v.lo, v.hi
        elif isinstance(v, Fl):
            # a float nothing is known about yet: the saturating cast is monotone, and the code that validates the
            # value (is_valid_duration) legitimately starts with it; not decided here
            self.site_results[skey] = (1, None)
            return
        else:
            return
        wl, wh = v.wm if isinstance(v, AV) else ((lo, hi) if getattr(v, "x", None) is not None else (None, None))
        if lo >= r[0] and hi <= r[1]:
            self.site_results[skey] = (0, None)
        elif getattr(v, "t", False) and ((wh is not None and wh > r[1]) or (wl is not None and wl < r[0])):
            what = "saturates" if ck == "FloatToInt" else "wraps"
            self.site_results[skey] = (2, ("narrowing", "a caller-controlled %s value in %s is cast to %s, which %s outside [%s, %s]: the "
                                          "result silently differs from the exact value; caller-controlled through %s" %
                                          (fty, _fmt(AV(lo, hi)), tty, what, r[0], r[1], getattr(v, "why", "")),
                                          None, "narrowing"))
        else:
            self.site_results[skey] = (1, None)

    def root(self, env, l):
        """resolved place of a local (for predicates): (root, path)"""
        if not isinstance(l, int):
            return self.resolve_place(env, l)
        return env.get(("alias", l), (l, ()))

    # ---- assertions --------------------------------------------------------------------------------------------------
    def check_assert(self, bb, env, t):
        """status of one compiler-emitted arithmetic / bounds assertion in this context: 0 proved, 1 unresolved (operands of
        unknown internal provenance: nothing claimed), 2 alarm (caller-controlled operand can make it fail)"""
        msg = t["msg"]
        line = M.line_of(t.get("line"))
        key = None
        status, text = 1, None

        def verdict(safe, tainted, txt):
            return (0, None) if safe else ((2, txt) if tainted else (1, None))

        if msg.startswith("Overflow:") and msg.split(":")[1] in ("Add", "Sub", "Mul"):
            op = msg.split(":")[1]
            a, b = (self.operand(env, o) for o in t["ops"])
            ty = self.op_ty(t["ops"][0])
            r = ty_range(ty)
            res = self.arith(op, a, b, ty)
            key = "overflow:%s" % op
            if isinstance(res, AV) and r:
                src = a if (isinstance(a, AV) and a.t) else b
                # blame: the overflow must be reachable by the caller-controlled operand(s) alone, with every operand of
                # unknown internal provenance at its most benign (smallest-magnitude) value
                blamed = False
                if res.t and isinstance(a, AV) and isinstance(b, AV):
                    # an operand of unknown provenance may be anything in its range: the report needs the overflow to be
                    # reachable for EVERY value it might have (tried at both ends and at its smallest magnitude)
                    blamed = True
                    for ca in ([a] if a.t else _points(a)):
                        for cb in ([b] if b.t else _points(b)):
                            rb = self.arith(op, ca, cb, ty)
                            if not (isinstance(rb, AV) and (rb.lo < r[0] or rb.hi > r[1])):
                                blamed = False
                    # ... and their bounds must be attained: exact operands from independent sources
                    ex = all(v.x is not None for v in (a, b) if v.t)
                    if a.t and b.t and ex and not a.x.isdisjoint(b.x):
                        ex = False
                    if blamed and not ex:
                        blamed = False
                        self.eng.stats["inexact_possible"] = self.eng.stats.get("inexact_possible", 0) + 1
                    # ... or the result's attained watermark is itself outside the type (independence-free)
                    # (an untainted operand with a range - e.g. constants joined over branches - may be correlated with the
                    # tainted one through control flow: it contributes its sound bounds only, no attained marks)
                    da = a if (a.t or a.lo == a.hi) else AV(a.lo, a.hi)
                    db = b if (b.t or b.lo == b.hi) else AV(b.lo, b.hi)
                    rw = self.arith(op, da, db, ty)
                    wl, wh = rw.wm if isinstance(rw, AV) else (None, None)
                    if not blamed and ((wh is not None and wh > r[1]) or (wl is not None and wl < r[0])):
                        blamed = True
                        self.eng.stats["watermark_blames"] = self.eng.stats.get("watermark_blames", 0) + 1
                status, text = verdict(res.lo >= r[0] and res.hi <= r[1], blamed,
                                       "`%s` on %s can overflow: operands range over %s and %s; caller-controlled through %s" %
                                       ({"Add": "+", "Sub": "-", "Mul": "*"}[op], ty, _fmt(a), _fmt(b),
                                        getattr(src, "why", "") or "an external value"))
        elif msg.startswith("OverflowNeg"):
            a = self.operand(env, t["ops"][0])
            ty = self.op_ty(t["ops"][0])
            r = ty_range(ty)
            key = "overflow:Neg"
            if isinstance(a, AV) and r:
                status, text = verdict(a.lo > r[0], a.t, "negation of %s can overflow (operand may be %s::MIN); "
                                       "caller-controlled through %s" % (ty, ty, a.why or "an external value"))
        elif msg.startswith("DivisionByZero") or msg.startswith("RemainderByZero"):
            # the assert's operand is the dividend; the divisor is in the comparison that feeds the condition
            d = None
            cp = M.op_place(t["cond"])
            pr = env.get(("p", M.place_local(cp))) if cp is not None and not M.place_proj(cp) else None
            if pr and pr[0] == "cmp" and pr[1] == "Eq":
                d = self.operand(env, pr[2])
            key = "zero-divisor"
            if isinstance(d, AV):
                status, text = verdict(d.lo > 0 or d.hi < 0, d.t, "divisor ranges over %s and may be zero; caller-controlled "
                                       "through %s" % (_fmt(d), d.why or "an external value"))
        elif msg.startswith("Overflow:Shl") or msg.startswith("Overflow:Shr"):
            a, b = (self.operand(env, o) for o in t["ops"])
            ty = self.op_ty(t["ops"][0])
            key = "shift"
            bits = BITS.get((ty or "").lstrip("&"), 128)
            if isinstance(b, AV):
                status, text = verdict(0 <= b.lo and b.hi < bits, b.t, "shift amount %s can reach the %d bits of %s; "
                                       "caller-controlled through %s" % (_fmt(b), bits, ty, b.why or "an external value"))
        elif msg.startswith("Overflow:Div") or msg.startswith("Overflow:Rem"):
            a, b = (self.operand(env, o) for o in t["ops"])
            ty = self.op_ty(t["ops"][0])
            r = ty_range(ty)
            key = "overflow:Div"
            if isinstance(a, AV) and isinstance(b, AV) and r:
                status, text = verdict(a.lo > r[0] or b.lo > -1 or b.hi < -1, a.t and b.t,
                                       "%s::MIN / -1 is possible; caller-controlled through %s" % (ty, a.why))
        elif msg.startswith("BoundsCheck"):
            ln, ix = (self.operand(env, o) for o in t["ops"])
            key = "bounds"
            if isinstance(ln, AV) and isinstance(ix, AV):
                status, text = verdict(ix.hi < ln.lo, ix.t, "index %s may reach the length %s; caller-controlled through %s" %
                                       (_fmt(ix), _fmt(ln), ix.why))
        if key is None:
            return
        skey = (key, bb)
        old = self.site_results.get(skey)
        # the last visit of a block sees the stable state
        self.site_results[skey] = (status, (key, text, line, key) if status == 2 else None)

    def after_assert(self, env, t):
        msg = t["msg"]
        # after a passed overflow check the tuple's value is within the type
        c = t["cond"]
        p = M.op_place(c)
        if p is not None and M.place_proj(p):
            l = M.place_local(p)
            v = env.get(l)
            if isinstance(v, Rec) and isinstance(v.f.get(0), AV):
                ty = None
                lt = self.lty(l)
                m = re.match(r"^\((\w+), bool\)$", lt)
                if m:
                    ty = m.group(1)
                env = dict(env)
                env[l] = Rec({0: self.clamp_ty(v.f[0], ty), 1: AV(0, 0)})
        if msg.startswith("DivisionByZero") or msg.startswith("RemainderByZero"):
            pass
        return env

    # ---- switch with refinement -------------------------------------------------------------------------------------------
    def switch(self, env, t):
        on = t["on"]
        p = M.op_place(on)
        outs = []
        pred = None
        dl = None
        if p is not None and not M.place_proj(p):
            dl = M.place_local(p)
            pred = env.get(("p", dl))
        arms = t["arms"]
        ln = t.get("line")
        if isinstance(ln, list) and any("debug_assert" in str(m) for m in ln[1:]):
            pred = None        # debug assertions vanish in release builds: they bound nothing
        cur = self.operand(env, on)
        if isinstance(cur, AV) and cur.lo == cur.hi and t.get("ty") == "bool":
            pred = None        # the condition is already decided: only the matching branch is feasible (integer switch below)
        if pred is not None and t.get("ty") == "bool":
            # switchInt(bool): arms [[0, bbFalse]] else bbTrue
            for val, tgt in arms:
                e2 = self.refine(dict(env), pred, bool(val))
                outs.append((tgt, e2))
            taken = {v for v, _ in arms}
            other = [v for v in (0, 1) if v not in taken]
            e2 = self.refine(dict(env), pred, bool(other[0])) if len(other) == 1 else dict(env)
            outs.append((t["else"], e2))
            return outs
        # switch on the discriminant of a value whose possible variants are known
        dinfo = env.get(("discr", dl)) if dl is not None else None
        if dinfo is not None:
            rp, poss = dinfo
            cur = self.get_path(env, rp[0], rp[1])
            taken = set()
            for val, tgt in arms:
                taken.add(val)
                if val not in poss or not isinstance(cur, Rec):
                    outs.append((tgt, None) if val not in poss else (tgt, dict(env)))
                    continue
                e2 = dict(env)
                k = ("variant", poss[val])
                self.set_path(e2, rp[0], rp[1], Rec({k: cur.f[k]}))
                vp_ = env.get(("vp", rp[0])) if not rp[1] else None
                if vp_ and poss[val] in vp_:
                    e2 = self.refine(e2, vp_[poss[val]][0], vp_[poss[val]][1])
                outs.append((tgt, e2))
            rest = {v: n for v, n in poss.items() if v not in taken}
            if not rest:
                outs.append((t["else"], None))
            else:
                e2 = dict(env)
                if isinstance(cur, Rec):
                    self.set_path(e2, rp[0], rp[1], Rec({("variant", n): cur.f[("variant", n)] for n in rest.values()}))
                vp_ = env.get(("vp", rp[0])) if not rp[1] else None
                if vp_ and len(rest) == 1 and next(iter(rest.values())) in vp_:
                    nm_ = next(iter(rest.values()))
                    e2 = self.refine(e2, vp_[nm_][0], vp_[nm_][1])
                outs.append((t["else"], e2))
            return outs
        # integer switch on a variable: refine equality
        dv = self.operand(env, on)
        for val, tgt in arms:
            e2 = dict(env)
            if isinstance(dv, AV) and dl is not None:
                if val < dv.lo or val > dv.hi:
                    outs.append((tgt, None))
                    continue
                self.apply_refinement(e2, on, dv.re(val, val))
            outs.append((tgt, e2))
        # the otherwise branch is taken only by values no arm lists
        if isinstance(dv, AV) and dv.hi - dv.lo < 64 and all(v in {a[0] for a in arms} for v in range(dv.lo, dv.hi + 1)):
            outs.append((t["else"], None))
        else:
            outs.append((t["else"], dict(env)))
        return outs

    def set_place_any(self, env, rp, val):
        root, path = rp
        self.set_path(env, root, path, val)
        for k in [k for k in env if isinstance(k, tuple) and k[0] == "alias"]:
            if env[k] == rp:
                env[k[1]] = val

    def set_place(self, env, rp, av):
        """narrow the value stored at a resolved place and every temporary standing for it"""
        root, path = rp
        self.set_path(env, root, path, av)
        for k in [k for k in env if isinstance(k, tuple) and k[0] == "alias"]:
            if env[k] == rp and isinstance(env.get(k[1]), (AV, type(None))):
                env[k[1]] = av

    def refine(self, env, pred, truth):
        kind = pred[0]
        if kind == "not":
            return self.refine(env, pred[1], not truth)
        if kind == "cmp":
            op, lo_, ro_ = pred[1], pred[2], pred[3]
            if not truth:
                op = {"Eq": "Ne", "Ne": "Eq", "Lt": "Ge", "Le": "Gt", "Gt": "Le", "Ge": "Lt"}[op]
            a, b = self.operand(env, lo_), self.operand(env, ro_)
            if isinstance(a, AV) and isinstance(b, AV):
                na, nb = _refine_cmp(op, a, b)
                if na is None or nb is None:
                    return None
                if not (b.lo == b.hi) and na is not a:
                    na.x = None
                if not (a.lo == a.hi) and nb is not b:
                    nb.x = None
                self.apply_refinement(env, lo_, na)
                self.apply_refinement(env, ro_, nb)
            elif isinstance(a, Fl) or isinstance(b, Fl):
                # float comparison against a constant bound: `x <= C`, `C <= x` (bounds kept inclusive: an over-approximation)
                def const(v):
                    if isinstance(v, AV) and v.lo == v.hi:
                        return float(v.lo)
                    if isinstance(v, Fl) and v.lo is not None and v.lo == v.hi:
                        return float(v.lo)
                    return None
                for x, xo, c, flip in ((a, lo_, const(b), False), (b, ro_, const(a), True)):
                    if not isinstance(x, Fl) or c is None or (x.lo is not None and x.lo == x.hi):
                        continue
                    o = op if not flip else {"Lt": "Gt", "Le": "Ge", "Gt": "Lt", "Ge": "Le"}.get(op, op)
                    nlo, nhi = x.lo, x.hi
                    if o in ("Lt", "Le"):
                        nhi = c if nhi is None else min(nhi, c)
                    elif o in ("Gt", "Ge"):
                        nlo = c if nlo is None else max(nlo, c)
                    elif o == "Eq":
                        nlo = c if nlo is None else max(nlo, c)
                        nhi = c if nhi is None else min(nhi, c)
                    else:
                        continue
                    if nlo is not None and nhi is not None and nlo > nhi:
                        return None
                    nv = Fl(x.t, x.why, None, x.w, x.x, lo=nlo, hi=nhi)
                    self.apply_refinement(env, xo, nv)
            return env
        if kind == "guard":
            # `let ok = a && b` compiled to branches: `ok` is a comparison on one path and a constant on the other. When the
            # branch outcome differs from the constant, the comparison's path was taken: its operands had the values
            # recorded there (they carry the refinements of the earlier conjuncts), and the comparison has that outcome.
            inner, snap, cst = pred[1], pred[2], pred[3]
            if bool(truth) == bool(cst):
                return env
            for l, v in snap.items():
                if v is not None:
                    env[l] = v
            return self.refine(env, inner, truth)
        if kind == "fcontains":
            lo, hi, xop = pred[1], pred[2], pred[3]
            x = self.operand(env, xop)
            if isinstance(x, Fl) and truth:
                nlo = lo if x.lo is None else max(x.lo, lo)
                nhi = hi if x.hi is None else min(x.hi, hi)
                if nlo > nhi:
                    return None
                rp = xop.get("rp")
                if rp is not None:
                    self.set_place_any(env, rp, Fl(x.t, x.why, None, x.w, x.x if x.x is not None else None, lo=nlo, hi=nhi))
            return env
        if kind == "contains":
            lo, hi, incl, xop = pred[1], pred[2], pred[3], pred[4]
            x = self.operand(env, xop)
            if isinstance(x, AV) and isinstance(lo, int) and isinstance(hi, int):
                h = hi if incl else hi - 1
                if truth:
                    nl, nh = max(x.lo, lo), min(x.hi, h)
                    if nl > nh:
                        return None
                    self.apply_refinement(env, xop, x.re(nl, nh))
                else:
                    # outside the range: only refinable at the ends
                    if x.lo >= lo and x.hi <= h:
                        return None
                    if x.lo >= lo:
                        self.apply_refinement(env, xop, x.re(max(x.lo, h + 1), x.hi))
                    elif x.hi <= h:
                        self.apply_refinement(env, xop, x.re(x.lo, min(x.hi, lo - 1)))
            return env
        return env

    def apply_refinement(self, env, op, av):
        if "rp" in op:
            rp = op["rp"]
            l = None
        else:
            p = M.op_place(op)
            if p is None:
                return
            rp = self.resolve_place(env, p)
            l = M.place_local(p) if not M.place_proj(p) else None
            if rp is None:
                return
        if l is not None:
            env[l] = av
        self.set_place(env, rp, av)
        # abs(x) refinement: |x| <= c  =>  x in [-c, c]
        ab = env.get(("abs", l)) if l is not None else None
        if ab is not None:
            x = self.get_path(env, ab[0], ab[1])
            if isinstance(x, AV):
                self.set_place(env, ab, x.re(max(x.lo, -av.hi), min(x.hi, av.hi)))

    # ---- calls -----------------------------------------------------------------------------------------------------------
    def call(self, bb, env, t):
        eng = self.eng
        fnj = t["fn"]
        dest = t["dest"]
        tgt_bb = t.get("t")
        if tgt_bb is None:
            return []
        args = [self.operand(env, a) for a in t["args"]]
        path = fnj.get("path", "") if "ptr" not in fnj else ""
        target = fnj.get("resolved") or path
        name = path.rsplit("::", 1)[-1]
        dl = M.place_local(dest)
        dty = self.lty(dl)
        val = None
        handled = False
        vp_new = None
        c = M.Call(bb, t, self.b)
        locals_ = eng.resolve(c, self.subst)
        gargs = [self.sty(x) for x in (fnj.get("args") or [])] if "ptr" not in fnj else []
        if locals_:
            handled = True
            val = None
            first = True
            for g in locals_:
                if g in MONOTONE and len(args) == 1 and isinstance(args[0], AV) and args[0].x is not None and len(locals_) == 1:
                    mv = eng.fold_monotone(g, args[0])
                    if mv is not None:
                        val, first = mv, False
                        # the body is still analysed for its own sites
                        eng.call_fn(g, args, self.stack, {})
                        continue
                cargs = args
                if eng.fns[g].kind == "Closure" and name in ("call", "call_mut", "call_once") and len(args) == 2 \
                        and isinstance(args[1], Rec):
                    # Fn*::call(closure, (a, b, ..)): the closure body takes the arguments untupled
                    n_in = eng.body(eng.fns[g]).argc - 1
                    cargs = [args[0]] + [args[1].f.get(i) for i in range(n_in)]
                names = eng.fns[g].d.get("generics") or []
                sub = {}
                if names and len(names) == len(gargs):
                    for nm, ga in zip(names, gargs):
                        if not nm.startswith("'") and not _has_generic(ga, None):
                            sub[nm] = ga
                elif names and "impl_self" in eng.fns[g].d and gargs:
                    # impl method reached through a trait path: `Self` type is the first generic argument
                    pass
                if eng.fns[g].kind == "Closure":
                    sub = dict(self.subst)
                r = eng.call_fn(g, cargs, self.stack, sub)
                val = r if first else (join(val, r) if (val is not None and r is not None) else None)
                first = False
            if val is None:
                val = eng.top(dty)
            # a guard moved into a helper (`ensure(cond, msg)?`): when the helper returns Ok exactly for `cond == true` and Err
            # exactly for `cond == false`, the variant of its result carries the caller's predicate on `cond`
            vp_new = None
            if len(locals_) == 1 and isinstance(val, Rec) and eng.fns[locals_[0]].kind != "Closure":
                for i_, (ao, av) in enumerate(zip(t["args"], args)):
                    pl_ = M.op_place(ao)
                    if pl_ is None or M.place_proj(pl_) or not isinstance(av, AV) or (av.lo, av.hi) != (0, 1):
                        continue
                    pr_ = env.get(("p", M.place_local(pl_)))
                    if pr_ is None or self.lty(M.place_local(pl_)) != "bool":
                        continue
                    try:
                        rt_ = eng.call_fn(locals_[0], args[:i_] + [AV(1, 1)] + args[i_ + 1:], self.stack, {})
                        rf_ = eng.call_fn(locals_[0], args[:i_] + [AV(0, 0)] + args[i_ + 1:], self.stack, {})
                    except Exception:
                        break
                    vt_ = {k[1] for k in rt_.f if isinstance(k, tuple)} if isinstance(rt_, Rec) else set()
                    vf_ = {k[1] for k in rf_.f if isinstance(k, tuple)} if isinstance(rf_, Rec) else set()
                    if len(vt_) == 1 and len(vf_) == 1 and vt_ != vf_ and (vt_ | vf_) in ({"Ok", "Err"}, {"Some", "None"}):
                        vp_new = {next(iter(vt_)): (pr_, True), next(iter(vf_)): (pr_, False)}
                    break
            # a summary the analysis could not compute is of unknown provenance: never reported
            val = self.conform(val, dty, False, "")
            # values of the typestate-checked types are valid wherever they come from (C02 R6)
            val = self.validated(val, dty)
            for g in locals_:
                vt = VALIDATING_FNS.get(g)
                if vt and isinstance(val, Rec):
                    for k in (("variant", "Ok"), ("variant", "Some")):
                        if k in val.f and isinstance(val.f[k], Rec):
                            f2 = dict(val.f)
                            f2[k] = Rec({0: self.meet_invariants(val.f[k].f.get(0), vt)})
                            val = Rec(f2)
        # generic provider methods: results are data the provider's author controls
        if fnj.get("trait", "").endswith("provider::TimeZoneProvider") and "resolved" not in fnj:
            handled = True
            pv = eng.top(dty, "T", "the result of TimeZoneProvider::%s" % name)
            val = pv if val is None else join(val, pv)
        if not handled and name in ("lt", "le", "gt", "ge", "eq", "ne") and len(args) == 2 and path.startswith("core::cmp::"):
            # comparison of two enum values whose variant is known: decided from the discriminants
            dm = self.discr_map(self.op_ty(t["args"][0]))
            vs = []
            for a in args:
                ks = [k[1] for k in a.f if isinstance(k, tuple)] if isinstance(a, Rec) else []
                vs.append(dm.get(ks[0]) if (dm and len(ks) == 1 and not any(isinstance(v, Rec) and v.f for v in a.f.values())) else None)
            if vs[0] is not None and vs[1] is not None:
                res = {"lt": vs[0] < vs[1], "le": vs[0] <= vs[1], "gt": vs[0] > vs[1], "ge": vs[0] >= vs[1],
                       "eq": vs[0] == vs[1], "ne": vs[0] != vs[1]}[name]
                val = AV(int(res), int(res))
                handled = True
        if not handled:
            val = self.std_call(env, t, path, target, name, args, dty)
        e2 = dict(env)
        e2.pop(("p", dl), None)
        e2.pop(("alias", dl), None)
        e2.pop(("abs", dl), None)
        e2.pop(("vp", dl), None)
        self.write(e2, dest, val)
        if locals_ and vp_new is not None and not M.place_proj(dest):
            e2[("vp", dl)] = vp_new
        if name == "branch" and "Try" in path and t["args"] and not M.place_proj(dest):
            # Try::branch keeps the variant: Ok/Some -> Continue, Err/None -> Break
            ap_ = M.op_place(t["args"][0])
            src_vp = env.get(("vp", M.place_local(ap_))) if (ap_ is not None and not M.place_proj(ap_)) else None
            if src_vp:
                e2[("vp", dl)] = {{"Ok": "Continue", "Some": "Continue", "Err": "Break", "None": "Break"}.get(k, k): v
                                  for k, v in src_vp.items()}
        # predicates produced by calls
        if name == "contains" and ("RangeInclusive" in path or "ops::range::Range" in path) and len(t["args"]) == 2:
            rng = args[0]
            if isinstance(rng, Rec) and isinstance(rng.f.get("start"), AV) and isinstance(rng.f.get("end"), AV) \
                    and rng.f["start"].lo == rng.f["start"].hi and rng.f["end"].lo == rng.f["end"].hi:
                xop = t["args"][1]
                xp = M.op_place(xop)
                xr = self.resolve_place(env, xp) if xp is not None else None
                if xr is not None and xr[0] != dl:
                    e2[("p", dl)] = ("contains", rng.f["start"].lo, rng.f["end"].lo, bool(rng.f.get("incl")), {"rp": xr})
            elif isinstance(rng, Rec) and isinstance(rng.f.get("start"), Fl) and isinstance(rng.f.get("end"), Fl) \
                    and rng.f["start"].lo is not None and rng.f["start"].lo == rng.f["start"].hi \
                    and rng.f["end"].lo is not None and rng.f["end"].lo == rng.f["end"].hi and rng.f.get("incl"):
                xp = M.op_place(t["args"][1])
                xr = self.resolve_place(env, xp) if xp is not None else None
                if xr is not None and xr[0] != dl:
                    e2[("p", dl)] = ("fcontains", rng.f["start"].lo, rng.f["end"].lo, {"rp": xr})
        if name in ("abs", "unsigned_abs") and t["args"]:
            xp = M.op_place(t["args"][0])
            xr = self.resolve_place(env, xp) if xp is not None else None
            if xr is not None and xr[0] != dl:
                e2[("abs", dl)] = xr
        if name in ("eq", "ne", "lt", "le", "gt", "ge") and len(t["args"]) == 2 and path.startswith("core::cmp::"):
            op = {"eq": "Eq", "ne": "Ne", "lt": "Lt", "le": "Le", "gt": "Gt", "ge": "Ge"}[name]
            a0, a1 = (M.op_place(x) for x in t["args"])
            r0 = self.resolve_place(env, a0) if a0 is not None else None
            r1 = self.resolve_place(env, a1) if a1 is not None else None
            if r0 is not None and r1 is not None and dl not in (r0[0], r1[0]):
                e2[("p", dl)] = ("cmp", op, {"rp": r0}, {"rp": r1})
        return [(tgt_bb, e2)]

    def meet_invariants(self, v, ty, depth=0):
        """the success payload of a validating constructor: what was computed, narrowed by the type's invariants"""
        if not isinstance(v, Rec) or depth > 3:
            return Lazy(ty, "V", "")
        ad = self.eng.adts.get(ty)
        if ad is None or ad.get("kind") != "struct":
            return v
        out = dict(v.f)
        for i, fd in enumerate(ad["variants"][0]["fields"]):
            name = fd["name"]
            cur = v.f.get(name, v.f.get(i))
            inv = FIELD_INVARIANTS.get((ty, name))
            finv = FLOAT_INVARIANTS.get((ty, name))
            new = cur
            if inv:
                if isinstance(cur, AV):
                    lo, hi = max(cur.lo, inv[0]), min(cur.hi, inv[1])
                    new = cur.re(lo, hi) if lo <= hi else cur.re(inv[0], inv[1])
                else:
                    new = AV(inv[0], inv[1], True, "field `%s` of a valid %s" % (name, ty.rsplit("::", 1)[-1]))
            elif finv:
                fl = cur.f.get(0, cur.f.get("0")) if isinstance(cur, Rec) else None
                if isinstance(fl, Fl):
                    nf = Fl(fl.t, fl.why, finv if fl.mag is None else min(fl.mag, finv), fl.w)
                else:
                    nf = Fl(True, "field `%s` of a valid %s" % (name, ty.rsplit("::", 1)[-1]), finv)
                new = Rec({"0": nf, 0: nf})
            elif base_ty(fd["ty"]) in (DATE_DUR, TIME_DUR, ISO_DATE, ISO_TIME):
                new = self.meet_invariants(cur, base_ty(fd["ty"]), depth + 1) if isinstance(cur, Rec) else Lazy(base_ty(fd["ty"]), "V", "")
            out[name] = new
            out[i] = new
        return Rec(out)

    def conform(self, val, dty, tainted, why):
        """fit the summary of a (possibly generic) callee to the concrete result type at this call site"""
        d = (dty or "")
        r = ty_range(d)
        if r:
            if isinstance(val, AV):
                if val.lo < r[0] or val.hi > r[1]:
                    return AV(max(val.lo, r[0]) if val.lo <= r[1] else r[0], min(val.hi, r[1]) if val.hi >= r[0] else r[1],
                              val.t, val.why)
                return val
            return AV(r[0], r[1], tainted, why)
        for w, ks in (("core::result::Result<", "Ok"), ("core::option::Option<", "Some")):
            if d.startswith(w) and isinstance(val, Rec):
                k = ("variant", ks)
                if k in val.f and isinstance(val.f[k], Rec):
                    inner = _split_generics(d[len(w):-1])[0]
                    if ty_range(inner) or inner in ("f64", "f32"):
                        f2 = dict(val.f)
                        pl = val.f[k].f.get(0)
                        if inner in ("f64", "f32"):
                            pl = pl if isinstance(pl, Fl) else Fl(tainted, why)
                        else:
                            pl = self.conform(pl, inner, tainted, why)
                        f2[k] = Rec({0: pl})
                        return Rec(f2)
        if d in ("f64", "f32") and not isinstance(val, Fl):
            return Fl(tainted, why)
        return val

    def call_closure(self, clo, args):
        path = clo.f.get("__closure")
        if path not in self.eng.fns:
            return None
        f = self.eng.fns[path]
        want = self.eng.body(f).argc
        a = [clo] + list(args)
        if len(a) != want:
            a = (a + [None] * want)[:want]
        return self.eng.call_fn(path, a, self.stack, dict(self.subst))

    def validated(self, val, dty):
        d = (dty or "")
        for w in ("core::result::Result<", "core::option::Option<"):
            if d.startswith(w):
                inner = _split_generics(d[len(w):-1])[0]
                if base_ty(inner) in VALIDATED_OUTER and isinstance(val, Rec):
                    k = ("variant", "Ok" if "Result" in w else "Some")
                    if k in val.f:
                        f2 = dict(val.f)
                        f2[k] = Rec({0: Lazy(base_ty(inner), "V", "")})
                        return Rec(f2)
                return val
        if base_ty(d) in VALIDATED_OUTER:
            return Lazy(base_ty(d), "V", "")
        return val

    def std_call(self, env, t, path, target, name, args, dty):
        eng = self.eng
        a0 = args[0] if args else None
        a1 = args[1] if len(args) > 1 else None
        r = ty_range(dty)
        if name in ("from", "into", "try_from", "try_into") and a0 is not None and (path.startswith("core::convert::")):
            if isinstance(a0, AV) and r:
                if a0.lo >= r[0] and a0.hi <= r[1]:
                    return a0.re(a0.lo, a0.hi)
                return a0.re(r[0], r[1])
            if isinstance(a0, AV) and dty in ("f64", "f32"):
                return Fl(a0.t, a0.why, None, a0.w, a0.x, lo=a0.lo, hi=a0.hi)
            if isinstance(a0, Fl) and dty in ("f64", "f32"):
                return a0
            if isinstance(a0, Fl) and r:
                if a0.mag is not None:
                    return AV(min(max(r[0], int(a0.lo)), r[1]), max(min(r[1], int(a0.hi)), r[0]), a0.t, a0.why, a0.w, a0.x)
                return AV(r[0], r[1], a0.t, a0.why, a0.w)
            if isinstance(a0, AV) and dty.startswith("core::result::Result<"):
                inner = re.match(r"core::result::Result<([^,]+),", dty)
                ir = ty_range(inner.group(1)) if inner else None
                if ir:
                    return Rec({0: a0.re(max(a0.lo, ir[0]), min(a0.hi, ir[1])) if a0.hi >= ir[0] and a0.lo <= ir[1]
                                else a0.re(ir[0], ir[1])})
            return a0 if isinstance(a0, (Lazy, Rec, Fl)) and base_ty(dty) == base_ty(getattr(a0, "ty", dty)) else eng.top(dty, getattr(a0, "t", False), getattr(a0, "why", ""))
        if name == "new" and "RangeInclusive" in path and len(args) == 2:
            return Rec({"start": a0, "end": a1, "incl": AV(1, 1)})
        if name in ("index", "index_mut") and path.startswith("core::ops::index::Index") and len(args) == 2:
            # `ARRAY[a..b]` / `ARRAY[a..]` / `ARRAY[..b]` on a fixed-size array: a panic site like a bounds check
            m_arr = re.match(r"^&?(?:mut )?\[.*; (\d+)\]$", (self.op_ty(t["args"][0]) or "").strip())
            if m_arr and isinstance(a1, Rec):
                n_el = int(m_arr.group(1))
                self.cast_no = getattr(self, "cast_no", 0) + 1
                skey = ("bounds", getattr(self, "cur_bb", 0) * 100 + 50 + self.cast_no)
                ends = [v for k, v in a1.f.items() if k in ("start", "end") and isinstance(v, AV)]
                incl = 1 if "incl" in a1.f or "RangeInclusive" in (self.op_ty(t["args"][1]) or "") or \
                    "RangeToInclusive" in (self.op_ty(t["args"][1]) or "") else 0
                known = [k for k in a1.f if k in ("start", "end")]
                if ends and len(ends) == len(known):
                    hi = max(v.hi for v in ends) + incl
                    st_, en_ = a1.f.get("start"), a1.f.get("end")
                    ordered = not (isinstance(st_, AV) and isinstance(en_, AV)) or st_.hi <= en_.lo + incl
                    if hi <= n_el and ordered:
                        self.site_results[skey] = (0, None)
                    else:
                        self.site_results[skey] = (1, None)
                else:
                    self.site_results[skey] = (1, None)
        if name == "abs" and isinstance(a0, AV) and r and path.startswith("core::num::"):
            # i*::abs() inherits the caller's overflow checks: MIN.abs() panics with them and stays MIN without
            self.cast_no = getattr(self, "cast_no", 0) + 1
            skey = ("overflow:abs", getattr(self, "cur_bb", 0) * 100 + self.cast_no)
            if a0.lo > r[0]:
                self.site_results[skey] = (0, None)
            elif a0.t and a0.wm[0] is not None and a0.wm[0] <= r[0]:
                self.site_results[skey] = (2, ("overflow:abs", "abs() of %s can overflow: the operand ranges over %s and may be %s::MIN; "
                                              "caller-controlled through %s" % (dty, _fmt(a0), dty, a0.why), M.line_of(t.get("line")),
                                              "overflow:abs"))
            else:
                self.site_results[skey] = (1, None)
        if name in ("abs", "unsigned_abs") and isinstance(a0, AV):
            m = max(abs(a0.lo), abs(a0.hi))
            lo = 0 if a0.lo <= 0 <= a0.hi else min(abs(a0.lo), abs(a0.hi))
            return self.clamp_ty(AV(lo, m, a0.t, a0.why, a0.w, a0.x), dty) if name == "abs" else AV(lo, m, a0.t, a0.why, a0.w, a0.x)
        if name in ("abs", "trunc", "floor", "ceil", "round", "copysign", "signum", "fract") and isinstance(a0, Fl):
            if a0.mag is None:
                return Fl(a0.t, a0.why) if name != "signum" else Fl(a0.t, a0.why, 1)
            if name == "abs":
                lo = 0 if a0.lo <= 0 <= a0.hi else min(abs(a0.lo), abs(a0.hi))
                return Fl(a0.t, a0.why, None, a0.w, a0.x, lo=lo, hi=a0.mag)
            if name in ("floor", "ceil", "round"):
                return Fl(a0.t, a0.why, None, a0.w, a0.x, lo=a0.lo - 1, hi=a0.hi + 1)
            if name in ("signum", "fract"):
                return Fl(a0.t, a0.why, 1, a0.w, a0.x)
            if name == "copysign":
                return Fl(a0.t, a0.why, a0.mag, a0.w, None)
            return a0
        if name in ("mul_add",) and all(isinstance(x, Fl) for x in args[:3]) and len(args) == 3:
            ms = [x.mag for x in args]
            return Fl(any(x.t for x in args), _why(*args), None if None in ms else ms[0] * ms[1] + ms[2])
        if name == "rem_euclid" and isinstance(a1, AV):
            m = max(abs(a1.lo), abs(a1.hi))
            if m > 0:
                full = isinstance(a0, AV) and a1.lo == a1.hi and (a0.hi - a0.lo) >= m
                return AV(0, m - 1, getattr(a0, "t", False), getattr(a0, "why", ""), getattr(a0, "w", False),
                          a0.x if full else None)
        if name == "div_euclid" and isinstance(a0, AV) and isinstance(a1, AV) and a1.lo > 0:
            if a1.lo == a1.hi:
                # floor division by a positive constant is monotone: exact bounds stay exact
                return a0.tr(a0.lo // a1.lo, a0.hi // a1.lo, lambda v: v // a1.lo)
            return AV(-((-a0.lo) // a1.lo) - 1 if a0.lo < 0 else a0.lo // a1.hi, a0.hi // a1.lo if a0.hi >= 0 else -((-a0.hi) // a1.hi),
                      a0.t or a1.t, a0.why if a0.t else a1.why, a0.w or a1.w)
        if name == "clamp" and len(args) == 3 and all(isinstance(x, (AV, Fl)) for x in args) \
                and None not in (getattr(a1, "lo", None), getattr(args[2], "hi", None)):
            lo_b, hi_b = a1.lo, args[2].hi
            v = a0
            if getattr(v, "lo", None) is not None and getattr(v, "hi", None) is not None and not isinstance(v, Fl):
                # integer clamps are the `constrain` semantics of the API (intended); only float saturation is tracked
                nlo, nhi = max(v.lo, lo_b), min(v.hi, hi_b)
                if nlo > nhi:
                    nlo, nhi = lo_b, hi_b
            elif getattr(v, "lo", None) is not None and getattr(v, "hi", None) is not None:
                self.cast_no = getattr(self, "cast_no", 0) + 1
                skey = ("narrowing", getattr(self, "cur_bb", 0) * 100 + 50 + self.cast_no)
                if v.lo >= lo_b and v.hi <= hi_b:
                    self.site_results[skey] = (0, None)
                elif v.t and v.x is not None:
                    self.site_results[skey] = (2, ("narrowing", "a caller-controlled value in %s is clamped to [%s, %s]: values outside are "
                                                  "silently replaced by the bound; caller-controlled through %s" %
                                                  (_fmt(AV(int(v.lo), int(v.hi))), _fmt_n(lo_b), _fmt_n(hi_b), v.why), None, "narrowing"))
                else:
                    self.site_results[skey] = (1, None)
                nlo, nhi = max(v.lo, lo_b), min(v.hi, hi_b)
                if nlo > nhi:
                    nlo, nhi = lo_b, hi_b
            else:
                nlo, nhi = lo_b, hi_b
            if isinstance(v, Fl):
                return Fl(v.t, v.why, None, v.w, None, lo=nlo, hi=nhi)
            return AV(int(nlo), int(nhi), v.t, v.why, v.w, None)
        if name in ("min",) and isinstance(a0, AV) and isinstance(a1, AV):
            return AV(min(a0.lo, a1.lo), min(a0.hi, a1.hi), a0.t and a1.t, a0.why)
        if name in ("max",) and isinstance(a0, AV) and isinstance(a1, AV):
            return AV(max(a0.lo, a1.lo), max(a0.hi, a1.hi), a0.t and a1.t, a0.why)
        if name == "signum" and isinstance(a0, AV):
            return AV(-1, 1)
        if name in ("pow",) and isinstance(a0, AV) and isinstance(a1, AV) and a0.lo >= 0 and a1.lo >= 0 and a1.hi <= 64:
            return self.clamp_ty(AV(a0.lo ** a1.lo, a0.hi ** a1.hi, a0.t or a1.t, a0.why), dty)
        m_to = re.match(r"^(?:to|from)_([iu](?:8|16|32|64|128|size)|f64|f32)$", name)
        if m_to and ("num_traits" in path or "ToPrimitive" in path or "FromPrimitive" in path) and a0 is not None:
            inner = _inner_ty(dty)
            ir = ty_range(inner) if inner else None
            if ir and isinstance(a0, (AV, Fl)):
                if isinstance(a0, AV):
                    lo, hi = a0.lo, a0.hi
                else:
                    lo, hi = (-a0.mag, a0.mag) if a0.mag is not None else (ir[0] - 1, ir[1] + 1)
                out = {}
                if hi >= ir[0] and lo <= ir[1]:
                    out[("variant", "Some")] = Rec({0: AV(max(lo, ir[0]), min(hi, ir[1]), a0.t, a0.why, getattr(a0, "w", False))})
                if lo < ir[0] or hi > ir[1] or isinstance(a0, Fl):
                    out[("variant", "None")] = Rec({})
                return Rec(out)
            if inner in ("f64", "f32") and isinstance(a0, AV):
                return Rec({("variant", "Some"): Rec({0: Fl(a0.t, a0.why, None, a0.w, a0.x, lo=a0.lo, hi=a0.hi)})})
        if name in ("binary_search", "binary_search_by", "binary_search_by_key") and "slice" in path:
            # Ok(i): the key is element i (0 when it is the first one); Err(i): insertion point (0 when it precedes all).
            # Both ends are attained for suitable data / keys, which come from the provider's data and the caller's query.
            src = "the position found by `%s` (0 for the first element / a key before all elements)" % name
            mk = lambda: AV(0, (1 << 63) - 1, True, src, False, frozenset([src]))
            return Rec({("variant", "Ok"): Rec({0: mk()}), ("variant", "Err"): Rec({0: mk()})})
        if name in ("div_rem_euclid", "div_mod_floor") and isinstance(a0, AV) and isinstance(a1, AV) and a1.lo > 0:
            if a1.lo == a1.hi:
                q = a0.tr(a0.lo // a1.lo, a0.hi // a1.lo, lambda v: v // a1.lo)
            else:
                q = self.arith("Div", a0, a1, None) if a0.lo >= 0 else AV(-((-a0.lo) // a1.lo) - 1, max(a0.hi, 0) // a1.lo, a0.t or a1.t,
                                                                             a0.why if a0.t else a1.why, a0.w or a1.w)
            rem = AV(0, a1.hi - 1, a0.t or a1.t, a0.why if a0.t else a1.why, a0.w or a1.w,
                     a0.x if (a1.lo == a1.hi and a0.hi - a0.lo >= a1.lo) else None)
            if a0.lo >= 0 and a0.hi < a1.lo:
                rem = a0.re(a0.lo, a0.hi)
            return Rec({0: q, 1: rem})
        if name == "default" and "Default" in path:
            if r:
                return AV(0, 0)
            if dty in ("f64", "f32"):
                return Fl(False, "", 0)
            if dty == "bool":
                return AV(0, 0)
        if name == "from_residual":
            if "Option" in (dty or "")[:30]:
                return Rec({("variant", "None"): Rec({})})
            return Rec({("variant", "Err"): Rec({})})
        if name in ("branch",) and "Try" in path:
            if a0 is None:
                return None
            pl = _payload(a0, eng)
            if pl == "never":
                return Rec({("variant", "Break"): Rec({})})
            out = {("variant", "Continue"): Rec({0: pl})}
            if not (isinstance(a0, Rec) and not any(k in a0.f for k in (("variant", "Err"), ("variant", "None")))
                    and any(isinstance(k, tuple) for k in a0.f)):
                out[("variant", "Break")] = Rec({})
            return Rec(out)
        if name in ("unwrap_or", "unwrap_or_default", "unwrap", "expect", "unwrap_or_else", "temporal_unwrap",
                    "unwrap_unchecked") and a0 is not None:
            pl = _payload(a0, eng)
            if pl == "never":
                pl = None
            if name == "unwrap_or":
                return join(pl, a1) if (pl is not None and a1 is not None) else eng.top(dty, "T" if _t(a0) or _t(a1) else "U", _why(a0, a1))
            if name == "unwrap_or_default":
                if isinstance(pl, AV):
                    return join(pl, AV(0, 0))
                if isinstance(pl, Fl):
                    return pl
                # the type's own Default (a derived all-zero record) joined with the payload; a value nobody chose otherwise
                dpath = "<%s as core::default::Default>::default" % dty
                if pl is not None and dpath in eng.fns:
                    dv = eng.call_fn(dpath, [], self.stack, {})
                    j = join(pl, dv) if dv is not None else None
                    if j is not None:
                        return j
                return eng.top(dty, "U", "")
            if name == "unwrap_or_else":
                return eng.top(dty, "T" if _t(pl) or _t(a0) else "U", _why(pl, a0))
            return pl if pl is not None else eng.top(dty, "T" if _t(a0) else "U", _why(a0))
        if ("::Option" in path or "::Result" in path) and a0 is not None and \
                name in ("map", "and_then", "map_or", "map_or_else", "unwrap_or_else", "map_err", "or_else", "is_some_and",
                         "is_ok_and", "filter", "inspect"):
            ok_k = ("variant", "Ok") if "::Result" in path else ("variant", "Some")
            er_k = ("variant", "Err") if "::Result" in path else ("variant", "None")
            pl = _payload(a0, eng)
            has_err = not (isinstance(a0, Rec) and any(isinstance(k, tuple) for k in a0.f) and er_k not in a0.f)
            if name in ("map_err", "or_else", "inspect", "filter"):
                if name in ("map_err", "or_else") and has_err and isinstance(a1, Rec) and "__closure" in a1.f:
                    self.call_closure(a1, [eng.top(None)])          # analyse the closure body for its own sites
                if name == "filter" and isinstance(a1, Rec) and "__closure" in a1.f and pl not in (None, "never"):
                    self.call_closure(a1, [pl])
                    return Rec({ok_k: Rec({0: pl}), er_k: Rec({})})
                return a0
            clo = args[-1]
            res = None
            if pl != "never" and isinstance(clo, Rec) and "__closure" in clo.f:
                if name in ("unwrap_or_else", "map_or_else") and name == "unwrap_or_else":
                    res = None
                else:
                    res = self.call_closure(clo, [pl])
            if name == "map":
                out = {}
                if pl != "never":
                    out[ok_k] = Rec({0: res if res is not None else eng.top(_inner_ty(dty))})
                if has_err:
                    out[er_k] = Rec({})
                return Rec(out)
            if name == "and_then":
                if pl == "never":
                    return Rec({er_k: Rec({})})
                base = res if isinstance(res, Rec) else eng.top(dty)
                if has_err and isinstance(base, Rec):
                    f2 = dict(base.f)
                    f2.setdefault(er_k, Rec({}))
                    base = Rec(f2)
                return base
            if name == "map_or":
                d = a1
                if pl == "never":
                    return d
                if res is None or d is None:
                    return eng.top(dty)
                return join(res, d) if has_err else res
            if name in ("unwrap_or_else", "map_or_else"):
                alt = None
                c_alt = args[1] if len(args) > 1 else None
                if has_err and isinstance(c_alt, Rec) and "__closure" in c_alt.f:
                    alt = self.call_closure(c_alt, [] if "::Option" in path else [eng.top(None)])
                if name == "unwrap_or_else":
                    good = None if pl == "never" else pl
                else:
                    c_ok = args[2] if len(args) > 2 else None
                    good = self.call_closure(c_ok, [pl]) if (pl != "never" and isinstance(c_ok, Rec) and "__closure" in c_ok.f) else None
                if good is None and alt is None:
                    return eng.top(dty)
                if not has_err:
                    return good if good is not None else eng.top(dty)
                if pl == "never":
                    return alt if alt is not None else eng.top(dty)
                return join(good, alt) if (good is not None and alt is not None) else eng.top(dty)
            return eng.top(dty)
        if name == "then" and path.endswith("bool::then") and isinstance(a1, Rec) and "__closure" in a1.f:
            res = self.call_closure(a1, [])
            return Rec({("variant", "Some"): Rec({0: res if res is not None else eng.top(_inner_ty(dty))}), ("variant", "None"): Rec({})})
        if name in ("ok_or", "ok_or_else", "ok") and a0 is not None and ("Option" in path or "Result" in path):
            pl = _payload(a0, eng)
            if pl == "never":
                return Rec({("variant", "Err" if name != "ok" else "None"): Rec({})})
            return Rec({("variant", "Ok" if name != "ok" else "Some"): Rec({0: pl}),
                        ("variant", "Err" if name != "ok" else "None"): Rec({})})
        if name in ("deref", "as_ref", "clone", "borrow", "to_owned", "copied", "cloned", "as_inner", "as_") and a0 is not None:
            if isinstance(a0, Fl) and r:
                if a0.mag is not None:
                    return AV(max(r[0], -a0.mag), min(r[1], a0.mag), a0.t, a0.why, a0.w, a0.x)
                return AV(r[0], r[1], a0.t, a0.why, a0.w, a0.x)
            if isinstance(a0, AV) and dty in ("f64", "f32"):
                return Fl(a0.t, a0.why, None, a0.w, a0.x, lo=a0.lo, hi=a0.hi)
            return a0 if not (isinstance(a0, AV) and r and (a0.lo < r[0] or a0.hi > r[1])) else a0.re(r[0], r[1])
        if name in ("len",):
            if isinstance(a0, Rec) and isinstance(a0.f.get("__slicelen"), AV) and path.startswith("core::slice::"):
                return a0.f["__slicelen"]
            return AV(0, (1 << 63) - 1)
        if name in ("saturating_add", "saturating_sub", "saturating_mul", "checked_add", "checked_sub", "checked_mul") \
                and isinstance(a0, AV) and isinstance(a1, AV) and path.startswith("core::num::"):
            base = {"add": "Add", "sub": "Sub", "mul": "Mul"}[name.rsplit("_", 1)[1]]
            inner_m = re.match(r"core::option::Option<(\w+)>", dty or "")
            rr = ty_range(inner_m.group(1)) if inner_m else r
            raw = self.arith(base, a0, a1, None)
            if rr and isinstance(raw, AV):
                # saturation / the None case cut the exact result at the type's ends, which are then attained
                v = AV(max(raw.lo, rr[0]) if raw.lo <= rr[1] else rr[0], min(raw.hi, rr[1]) if raw.hi >= rr[0] else rr[1],
                       raw.t, raw.why, raw.w, raw.x)
                if inner_m:
                    out = {("variant", "Some"): Rec({0: v})}
                    if raw.lo < rr[0] or raw.hi > rr[1]:
                        out[("variant", "None")] = Rec({})
                    return Rec(out)
                return v
        if name in ("checked_add", "checked_sub", "checked_mul", "checked_div", "checked_neg", "checked_abs",
                    "saturating_add", "saturating_sub", "saturating_mul", "wrapping_add", "wrapping_sub", "wrapping_mul"):
            # checked/saturating/wrapping arithmetic cannot panic; result within the type
            inner = re.match(r"core::option::Option<(\w+)>", dty or "")
            rr = ty_range(inner.group(1)) if inner else r
            tnt = any(getattr(x, "t", False) for x in args)
            why = next((getattr(x, "why", "") for x in args if getattr(x, "t", False)), "")
            if rr:
                v = AV(rr[0], rr[1], tnt, why)
                return Rec({0: v}) if inner else v
        # anything else: unknown, untainted — except float-producing / record-producing calls that carry taint through
        tnt = any(getattr(x, "t", False) for x in args)
        why = next((getattr(x, "why", "") for x in args if getattr(x, "t", False)), "")
        if dty in ("f64", "f32"):
            return Fl(tnt, why)
        return eng.top(dty, False, "")


def _inner_ty(dty):
    m = re.match(r"^(?:core::result::Result|core::option::Option)<(.*)>$", dty or "")
    return _split_generics(m.group(1))[0] if m else None


def _split_generics(inner):
    depth = 0
    parts = []
    cur = ""
    for ch in inner:
        if ch in "<([":
            depth += 1
        elif ch in ">)]":
            depth -= 1
        if ch == "," and depth == 0:
            parts.append(cur.strip())
            cur = ""
        else:
            cur += ch
    parts.append(cur.strip())
    return parts


def _payload(v, eng=None):
    """the success payload (Ok / Some / Continue) of a wrapper value"""
    if isinstance(v, Rec):
        for name in ("Ok", "Some", "Continue"):
            x = v.f.get(("variant", name))
            if isinstance(x, Rec):
                return x.f.get(0)
        if any(isinstance(k, tuple) for k in v.f):
            return "never"          # only Err / None / Break variants: no success payload on this path
        return v.f.get(0)
    if isinstance(v, Lazy):
        m = re.match(r"^(core::result::Result|core::option::Option|core::ops::control_flow::ControlFlow)<(.*)>$", v.ty)
        if m and eng is not None:
            parts = _split_generics(m.group(2))
            pick = parts[-1] if m.group(1).endswith("ControlFlow") else parts[0]
            return eng.top(pick, v.mode, v.why)
    return None


def _t(v):
    if isinstance(v, Rec):
        return _rec_tainted(v)
    return bool(getattr(v, "t", False))


def _why(*vs):
    for v in vs:
        if isinstance(v, Rec):
            for x in v.f.values():
                w = _why(x)
                if w:
                    return w
        elif getattr(v, "t", False):
            return v.why
    return ""


def _pred_locals(pr):
    """root locals of the places a predicate reads"""
    out = set()

    def op_root(o):
        if isinstance(o, dict) and "rp" in o and o["rp"]:
            out.add(o["rp"][0])
        elif isinstance(o, dict):
            p = M.op_place(o)
            if p is not None:
                out.add(M.place_local(p))
    if pr[0] == "not":
        return _pred_locals(pr[1])
    if pr[0] == "cmp":
        op_root(pr[2]); op_root(pr[3])
    elif pr[0] == "contains":
        op_root(pr[4])
    elif pr[0] == "fcontains":
        op_root(pr[3])
    return out


def _points(v):
    pts = {v.lo, v.hi}
    pts.add(0 if v.lo <= 0 <= v.hi else (v.lo if abs(v.lo) < abs(v.hi) else v.hi))
    return [AV(p, p) for p in sorted(pts)]


def _benign(v):
    if v.lo <= 0 <= v.hi:
        m = 0
    else:
        m = v.lo if abs(v.lo) < abs(v.hi) else v.hi
    return AV(m, m)


def _tdiv(a, b):
    if b == 0:
        return 0
    q = abs(a) // abs(b)
    return q if (a >= 0) == (b >= 0) else -q


def _refine_cmp(op, a, b):
    """intervals of a and b given that `a op b` holds"""
    if op == "Eq":
        lo, hi = max(a.lo, b.lo), min(a.hi, b.hi)
        if lo > hi:
            return None, None
        return a.re(lo, hi), b.re(lo, hi)
    if op == "Ne":
        if a.lo == a.hi == b.lo == b.hi:
            return None, None
        na, nb = a, b
        if b.lo == b.hi:
            if a.lo == b.lo:
                na = a.re(a.lo + 1, a.hi)
            elif a.hi == b.lo:
                na = a.re(a.lo, a.hi - 1)
        return na, nb
    if op == "Lt":
        if a.lo >= b.hi:
            return None, None
        return a.re(a.lo, min(a.hi, b.hi - 1)), b.re(max(b.lo, a.lo + 1), b.hi)
    if op == "Le":
        if a.lo > b.hi:
            return None, None
        return a.re(a.lo, min(a.hi, b.hi)), b.re(max(b.lo, a.lo), b.hi)
    if op == "Gt":
        nb, na = _refine_cmp("Lt", b, a)
        return na, nb
    if op == "Ge":
        nb, na = _refine_cmp("Le", b, a)
        return na, nb
    return a, b


def _fmt_n(x):
    return str(int(x)) if abs(x) < 10 ** 7 else "%.3g" % x


def _fmt(v):
    if isinstance(v, AV):
        def s(x):
            return str(x) if abs(x) < 10**7 else ("%.3g" % x)
        return "[%s, %s]" % (s(v.lo), s(v.hi))
    return "?"


def engine(fx, crates=("temporal_rs",)):
    """an engine ready for individual `call_fn(path, abstract args, ())` queries (no entry-point sweep)"""
    global _ENG
    eng = Engine(fx, crates)
    _ENG = eng
    eng.reset()
    return eng


def analyse(fx, crates=("temporal_rs", "temporal_capi")):
    global _ENG
    eng = Engine(fx, crates)
    _ENG = eng
    eng.run()
    return eng


def results(fx, crate="temporal_rs"):
    """site table of the whole-crate sweep, cached next to the facts (keyed by this module's source): a list of dicts
    {fn, file, fn_line, kind, ordinal, status (0 proved / 1 unresolved / 2 reported), text, line, chain} plus the statistics"""
    import hashlib, json, os
    here = os.path.abspath(__file__)
    with open(here, "rb") as fh:
        eh = hashlib.sha256(fh.read()).hexdigest()[:12]
    cache = os.path.join(getattr(fx, "dir", "") or "", "r9-%s-%s.json" % (crate, eh))
    if getattr(fx, "dir", None) and os.path.exists(cache):
        try:
            with open(cache) as fh:
                return json.load(fh)
        except Exception:
            pass
    eng = analyse(fx, (crate,))
    per_fn = {}
    for (p, k) in sorted(eng.site, key=lambda x: (x[0], x[1][0], x[1][1])):
        per_fn.setdefault((p, k[0]), []).append(k[1])
    sites = []
    for (p, k), status in sorted(eng.site.items(), key=lambda x: (x[0][0], x[0][1][0], x[0][1][1])):
        f = eng.fns[p]
        a = eng.alarms.get((p, k))
        sites.append({"fn": p, "file": f.file, "fn_line": f.line, "kind": k[0], "ordinal": per_fn[(p, k[0])].index(k[1]) + 1,
                      "status": status, "text": a[1] if a else None, "line": a[2] if a else None,
                      "chain": list(a[4]) if a else None})
    out = {"stats": dict(eng.stats), "sites": sites}
    if getattr(fx, "dir", None):
        try:
            tmp = cache + ".tmp%d" % os.getpid()
            with open(tmp, "w") as fh:
                json.dump(out, fh)
            os.replace(tmp, cache)
        except OSError:
            pass
    return out
