"""Shared helpers for rule modules."""
from .. import hireval as H
from ..terms import show, walk

OPT = "temporal_rs::options::"
UNIT = OPT + "Unit"
RMODE = OPT + "RoundingMode"
URMODE = OPT + "UnsignedRoundingMode"
UNIT_NAMES = ["Auto", "Nanosecond", "Microsecond", "Millisecond", "Second", "Minute", "Hour", "Day", "Week", "Month",
              "Year"]
TIME_UNITS = ["Hour", "Minute", "Second", "Millisecond", "Microsecond", "Nanosecond"]
DATE_UNITS = ["Year", "Month", "Week", "Day"]
NS = {"Nanosecond": 1, "Microsecond": 10**3, "Millisecond": 10**6, "Second": 10**9, "Minute": 60 * 10**9,
      "Hour": 3600 * 10**9, "Day": 86400 * 10**9}
RANK = {n: i for i, n in enumerate(UNIT_NAMES)}   # Temporal's unit order, Auto lowest


def unit(n):
    return H.V(UNIT + "::" + n, ())


def vname(v):
    if isinstance(v, H.V):
        return v.path.rsplit("::", 1)[-1]
    return None


def some(x):
    return H.some(x)


def opt(x):
    return H.NONE_V if x is None else H.some(x)


def is_ok(v):
    return isinstance(v, H.V) and v.path == H.OK


def is_err(v):
    return isinstance(v, H.V) and v.path == H.ERR


def err_kind(v):
    """kind name of an Err(TemporalError{..}) value, or None"""
    if not is_err(v):
        return None
    for x in walk(v):
        if isinstance(x, H.V) and x.path.startswith("temporal_rs::error::ErrorKind::"):
            return x.path.rsplit("::", 1)[-1]
    return "?"


def fold(ev, fn, args):
    """fold and classify: ('ok', value) | ('err', kind) | ('panic', what) | ('opaque', term)"""
    ev.lossy = []
    try:
        r = ev.call_fn(fn, args)
    except H.Panic as p:
        return ("panic", "%s (line %s)" % (p.what, p.line))
    except H.Budget:
        return ("opaque", "budget")
    if getattr(ev, "lossy", None):
        # a loop was skipped, an early return was lost under an undecided condition, a local was mutated by an opaque
        # callee: whatever came out is not the function's value
        return ("opaque", "not foldable: " + ev.lossy[0])
    if is_err(r):
        return ("err", err_kind(r))
    if H.has_sym(r):
        # the function did not reduce to a value (an idiom the folder does not know, an opaque callee): nothing is decided
        return ("opaque", r)
    if is_ok(r):
        return ("ok", r.args[0])
    return ("val", r)


def opaque(*results):
    """did any of these fold() results fail to reduce to a value?"""
    return any(r[0] == "opaque" for r in results)


def tri(run, rule, key, results, cond, ok_text, bad_text, loc=None, **kw):
    """three-valued check on fold() results: not decided (recorded, never a violation) when a fold stayed opaque"""
    if not isinstance(results, (list, tuple)) or (results and not isinstance(results[0], (list, tuple))):
        results = [results]
    if opaque(*results):
        run.ok(rule, key, "the function does not fold to a value here (%s): not decided" %
               "; ".join(str(r[1])[:60] for r in results if r[0] == "opaque"), loc, nontrivial=False)
        return None
    return run.check(cond, rule, key, ok_text, bad_text, loc, **kw)


def find_trait_fn(crate, self_ty, trait_suffix, method):
    for f in crate.fns:
        if f.name == method and f.d.get("impl_self") == self_ty and (f.d.get("impl_trait") or "").endswith(trait_suffix):
            return f
    return None


def hir_walk(node):
    """all dict nodes of a HIR tree"""
    if isinstance(node, dict):
        yield node
        for v in node.values():
            yield from hir_walk(v)
    elif isinstance(node, list):
        for v in node:
            yield from hir_walk(v)


def node_line(n):
    l = n.get("l")
    if isinstance(l, list):
        return l[0]
    return l


def _kind(v):
    if isinstance(v, bool):
        return "bool"
    if isinstance(v, int):
        return "int"
    if isinstance(v, float):
        return "float"
    if isinstance(v, (H.S, H.V)):
        return v.path if isinstance(v, H.S) else v.path.rsplit("::", 1)[0]
    return type(v).__name__


def same_product(got, want):
    """does `got` carry the components of the tuple `want`?  A function that returns `(days, time)` may come to return a small
    record `BalancedTime { days, time }` instead: a record with as many fields as the tuple has items, whose fields are of
    pairwise different kinds, is compared component by component (matched by kind); a tuple is compared as it is."""
    if not isinstance(want, H.T):
        return got == want
    if isinstance(got, H.T):
        return got == want
    if isinstance(got, H.S) and len(got.fields) == len(want.items):
        wk = [_kind(x) for x in want.items]
        gk = [_kind(v) for _, v in got.fields]
        if len(set(wk)) == len(wk) and sorted(wk) == sorted(gk) and got.path not in wk:
            by = {_kind(v): v for _, v in got.fields}
            return all(by[k] == x for k, x in zip(wk, want.items))
    return False
