"""R8.digit-unwrap-guard — `c.to_digit(r).unwrap()/expect()` is discharged by a digit test at least as strong as `to_digit(r).is_some()`.

Library fact used: `char::to_digit(r)` is `Some` exactly for the ASCII digits / letters below radix r.  `is_ascii_digit` (and a
`'0'..='9'` range test, `is_digit(r')` with r' <= r) implies it for r >= 10; `is_numeric`, `is_alphanumeric`, `is_digit(r')` with
r' > r, `is_ascii_hexdigit` (r < 16), `is_ascii_alphanumeric` (r < 36) do not.

Decision per unwrapped `to_digit` in function F (MIR, with F's closures and everything F calls in the analysed crates):
  * a sufficient test occurs in that code                      -> discharged (path-insensitive: silence, never an alarm)
  * no sufficient test, and a strictly weaker character-class test occurs there
                                                              -> VIOLATION (the code that validates the character accepts
                                                                 characters for which to_digit is None)
  * neither (the character is validated elsewhere, or by a comparison the rule does not classify) -> not decided
"""
from .. import mirq as M
from .panics import UNWRAPS

CHAR = "core::char::methods::<impl char>::"
U8 = "core::num::<impl u8>::"


def _const_int(op):
    k = op.get("k") if isinstance(op, dict) else None
    if not k:
        return None
    v = k.get("val")
    if isinstance(v, int) and not isinstance(v, bool):
        return v
    if isinstance(v, dict) and isinstance(v.get("char"), int):
        return v["char"]
    return None


def _radix(call, body):
    a = call.args
    if len(a) < 2:
        return None
    v = _const_int(a[1])
    if v is None:
        l = M.op_local(a[1])
        ds = body.defs().get(l, []) if l is not None else []
        if len(ds) == 1 and ds[0][2] == "assign" and ds[0][3][2][0] == "use":
            v = _const_int(ds[0][3][2][1])
    return v


def tests_in(f):
    """(sufficient-for-radix-predicate list, weak list, unclassified list) of character-class tests in one MIR body"""
    b = M.Body(f)
    suff, weak, unk = [], [], []
    lo = hi = False
    for c in b.calls():
        p = c.path or ""
        if not (p.startswith(CHAR) or p.startswith(U8)):
            continue
        n = p.rsplit("::", 1)[-1]
        if n == "is_ascii_digit":
            suff.append((n, 10))
        elif n == "is_digit":
            r = _radix(c, b)
            (suff if r is not None else unk).append((n, r))
        elif n == "is_ascii_hexdigit":
            suff.append((n, 16))
        elif n in ("is_numeric", "is_alphanumeric", "is_ascii_alphanumeric", "is_ascii_graphic", "is_alphabetic"):
            weak.append((n, 10 ** 9))
    for blk in b.blocks:
        for s in blk["s"]:
            if s[0] == "=" and s[2][0] == "bin" and s[2][1] in ("Le", "Lt", "Ge", "Gt") and s[2][-1] in ("char", "u8"):
                cs = [_const_int(s[2][2]), _const_int(s[2][3])]
                if 48 in cs:
                    lo = True
                elif 57 in cs:
                    hi = True
                else:
                    unk.append(("cmp", None))
    if lo and hi:
        suff.append(("'0'..='9'", 10))
    elif lo or hi:
        unk.append(("cmp", None))
    return suff, weak, unk


def obligations(fx, crates):
    """[(fn, ordinal, radix, line)] for every `to_digit(r)` whose Option is unwrapped in the same body"""
    out = []
    for c in crates:
        for f in fx[c].fns:
            if f.mir is None:
                continue
            b = M.Body(f)
            calls = list(b.calls())
            n = 0
            for call in sorted(calls, key=lambda x: ((x.line or 0), x.bb)):
                if (call.path or "") != CHAR + "to_digit":
                    continue
                d = call.dest
                d = M.place_local(d) if not isinstance(d, int) else d
                al = {d}
                for l, ds in b.defs().items():
                    for x in ds:
                        if x[2] == "assign" and x[3][2][0] == "use" and M.op_local(x[3][2][1]) in al:
                            al.add(l)
                unwrapped = any(((u.path or "") in UNWRAPS or (u.path or "").endswith("TemporalUnwrap::temporal_unwrap"))
                                and u.args and M.op_local(u.args[0]) in al for u in calls)
                if unwrapped:
                    n += 1
                    out.append((f, n, _radix(call, b), call.line))
    return out


def decide(fx, crates, f, radix):
    cg = M.CallGraph(fx, crates)
    scope = [cg.fns[p] for p in cg.closure([f.path]) if p in cg.fns]
    suff, weak, unk = [], [], []
    for g in scope:
        s, w, u = tests_in(g)
        suff += [(n, r, g.path) for n, r in s]
        weak += [(n, g.path) for n, r in w]
        unk += [(n, g.path) for n, r in u]
    radix = radix if radix is not None else 10
    good = [x for x in suff if x[1] is not None and x[1] <= radix and not (x[0] == "is_ascii_hexdigit" and radix < 16)]
    too_wide = [x for x in suff if x not in good]
    if good:
        return "ok", "tested by %s in %s" % (good[0][0], good[0][2]), len(scope)
    if unk:
        return "undecided", "only unclassified character comparisons (%s)" % unk[0][1], len(scope)
    if weak or too_wide:
        w = (weak or [(x[0], x[2]) for x in too_wide])[0]
        return "bad", "the only character-class test on the way is `%s` (in %s), which accepts characters for which " \
                      "to_digit(%d) is None" % (w[0], w[1], radix), len(scope)
    return "undecided", "no character-class test in the function or its callees (validated elsewhere)", len(scope)
