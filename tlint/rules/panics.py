"""R8 — panic-construct inventory: every reachable panic construct is discharged by a reviewed entry."""
from .. import mirq as M

PANIC_FNS = ("core::panicking::", "std::rt::begin_panic", "core::option::expect_failed", "core::result::unwrap_failed",
             "core::option::unwrap_failed")
UNWRAPS = ("core::option::Option::<T>::unwrap", "core::option::Option::<T>::expect", "core::result::Result::<T, E>::unwrap",
           "core::result::Result::<T, E>::expect")


def site_kind(call):
    p = call.path or ""
    if p.startswith(PANIC_FNS):
        macros = [str(m) for m in call.macros if not str(m).startswith("$crate")]
        name = macros[-1] if macros else "panic"
        # a debug assertion written inside a user macro is still a debug assertion (not a panic named after the macro)
        dbg = [m for m in macros if m.startswith("debug_assert")]
        if dbg and not any(m in ("panic", "unreachable", "assert", "assert_eq", "assert_ne", "todo", "unimplemented") for m in macros):
            name = dbg[0]
        return "panic:" + name
    if p in UNWRAPS:
        return p.rsplit("::", 1)[-1]
    if p.endswith("TemporalUnwrap::temporal_unwrap"):
        return "temporal_unwrap"
    if p.endswith("error::TemporalError::assert"):
        return "assert-error"
    if p.endswith("ops::index::Index::index") or p.endswith("ops::index::IndexMut::index_mut"):
        return "index"
    return None


def inventory(fx, crates):
    """list of (fn, kind, ordinal, line, call)"""
    out = []
    for c in crates:
        for f in fx[c].fns:
            if f.mir is None:
                continue
            b = M.Body(f)
            counts = {}
            # source order: by line then block
            cs = sorted(b.calls(), key=lambda x: ((x.line or 0), x.bb))
            for call in cs:
                k = site_kind(call)
                if k is None:
                    continue
                counts[k] = counts.get(k, 0) + 1
                out.append((f, k, counts[k], call.line, call))
            # bounds checks on arrays/slices (`a[i]`)
            bc = 0
            for i, blk in enumerate(b.blocks):
                t = blk["t"]
                if t["k"] == "assert" and t["msg"].startswith("BoundsCheck"):
                    bc += 1
                    out.append((f, "bounds", bc, M.line_of(t.get("line")), t))
    return out
