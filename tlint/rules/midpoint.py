"""Lossy-midpoint rule: a tie decision must not compare a remainder with an integer-halved divisor.

`(x % d).cmp(&(d / 2))` (or <, >, ==) is wrong for every odd d: the true midpoint d/2 is not an
integer.  Accepted idioms: compare `2 * rem` with `d`, or compare `rem` with `d - rem`.
"""
from .common import hir_walk, node_line
from ..hireval import INT_BITS

RULE = "R9.lossy-midpoint"


def _is_rem(n):
    if n.get("k") == "bin" and n.get("op") == "%":
        return True
    if n.get("k") == "mcall" and n.get("name") in ("rem_euclid", "rem"):
        return True
    return False


def _contains(n, pred):
    return any(pred(x) for x in hir_walk(n) if isinstance(x, dict) and "k" in x)


def _is_half(n):
    return (n.get("k") == "bin" and n.get("op") == "/" and n.get("ty") in INT_BITS
            and n["b"].get("k") == "lit" and n["b"]["v"].get("int") == 2)


def find(fn):
    """yield (line, description) for each lossy midpoint comparison in fn's HIR"""
    if fn.hir is None:
        return
    for n in hir_walk(fn.hir):
        if not isinstance(n, dict):
            continue
        sides = None
        if n.get("k") == "bin" and n.get("op") in ("<", "<=", ">", ">=", "==", "!="):
            sides = (n["a"], n["b"])
        elif n.get("k") == "mcall" and n.get("name") in ("cmp", "partial_cmp") and len(n.get("args", [])) == 1:
            sides = (n["recv"], n["args"][0])
        if not sides:
            continue
        for x, y in (sides, sides[::-1]):
            if _contains(x, _is_rem) and _contains(y, _is_half) and not _contains(x, _is_half):
                yield node_line(n), "remainder compared with an integer-halved value"
                break


def check(run, fx, crates):
    run.rule(RULE, "no comparison (cmp / < / > / ==) has a remainder (% / rem_euclid) on one side and an integer "
                   "`/ 2` on the other: the midpoint of an odd increment is not an integer")
    n = 0
    for c in crates:
        for f in fx[c].fns:
            if f.hir is None:
                continue
            n += 1
            for line, what in find(f):
                run.bad(RULE, f.path, "%s in %s (wrong for every odd divisor: e.g. 2 vs 5/2=2 is a false tie)" %
                        (what, f.path), "%s:%s" % (f.file, line))
    run.ok(RULE, "scan", "%d function bodies scanned" % n, nontrivial=False)
    # positive control: the rule must recognise the textbook defect
    ctrl = {"k": "mcall", "name": "cmp", "recv": {"k": "bin", "op": "%", "a": {"k": "path"}, "b": {"k": "path"}, "ty": "i128"},
            "args": [{"k": "addr", "e": {"k": "bin", "op": "/", "ty": "i128", "a": {"k": "path"},
                                         "b": {"k": "lit", "v": {"int": 2}}}}], "l": 1}

    class _F:
        hir = {"value": ctrl}
    run.control(RULE, any(True for _ in find(_F)), "(x % d).cmp(&(d / 2))")
