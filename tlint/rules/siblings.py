"""sibling-agreement rules: two places that must do the same thing are compared with each other (no reference value)."""
from .. import hireval as H
from ..terms import show
from .common import hir_walk

CORE = "temporal_rs::builtins::core::"


def rounding_signature(fx, f):
    """set of (increment, rounding mode) pairs of the IncrementRounder uses in f, read from the type-checked HIR"""
    out = set()
    for n in hir_walk(f.hir):
        if not (isinstance(n, dict) and n.get("k") == "mcall" and n.get("name") == "round"
                and "IncrementRounder" in str(n.get("full") or n.get("resolved") or "")):
            continue
        ev = H.Evaluator(fx)
        ev.inline = lambda p: True
        mode = inc = "?"
        try:
            mode = show(ev.ev(n["args"][0], {}))
        except Exception:
            pass
        for m in hir_walk(n["recv"]):
            if isinstance(m, dict) and m.get("k") == "call" and "from_signed_num" in str(m.get("fn")):
                # the increment is the innermost integer literal / constant of the second argument
                lits = [x for x in hir_walk(m["args"][1]) if isinstance(x, dict) and (x.get("k") == "lit" or
                        (x.get("k") == "path" and isinstance(x.get("val"), int)))]
                if lits:
                    l = lits[0]
                    inc = l["v"].get("int") if l.get("k") == "lit" and isinstance(l.get("v"), dict) else l.get("val")
        out.add((inc, mode))
    return out


def check_offset_rounding(run, fx):
    rule = "R6.offset-minute-rounding-agreement"
    run.rule(rule, "the formatter of a UTC offset (nanoseconds_to_formattable_offset_minutes) and the matcher that compares a "
                   "string's minute-precision offset with the zone's offset (interpret_isodatetime_offset) round to whole "
                   "minutes with the same kernel, increment and mode - otherwise a printed offset is not accepted back")
    rs = fx["temporal_rs"]
    a = rs.fn(CORE + "zoneddatetime::nanoseconds_to_formattable_offset_minutes")
    b = rs.fn(CORE + "zoneddatetime::interpret_isodatetime_offset")
    if a is None or b is None:
        run.anchor_missing(rule, "sites", "formatter or matcher not found")
        return
    sa, sb = rounding_signature(fx, a), rounding_signature(fx, b)
    if not sa and not sb:
        run.ok(rule, "formatter/matcher", "neither site uses the rounding kernel directly: not decided", a.loc, nontrivial=False)
        return
    run.check(sa == sb and len(sa) == 1, rule, "formatter/matcher", "both round with %s" % sorted(sa),
              "the formatter rounds offsets with %s but the matcher with %s (an empty set means the shared rounding kernel is not "
              "used there)" % (sorted(sa), sorted(sb)), a.loc)
