"""sibling-agreement rules: two places that must do the same thing are compared with each other (no reference value)."""
from .. import hireval as H
from ..terms import show
from .common import hir_walk

CORE = "temporal_rs::builtins::core::"


def rounding_signature(fx, f):
    """set of (increment, rounding mode) pairs of the IncrementRounder uses in f, read from the type-checked HIR"""
    out = set()
    for n in hir_walk(f.hir):
        if not (isinstance(n, dict) and n.get("k") == "mcall" and n.get("name") == "round"
                and "IncrementRounder" in str(n.get("full") or n.get("resolved") or "")):
            continue
        ev = H.Evaluator(fx)
        ev.inline = lambda p: True
        mode = inc = "?"
        try:
            mode = show(ev.ev(n["args"][0], {}))
        except Exception:
            pass
        for m in hir_walk(n["recv"]):
            if isinstance(m, dict) and m.get("k") == "call" and "from_signed_num" in str(m.get("fn")):
                # the increment is the innermost integer literal / constant of the second argument
                lits = [x for x in hir_walk(m["args"][1]) if isinstance(x, dict) and (x.get("k") == "lit" or
                        (x.get("k") == "path" and isinstance(x.get("val"), int)))]
                if lits:
                    l = lits[0]
                    inc = l["v"].get("int") if l.get("k") == "lit" and isinstance(l.get("v"), dict) else l.get("val")
        out.add((inc, mode))
    return out


def check_offset_rounding(run, fx):
    rule = "R6.offset-minute-rounding-agreement"
    run.rule(rule, "the formatter of a UTC offset (nanoseconds_to_formattable_offset_minutes) and the matcher that compares a "
                   "string's minute-precision offset with the zone's offset (interpret_isodatetime_offset) round to whole "
                   "minutes with the same kernel, increment and mode - otherwise a printed offset is not accepted back")
    rs = fx["temporal_rs"]
    a = rs.fn(CORE + "zoneddatetime::nanoseconds_to_formattable_offset_minutes")
    b = rs.fn(CORE + "zoneddatetime::interpret_isodatetime_offset")
    if a is None or b is None:
        run.anchor_missing(rule, "sites", "formatter or matcher not found")
        return
    sa, sb = rounding_signature(fx, a), rounding_signature(fx, b)
    if not sa and not sb:
        run.ok(rule, "formatter/matcher", "neither site uses the rounding kernel directly: not decided", a.loc, nontrivial=False)
        return
    run.check(sa == sb and len(sa) == 1, rule, "formatter/matcher", "both round with %s" % sorted(sa),
              "the formatter rounds offsets with %s but the matcher with %s (an empty set means the shared rounding kernel is not "
              "used there)" % (sorted(sa), sorted(sb)), a.loc)


def check_day_carry(run, fx):
    rule = "R6.disambiguation-day-carry"
    run.rule(rule, "in DisambiguatePossibleEpochNanoseconds both the `earlier` and the `later` branch balance the date with "
                   "day + (day carry of the shifted time): the carry already has the sign of the shift, so both branches add it")
    f = fx["temporal_rs"].fn(CORE + "timezone::TimeZone::disambiguate_possible_epoch_nanos")
    if f is None:
        run.anchor_missing(rule, "disambiguate_possible_epoch_nanos", "not found")
        return
    ops = []
    for n in hir_walk(f.hir):
        if isinstance(n, dict) and n.get("k") == "call" and str(n.get("fn", "")).endswith("IsoDate::balance") and len(n.get("args", [])) == 3:
            a = n["args"][2]
            if a.get("k") == "bin":
                names = {x.get("name") for x in hir_walk(a) if isinstance(x, dict) and x.get("k") == "field"}
                ops.append((a.get("op"), "day" in names, "0" in names))
            else:
                ops.append((a.get("k"), False, False))
    if len(ops) < 2:
        run.anchor_missing(rule, "balance-calls", "expected two IsoDate::balance calls (earlier / later), found %d" % len(ops), f.loc)
        return
    run.check(all(o == ("+", True, True) for o in ops), rule, "earlier/later", "%d branches: day + carry" % len(ops),
              "the branches balance the date with %s; expected `day + <shifted time>.0` in both (a carry that is subtracted moves "
              "the result by two days when the shift crosses midnight)" % [o[0] for o in ops], f.loc)
