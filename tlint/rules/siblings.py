"""sibling-agreement rules: two places that must do the same thing are compared with each other (no reference value)."""
from .. import hireval as H
from ..terms import show
from .common import hir_walk

CORE = "temporal_rs::builtins::core::"


def rounding_signature(fx, f):
    """set of (increment, rounding mode) pairs of the IncrementRounder uses in f, read from the type-checked HIR"""
    out = set()
    # the function itself and the private helpers introduced after the baseline that it calls (an extracted helper takes
    # the rounding call with it)
    from .. import baseline
    bodies, seen, todo = [], set(), [f]
    while todo and len(bodies) < 8:
        g = todo.pop()
        if g is None or g.hir is None or g.path in seen:
            continue
        seen.add(g.path)
        bodies.append(g.hir)
        for n in hir_walk(g.hir):
            if isinstance(n, dict) and n.get("k") in ("call", "mcall"):
                p = str(n.get("resolved") or n.get("full") or n.get("fn") or "")
                if p.startswith("temporal_rs::") and baseline.is_new(p):
                    todo.append(fx["temporal_rs"].fn(p))
    for n in (x for b in bodies for x in hir_walk(b)):
        if not (isinstance(n, dict) and n.get("k") == "mcall" and n.get("name") == "round"
                and "IncrementRounder" in str(n.get("full") or n.get("resolved") or "")):
            continue
        ev = H.Evaluator(fx)
        ev.inline = lambda p: True
        mode = inc = "?"
        try:
            mode = show(ev.ev(n["args"][0], {}))
        except Exception:
            pass
        for m in hir_walk(n["recv"]):
            if isinstance(m, dict) and m.get("k") == "call" and "from_signed_num" in str(m.get("fn")):
                # the increment is the innermost integer literal / constant of the second argument
                lits = [x for x in hir_walk(m["args"][1]) if isinstance(x, dict) and (x.get("k") == "lit" or
                        (x.get("k") == "path" and isinstance(x.get("val"), int)))]
                if lits:
                    l = lits[0]
                    inc = l["v"].get("int") if l.get("k") == "lit" and isinstance(l.get("v"), dict) else l.get("val")
        out.add((inc, mode))
    return out


def check_offset_rounding(run, fx):
    rule = "R6.offset-minute-rounding-agreement"
    run.rule(rule, "the formatter of a UTC offset (nanoseconds_to_formattable_offset_minutes) and the matcher that compares a "
                   "string's minute-precision offset with the zone's offset (interpret_isodatetime_offset) round to whole "
                   "minutes with the same kernel, increment and mode - otherwise a printed offset is not accepted back")
    rs = fx["temporal_rs"]
    a = rs.fn(CORE + "zoneddatetime::nanoseconds_to_formattable_offset_minutes")
    b = rs.fn(CORE + "zoneddatetime::interpret_isodatetime_offset")
    if a is None or b is None:
        run.anchor_missing(rule, "sites", "formatter or matcher not found")
        return
    sa, sb = rounding_signature(fx, a), rounding_signature(fx, b)
    if not sa or not sb or any("?" in (str(i), str(m)) for i, m in sa | sb):
        run.ok(rule, "formatter/matcher", "the rounding kernel (or its increment / mode) is not recognisable at one of the two "
                                          "sites (%s / %s): not decided" % (sorted(sa), sorted(sb)), a.loc, nontrivial=False)
        return
    run.check(sa == sb and len(sa) == 1, rule, "formatter/matcher", "both round with %s" % sorted(sa),
              "the formatter rounds offsets with %s but the matcher with %s (an empty set means the shared rounding kernel is not "
              "used there)" % (sorted(sa), sorted(sb)), a.loc)


def check_day_carry(run, fx):
    rule = "R6.disambiguation-day-carry"
    run.rule(rule, "in DisambiguatePossibleEpochNanoseconds, for `earlier` and for `later` (no candidate): the date handed to "
                   "BalanceISODate is day + (day carry of the shifted time), the carry entering with a plus sign - it already "
                   "has the sign of the shift")
    f = fx["temporal_rs"].fn(CORE + "timezone::TimeZone::disambiguate_possible_epoch_nanos")
    if f is None:
        run.anchor_missing(rule, "disambiguate_possible_epoch_nanos", "not found")
        return
    from ..terms import walk, show
    D = "temporal_rs::options::Disambiguation::"
    lst = next((p["name"] for p in f.params if p["ty"].startswith("alloc::vec::Vec<") or p["ty"].lstrip("&").startswith("[")), None)
    dpi = next((i for i, p in enumerate(f.params) if p["ty"].endswith("options::Disambiguation")), None)
    if lst is None or dpi is None:
        run.anchor_missing(rule, "params", "candidate list / disambiguation parameters not found", f.loc)
        return

    def signed_leaves(t, sign=1):
        if isinstance(t, H.Sym) and t.what in ("bin+", "bin-"):
            yield from signed_leaves(t.parts[0], sign)
            yield from signed_leaves(t.parts[1], sign if t.what == "bin+" else -sign)
        elif isinstance(t, H.Sym) and t.what == "un-":
            yield from signed_leaves(t.parts[0], -sign)
        elif isinstance(t, H.Sym) and t.what in ("cast", "into") or (isinstance(t, H.Sym) and t.what == "call" and
                                                                 str(t.parts[0]).endswith(("From::from", "Into::into")) and t.parts[1]):
            inner = t.parts[0] if t.what != "call" else t.parts[1][0]
            yield from signed_leaves(inner, sign)
        else:
            yield sign, t
    for d in ("Earlier", "Later"):
        ev = H.Evaluator(fx)
        ev.inline = lambda p: p.startswith("temporal_rs::error::")
        args = [H.Sym("param", (p["name"],)) for p in f.params]
        args[dpi] = H.V(D + d, ())
        args[[p["name"] for p in f.params].index(lst)] = H.T(())
        try:
            paths = ev.paths(f, args, max_paths=200)
        except H.Budget:
            run.ok(rule, d, "too many paths: not decided", f.loc, nontrivial=False)
            continue
        carries = []
        for dec, res, tr in paths:
            if any(c.startswith("debug_assertion[") and ch is True for c, ch in dec):
                continue
            for c in tr:
                if str(c.parts[0]).endswith("IsoDate::balance") and len(c.parts[1]) == 3:
                    leaves = list(signed_leaves(c.parts[1][2]))
                    carry = [(sg, t) for sg, t in leaves if any(isinstance(x, H.Sym) and x.what == "call" and
                                                                 str(x.parts[0]).endswith("IsoTime::add") for x in walk(t))]
                    day = [(sg, t) for sg, t in leaves if "day" in show(t) and (sg, t) not in carry]
                    carries.append((tuple(sg for sg, _ in carry), tuple(sg for sg, _ in day), show(c.parts[1][2])[:90]))
        if not carries:
            run.ok(rule, d, "no BalanceISODate call with a recognisable day term on the no-candidate path: not decided", f.loc,
                   nontrivial=False)
            continue
        bad = [c for c in carries if c[0] != (1,) or c[1] != (1,)]
        run.check(not bad, rule, d, "day + carry of the shifted time",
                  "with disambiguation %s the date is balanced with `%s`: expected day + <carry of the shifted time> (a carry that "
                  "is subtracted moves the result by two days when the shift crosses midnight)" % (d, bad[0][2] if bad else ""), f.loc)


COMPONENTS = {"hour", "minute", "second", "fraction", "nanosecond", "millisecond", "microsecond"}


def _let_defs(f):
    defs = {}
    for x in hir_walk(f.hir):
        if isinstance(x, dict) and x.get("k") == "let" and isinstance(x.get("pat"), dict) and x["pat"].get("k") == "bind" \
                and x.get("init") is not None:
            defs.setdefault(x["pat"]["name"], x["init"])
    return defs


def _components(node, defs, depth=0, seen=None):
    """names of offset-record components an expression is computed from (through let-bound locals)"""
    seen = seen if seen is not None else set()
    out = set()
    for x in hir_walk(node):
        if not isinstance(x, dict):
            continue
        if x.get("k") == "field" and x.get("name") in COMPONENTS:
            out.add(x["name"])
        elif x.get("k") == "path" and isinstance(x.get("res"), dict) and x["res"].get("local") in defs and depth < 4:
            nm = x["res"]["local"]
            if nm not in seen:
                seen.add(nm)
                out |= _components(defs[nm], defs, depth + 1, seen)
    return out


def check_offset_sign(run, fx):
    rule = "R6.offset-sign-covers-all-components"
    run.rule(rule, "wherever a parsed UTC-offset record is turned into a signed quantity, the sign multiplies a sum built from "
                   "every component of the record that enters the arithmetic of that function (hours, minutes, seconds, "
                   "fraction): a component added outside the product keeps a positive sign in negative offsets")
    n = 0
    for f in fx["temporal_rs"].fns:
        if f.hir is None or f.kind == "Closure":
            continue
        defs = _let_defs(f)
        for x in hir_walk(f.hir):
            if not (isinstance(x, dict) and x.get("k") == "bin" and x.get("op") == "*"):
                continue
            for side in ("a", "b"):
                names = {y.get("name") for y in hir_walk(x[side]) if isinstance(y, dict) and y.get("k") == "field"}
                if "sign" not in names:
                    continue
                inside = _components(x["b" if side == "a" else "a"], defs)
                # every component that takes part in some + - * of the function
                arith = set()
                for y in hir_walk(f.hir):
                    if isinstance(y, dict) and y.get("k") == "bin" and y.get("op") in ("+", "-", "*"):
                        arith |= _components(y, defs)
                n += 1
                key = f.path.replace("temporal_rs::builtins::core::", "").replace("temporal_rs::", "")
                run.check(inside >= arith and inside, rule, key, "sign x (%s)" % ", ".join(sorted(inside)),
                          "%s: the sign multiplies only (%s) but (%s) enter the offset arithmetic: %s stay(s) unsigned" %
                          (f.name, ", ".join(sorted(inside)), ", ".join(sorted(arith)), ", ".join(sorted(arith - inside))),
                          "%s:%s" % (f.file, x.get("l") or f.line))
    run.analysed["offset_sign_sites"] = n
    if n < 3:
        run.anchor_missing(rule, "sites", "only %d offset sign products found (expected >= 3)" % n)


def check_offset_minutes_by_value(run, fx):
    """C11 / C13: offsets are rounded to whole minutes half-expand, by the formatter and by the matcher alike"""
    from .common import fold, is_ok, is_err, err_kind
    rule = "R1.offset-minute-rounding"
    run.rule(rule, "nanoseconds_to_formattable_offset_minutes rounds to whole minutes half-expand (ties away from zero, both "
                   "signs) and splits the result into sign / hours / minutes; interpret_isodatetime_offset, matching a "
                   "minute-precision offset against a zone offset with seconds, accepts exactly the half-expand rounding of the "
                   "zone offset. Both folded on values just below, at and just above a tie, for both signs")
    rs = fx["temporal_rs"]
    fmt = rs.fn(CORE + "zoneddatetime::nanoseconds_to_formattable_offset_minutes")
    MIN = 60_000_000_000

    def half_expand(ns):
        q, r = divmod(abs(ns), MIN)
        m = q + (1 if 2 * r >= MIN else 0)
        return -m if ns < 0 else m
    if fmt is None:
        run.anchor_missing(rule, "formatter", "nanoseconds_to_formattable_offset_minutes not found")
    else:
        for ns in (0, 1, MIN // 2 - 1, MIN // 2, MIN // 2 + 1, MIN - 1, MIN, 90 * 10 ** 9, 3600 * 10 ** 9 + MIN // 2, 86_399 * 10 ** 9):
            for v in ((ns, -ns) if ns else (0,)):
                got = fold(H.Evaluator(fx), fmt, [v])
                m = half_expand(v)
                want = H.T((H.V("temporal_rs::Sign::" + ("Negative" if m < 0 else "Positive"), ()), abs(m) // 60, abs(m) % 60))
                key = "formatter/%d" % v
                if got[0] == "opaque":
                    run.ok(rule, key, "does not fold: not decided", fmt.loc, nontrivial=False)
                    continue
                run.check(got == ("ok", want), rule, key, "%d ns -> %s" % (v, show(want)),
                          "an offset of %d ns is formatted as %s; rounded half-expand to minutes it is %s" %
                          (v, show(got[1])[:60] if got[0] != "err" else got, show(want)), fmt.loc)
    mt = rs.fn(CORE + "zoneddatetime::interpret_isodatetime_offset")
    if mt is None:
        run.anchor_missing(rule, "matcher", "interpret_isodatetime_offset not found")
        return
    names = [p["name"] for p in mt.params]
    E = "temporal_rs::epoch_nanoseconds::EpochNanoseconds"
    date = H.S("temporal_rs::iso::IsoDate", (("year", 1970), ("month", 1), ("day", 2)))
    time = H.S("temporal_rs::iso::IsoTime", tuple((n, 0) for n in ("hour", "minute", "second", "millisecond", "microsecond", "nanosecond")))
    utc = 86_400 * 10 ** 9                # 1970-01-02T00:00 as a UTC reading
    for zone_off in (MIN // 2 - 1, MIN // 2, MIN // 2 + 1, MIN + MIN // 2, -(MIN // 2 - 1), -(MIN // 2), -(MIN // 2 + 1), -(MIN + MIN // 2)):
        cand = H.V(E, (utc - zone_off,))
        for given_min in sorted({half_expand(zone_off), half_expand(zone_off) - 1, half_expand(zone_off) + 1, 0}):
            ev = H.Evaluator(fx)
            ev.stubs["get_possible_epoch_ns_for"] = lambda a, cand=cand: H.V(H.OK, (H.T((cand,)),))
            args = {"date": date, "time": H.V(H.SOME, (time,)), "is_exact": False, "offset_nanos": H.V(H.SOME, (given_min * MIN,)),
                    "timezone": H.Sym("param", ("timezone",)), "disambiguation": H.V("temporal_rs::options::Disambiguation::Compatible", ()),
                    "offset_option": H.V("temporal_rs::options::OffsetDisambiguation::Reject", ()), "match_minutes": True,
                    "provider": H.Sym("param", ("provider",))}
            if set(names) != set(args):
                run.ok(rule, "matcher", "the parameters of interpret_isodatetime_offset changed (%s): not decided" % names, mt.loc,
                       nontrivial=False)
                return
            got = fold(ev, mt, [args[n] for n in names])
            key = "matcher/zone%+d/given%+dmin" % (zone_off, given_min)
            if got[0] == "opaque":
                run.ok(rule, key, "does not fold: not decided", mt.loc, nontrivial=False)
                continue
            should = given_min == half_expand(zone_off)
            ok = (got == ("ok", cand)) if should else (got == ("err", "Range"))
            run.check(ok, rule, key, "zone offset %+d ns %s %+d min" % (zone_off, "matches" if should else "does not match", given_min),
                      "a zone offset of %+d ns and a written offset of %+d min: the matcher gives %s; half-expand rounding of the zone "
                      "offset is %+d min, so it must %s" % (zone_off, given_min, got[0] if got[0] != "ok" else "a match",
                                                          half_expand(zone_off), "match" if should else "be rejected"), mt.loc)
    run.exhaustive_tables.append("offset minute rounding (tie boundaries x sign, formatter and matcher)")
