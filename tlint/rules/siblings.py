"""sibling-agreement rules: two places that must do the same thing are compared with each other (no reference value)."""
from .. import hireval as H
from ..terms import show
from .common import hir_walk

CORE = "temporal_rs::builtins::core::"


def rounding_signature(fx, f):
    """set of (increment, rounding mode) pairs of the IncrementRounder uses in f, read from the type-checked HIR"""
    out = set()
    for n in hir_walk(f.hir):
        if not (isinstance(n, dict) and n.get("k") == "mcall" and n.get("name") == "round"
                and "IncrementRounder" in str(n.get("full") or n.get("resolved") or "")):
            continue
        ev = H.Evaluator(fx)
        ev.inline = lambda p: True
        mode = inc = "?"
        try:
            mode = show(ev.ev(n["args"][0], {}))
        except Exception:
            pass
        for m in hir_walk(n["recv"]):
            if isinstance(m, dict) and m.get("k") == "call" and "from_signed_num" in str(m.get("fn")):
                # the increment is the innermost integer literal / constant of the second argument
                lits = [x for x in hir_walk(m["args"][1]) if isinstance(x, dict) and (x.get("k") == "lit" or
                        (x.get("k") == "path" and isinstance(x.get("val"), int)))]
                if lits:
                    l = lits[0]
                    inc = l["v"].get("int") if l.get("k") == "lit" and isinstance(l.get("v"), dict) else l.get("val")
        out.add((inc, mode))
    return out


def check_offset_rounding(run, fx):
    rule = "R6.offset-minute-rounding-agreement"
    run.rule(rule, "the formatter of a UTC offset (nanoseconds_to_formattable_offset_minutes) and the matcher that compares a "
                   "string's minute-precision offset with the zone's offset (interpret_isodatetime_offset) round to whole "
                   "minutes with the same kernel, increment and mode - otherwise a printed offset is not accepted back")
    rs = fx["temporal_rs"]
    a = rs.fn(CORE + "zoneddatetime::nanoseconds_to_formattable_offset_minutes")
    b = rs.fn(CORE + "zoneddatetime::interpret_isodatetime_offset")
    if a is None or b is None:
        run.anchor_missing(rule, "sites", "formatter or matcher not found")
        return
    sa, sb = rounding_signature(fx, a), rounding_signature(fx, b)
    if not sa and not sb:
        run.ok(rule, "formatter/matcher", "neither site uses the rounding kernel directly: not decided", a.loc, nontrivial=False)
        return
    run.check(sa == sb and len(sa) == 1, rule, "formatter/matcher", "both round with %s" % sorted(sa),
              "the formatter rounds offsets with %s but the matcher with %s (an empty set means the shared rounding kernel is not "
              "used there)" % (sorted(sa), sorted(sb)), a.loc)


def check_day_carry(run, fx):
    rule = "R6.disambiguation-day-carry"
    run.rule(rule, "in DisambiguatePossibleEpochNanoseconds both the `earlier` and the `later` branch balance the date with "
                   "day + (day carry of the shifted time): the carry already has the sign of the shift, so both branches add it")
    f = fx["temporal_rs"].fn(CORE + "timezone::TimeZone::disambiguate_possible_epoch_nanos")
    if f is None:
        run.anchor_missing(rule, "disambiguate_possible_epoch_nanos", "not found")
        return
    ops = []
    for n in hir_walk(f.hir):
        if isinstance(n, dict) and n.get("k") == "call" and str(n.get("fn", "")).endswith("IsoDate::balance") and len(n.get("args", [])) == 3:
            a = n["args"][2]
            if a.get("k") == "bin":
                names = {x.get("name") for x in hir_walk(a) if isinstance(x, dict) and x.get("k") == "field"}
                ops.append((a.get("op"), "day" in names, "0" in names))
            else:
                ops.append((a.get("k"), False, False))
    if len(ops) < 2:
        run.anchor_missing(rule, "balance-calls", "expected two IsoDate::balance calls (earlier / later), found %d" % len(ops), f.loc)
        return
    run.check(all(o == ("+", True, True) for o in ops), rule, "earlier/later", "%d branches: day + carry" % len(ops),
              "the branches balance the date with %s; expected `day + <shifted time>.0` in both (a carry that is subtracted moves "
              "the result by two days when the shift crosses midnight)" % [o[0] for o in ops], f.loc)


COMPONENTS = {"hour", "minute", "second", "fraction", "nanosecond", "millisecond", "microsecond"}


def _let_defs(f):
    defs = {}
    for x in hir_walk(f.hir):
        if isinstance(x, dict) and x.get("k") == "let" and isinstance(x.get("pat"), dict) and x["pat"].get("k") == "bind" \
                and x.get("init") is not None:
            defs.setdefault(x["pat"]["name"], x["init"])
    return defs


def _components(node, defs, depth=0, seen=None):
    """names of offset-record components an expression is computed from (through let-bound locals)"""
    seen = seen if seen is not None else set()
    out = set()
    for x in hir_walk(node):
        if not isinstance(x, dict):
            continue
        if x.get("k") == "field" and x.get("name") in COMPONENTS:
            out.add(x["name"])
        elif x.get("k") == "path" and isinstance(x.get("res"), dict) and x["res"].get("local") in defs and depth < 4:
            nm = x["res"]["local"]
            if nm not in seen:
                seen.add(nm)
                out |= _components(defs[nm], defs, depth + 1, seen)
    return out


def check_offset_sign(run, fx):
    rule = "R6.offset-sign-covers-all-components"
    run.rule(rule, "wherever a parsed UTC-offset record is turned into a signed quantity, the sign multiplies a sum built from "
                   "every component of the record that enters the arithmetic of that function (hours, minutes, seconds, "
                   "fraction): a component added outside the product keeps a positive sign in negative offsets")
    n = 0
    for f in fx["temporal_rs"].fns:
        if f.hir is None or f.kind == "Closure":
            continue
        defs = _let_defs(f)
        for x in hir_walk(f.hir):
            if not (isinstance(x, dict) and x.get("k") == "bin" and x.get("op") == "*"):
                continue
            for side in ("a", "b"):
                names = {y.get("name") for y in hir_walk(x[side]) if isinstance(y, dict) and y.get("k") == "field"}
                if "sign" not in names:
                    continue
                inside = _components(x["b" if side == "a" else "a"], defs)
                # every component that takes part in some + - * of the function
                arith = set()
                for y in hir_walk(f.hir):
                    if isinstance(y, dict) and y.get("k") == "bin" and y.get("op") in ("+", "-", "*"):
                        arith |= _components(y, defs)
                n += 1
                key = f.path.replace("temporal_rs::builtins::core::", "").replace("temporal_rs::", "")
                run.check(inside >= arith and inside, rule, key, "sign x (%s)" % ", ".join(sorted(inside)),
                          "%s: the sign multiplies only (%s) but (%s) enter the offset arithmetic: %s stay(s) unsigned" %
                          (f.name, ", ".join(sorted(inside)), ", ".join(sorted(arith)), ", ".join(sorted(arith - inside))),
                          "%s:%s" % (f.file, x.get("l") or f.line))
    run.analysed["offset_sign_sites"] = n
    if n < 3:
        run.anchor_missing(rule, "sites", "only %d offset sign products found (expected >= 3)" % n)
