"""R6 — typestate of range-checked values.

For every function whose return type contains a guarded type G (PlainDate, PlainDateTime, PlainYearMonth,
ZonedDateTime, Instant, EpochNanoseconds), every success path must return a value that is *validated*:
produced by a validating constructor, by another function that returns G (which is checked on its own), taken
from a value that already has type G (type invariant), or built with `new_unchecked` from a payload that is
itself validated or was checked against the limits on that path.  Combining separately valid parts (a valid
date and a valid time) is NOT validated.
"""
import re
from .. import hireval as H
from ..terms import show, walk
from .common import is_err

CORE = "temporal_rs::builtins::core::"
GUARDED = {
    CORE + "date::PlainDate": "temporal_rs::iso::IsoDate",
    CORE + "datetime::PlainDateTime": "temporal_rs::iso::IsoDateTime",
    CORE + "year_month::PlainYearMonth": "temporal_rs::iso::IsoDate",
    CORE + "zoneddatetime::ZonedDateTime": CORE + "instant::Instant",
    CORE + "instant::Instant": "temporal_rs::epoch_nanoseconds::EpochNanoseconds",
    "temporal_rs::epoch_nanoseconds::EpochNanoseconds": "i128",
}
# functions whose *result* is limit-checked (path suffix -> what it validates)
VALIDATING = {
    "iso::IsoDateTime::new": "date-time limits", "iso::IsoDateTime::round": "returns through IsoDateTime::new",
    "iso::IsoDate::new_with_overflow": "date limits",
    "EpochNanoseconds as core::convert::TryFrom<i128>>::try_from": "instant limits",
    "EpochNanoseconds as core::convert::TryFrom<u128>>::try_from": "instant limits",
    "EpochNanoseconds as core::convert::TryFrom<f64>>::try_from": "instant limits",
    "iso::utc_epoch_nanos": "returns through EpochNanoseconds::try_from",
    "iso::IsoDateTime::as_nanoseconds": "returns through EpochNanoseconds::try_from",
    "iso::IsoDate::as_nanoseconds": "returns through EpochNanoseconds::try_from",
}
# producers trusted with a reason (one line each)
TRUSTED = {
    "iso::IsoDateTime::from_epoch_nanos": "a valid instant shifted by a UTC offset (< 24 h) lies inside the date-time limits, "
                                          "which are the instant limits widened by one day",
    "timezone::TimeZone::get_iso_datetime_for": "forwards IsoDateTime::from_epoch_nanos of a valid instant",
}
UNCHECKED_PRODUCERS = ("::new_unchecked", "::balance", "::regulate", "::add_date_duration", "::default")
LIMIT_CHECKS = ("is_within_limits", "iso_dt_within_valid_limits", "year_month_within_limits", "is_valid_epoch_nanos",
                "is_valid_day_range")


def strip_ty(t):
    t = t.strip()
    while True:
        m = re.match(r"^(?:core::result::Result|core::option::Option|alloc::boxed::Box|alloc::vec::Vec)<(.*)>$", t)
        if not m:
            return t.lstrip("&")
        inner = m.group(1)
        # first generic argument
        depth = 0
        for i, ch in enumerate(inner):
            if ch == "<":
                depth += 1
            elif ch == ">":
                depth -= 1
            elif ch == "," and depth == 0:
                inner = inner[:i]
                break
        t = inner.strip()


def unwrap(t):
    while True:
        if isinstance(t, H.V) and t.path in (H.OK, H.SOME) and len(t.args) == 1:
            t = t.args[0]
        elif isinstance(t, H.Sym) and t.what in ("try", "elem") and t.parts:
            t = t.parts[0]
        elif isinstance(t, H.Sym) and t.what == "pat":
            t = t.parts[1]
        elif isinstance(t, H.Sym) and t.what == "call" and str(t.parts[0]).endswith(("::clone", "::to_owned")) and len(t.parts[1]) == 1:
            t = t.parts[1][0]
        else:
            return t


def rooted_in_param(t):
    """is t a (field chain of a) parameter / receiver?"""
    while isinstance(t, H.Sym) and t.what == "field":
        t = t.parts[0]
    return isinstance(t, H.Sym) and t.what == "param"


class Typestate:
    def __init__(self, fx):
        self.fx = fx
        self.rs = fx["temporal_rs"]
        self.returns = {}     # fn path -> guarded type it returns
        for f in self.rs.fns:
            if f.kind in ("Fn", "AssocFn") and f.ret:
                st = strip_ty(f.ret)
                if st in GUARDED:
                    self.returns[f.path] = st

    def checked_on_path(self, term, decisions):
        s = show(term)
        for cond, choice in decisions:
            if cond.startswith("debug_assertion["):
                continue
            if not any(k in cond for k in LIMIT_CHECKS):
                continue
            neg = cond.startswith("un![")
            passed = (choice is False) if neg else (choice is True)
            if passed and (s in cond or (len(s) > 60 and s[:60] in cond)):
                return True
        return False

    def classify_payload(self, x, decisions, depth=0):
        x = unwrap(x)
        if rooted_in_param(x):
            return ("ok", "field of a value that already has a checked type")
        if isinstance(x, H.Sym) and x.what == "call":
            p = str(x.parts[0])
            for suf, why in VALIDATING.items():
                if p.endswith(suf):
                    return ("ok", "validated by %s (%s)" % (suf, why))
            for suf, why in TRUSTED.items():
                if p.endswith(suf):
                    return ("ok", "trusted producer %s" % suf)
            if p in self.returns:
                return ("ok", "result of %s (checked on its own)" % p.rsplit("::", 1)[-1])
            if p.endswith("convert::From::from") or p.endswith("convert::Into::into") or "as core::convert::From<" in p:
                if len(x.parts[1]) == 1:
                    return self.classify_payload(x.parts[1][0], decisions, depth + 1)
            if p.endswith("Instant::epoch_nanoseconds") or p.endswith("::as_i128") or p.endswith("Instant::as_i128"):
                return ("ok", "payload of a valid instant")
            if self.checked_on_path(x, decisions):
                return ("ok", "limit check decided on this path")
            if p.endswith(UNCHECKED_PRODUCERS):
                return ("bad", "built by %s without a limit check on this path" % p.rsplit("::", 2)[-2:])
            return ("unknown", "result of %s" % p.rsplit("::", 1)[-1])
        if isinstance(x, (H.V, H.S)):
            pth = x.path
            if pth in GUARDED:
                inner = x.args[0] if isinstance(x, H.V) and x.args else (x.fields[0][1] if isinstance(x, H.S) and x.fields else None)
                if inner is None:
                    return ("unknown", "empty constructor")
                return self.classify_payload(inner, decisions, depth + 1)
            if self.checked_on_path(x, decisions):
                return ("ok", "limit check decided on this path")
            return ("bad", "assembled from parts (%s) without a limit check on this path" % pth.rsplit("::", 1)[-1])
        if isinstance(x, H.Sym) and x.what in ("ite", "phi", "match"):
            outs = []
            for part in x.parts[1:] if x.what == "ite" else x.parts:
                if isinstance(part, tuple) and not isinstance(part, (H.V, H.S, H.T, H.Sym)):
                    for q in part:
                        outs.append(self.classify_payload(q.parts[1] if isinstance(q, H.Sym) and q.what == "arm" else q,
                                                          decisions, depth + 1))
                else:
                    outs.append(self.classify_payload(part, decisions, depth + 1))
            bad = [o for o in outs if o[0] == "bad"]
            return bad[0] if bad else (("unknown", "branches") if any(o[0] == "unknown" for o in outs) else ("ok", "all branches"))
        if self.checked_on_path(x, decisions):
            return ("ok", "limit check decided on this path")
        if isinstance(x, H.Sym) and x.what.startswith("bin"):
            return ("bad", "computed value (%s) without a limit check on this path" % show(x)[:60])
        return ("unknown", show(x)[:60])

    def classify_result(self, t, g, decisions):
        t = unwrap(t)
        if rooted_in_param(t):
            return ("ok", "value that already has the checked type")
        if isinstance(t, H.Sym) and t.what == "call":
            p = str(t.parts[0])
            if p.endswith("::new_unchecked") and p.rsplit("::", 1)[0] == g:
                return self.classify_payload(t.parts[1][0], decisions)
            if p in self.returns:
                return ("ok", "result of %s (checked on its own)" % p.rsplit("::", 1)[-1])
            for suf, why in VALIDATING.items():
                if p.endswith(suf):
                    return ("ok", "validated by %s" % suf)
            if "as core::convert::From<" in p or p.endswith("convert::From::from") or p.endswith("convert::Into::into"):
                # conversion between guarded types: the source must be valid for the target's limits
                tgt = self.rs.fn(p)
                if tgt is not None and tgt.path in self.returns:
                    return ("ok", "result of %s (checked on its own)" % p.rsplit("::", 1)[-1])
                if len(t.parts[1]) == 1:
                    return self.classify_payload(t.parts[1][0], decisions)
            return ("unknown", "result of %s" % p.rsplit("::", 1)[-1])
        if isinstance(t, (H.V, H.S)) and t.path == g:
            inner = t.args[0] if isinstance(t, H.V) and t.args else (t.fields[0][1] if isinstance(t, H.S) and t.fields else None)
            if inner is None:
                return ("unknown", "empty")
            return self.classify_payload(inner, decisions)
        if isinstance(t, H.Sym) and t.what in ("ite", "phi", "match"):
            return self.classify_payload(t, decisions)
        return ("unknown", show(t)[:60])

    def check_fn(self, f, g):
        ev = H.Evaluator(self.fx)
        ev.inline = lambda p: p.startswith("temporal_rs::error::")
        args = [H.Sym("param", (p["name"],)) for p in f.params]
        try:
            paths = ev.paths(f, args, max_paths=300)
        except H.Budget:
            return [("unknown", "too many paths", [])]
        out = []
        for dec, res, tr in paths:
            if isinstance(res, H.Panic) or is_err(res):
                continue
            if isinstance(res, H.V) and res.path == H.NONE:
                continue
            out.append(self.classify_result(res, g, dec) + (dec,))
        return out


def check(run, fx):
    rule = "R6.unchecked-value-escapes"
    run.rule(rule, "every success path of a function returning PlainDate / PlainDateTime / PlainYearMonth / ZonedDateTime / "
                   "Instant / EpochNanoseconds returns a validated value: from a validating constructor, from another "
                   "function returning that type, from a value already of that type, or new_unchecked of a payload that "
                   "is validated or limit-checked on that path (a valid date plus a valid time is not a valid date-time)")
    ts = Typestate(fx)
    n = unknown = 0
    for p, g in sorted(ts.returns.items()):
        f = ts.rs.fn(p)
        if f is None or f.hir is None or f.name == "new_unchecked":
            continue
        n += 1
        res = ts.check_fn(f, g)
        bad = [r for r in res if r[0] == "bad"]
        unk = [r for r in res if r[0] == "unknown"]
        key = p.replace("temporal_rs::builtins::core::", "").replace("temporal_rs::", "")
        if bad:
            run.bad(rule, key, "%s returns a %s %s" % (f.name, g.rsplit("::", 1)[-1], bad[0][1]), f.loc)
        elif unk:
            unknown += 1
            run.ok(rule, key, "unresolved (not alarmed): %s" % unk[0][1], f.loc, nontrivial=False)
        else:
            why = sorted({r[1] for r in res})
            run.ok(rule, key, "%d success path(s): %s" % (len(res), "; ".join(why)[:160]), f.loc)
    run.analysed["typestate_functions"] = n
    run.analysed["typestate_unresolved"] = unknown
    if n < 60:
        run.anchor_missing(rule, "functions", "only %d functions return a guarded type (expected >= 60)" % n)
    # visibility of unchecked constructors
    rule2 = "R6.unchecked-constructors-private"
    run.rule(rule2, "no safe `new_unchecked` constructor is reachable from outside the crate")
    for f in ts.rs.fns:
        if f.name == "new_unchecked":
            is_unsafe = any(n.get("unsafe") for n in [f.hir["value"]] if isinstance(n, dict)) or "unsafe" in str(f.d.get("attrs"))
            hdr_unsafe = f.path.endswith("RoundingIncrement::new_unchecked")
            run.check((not f.reachable) or hdr_unsafe, rule2, f.path.replace("temporal_rs::", ""),
                      "crate-private" if not f.reachable else "public but `unsafe fn` with a documented contract",
                      "%s is reachable from outside the crate: callers can build values that bypass the limit checks" % f.path,
                      f.loc)
