"""R4 (units of time) and R5 (floor on epoch quantities).

A forward dimension inference over the type-checked HIR.  Every integer/float
expression gets a unit from {ns, us, ms, s, min, h, day, week, month, year} and a
kind {epoch, span}, or *unknown*.  Seeds come from the repository's own names
(fields, parameters, locals, function names, X_PER_Y constants).  Multiplying or
dividing by the exact ratio between two units converts; + - compare, assignment
to a seeded name and argument-to-seeded-parameter require equal units.  A report
needs both sides known and different: unknown never alarms.
"""
import re
from ..hireval import INT_BITS
from .common import node_line

UNITS = ["ns", "us", "ms", "s", "min", "h", "day", "week", "month", "year"]
NS_OF = {"ns": 1, "us": 10**3, "ms": 10**6, "s": 10**9, "min": 60 * 10**9, "h": 3600 * 10**9, "day": 86400 * 10**9,
         "week": 7 * 86400 * 10**9}
TOKEN_UNIT = {
    "ns": "ns", "nanos": "ns", "nanosecond": "ns", "nanoseconds": "ns", "nano": "ns",
    "us": "us", "micros": "us", "microsecond": "us", "microseconds": "us", "micro": "us",
    "ms": "ms", "millis": "ms", "millisecond": "ms", "milliseconds": "ms", "milli": "ms",
    "s": None, "sec": "s", "secs": "s", "second": "s", "seconds": "s",
    "min": None, "mins": "min", "minute": "min", "minutes": "min",
    "hour": "h", "hours": "h",
    "day": "day", "days": "day",
    "week": "week", "weeks": "week",
    "month": "month", "months": "month",
    "year": "year", "years": "year",
}
ORDINAL_TOKENS = {"of", "index", "idx", "count", "len", "length", "digits", "digit", "sign", "increment", "precision",
                  "code", "mode", "unit", "kind", "flag", "is", "has", "max", "maximum", "limit", "shift", "cycle",
                  "century", "number_of", "cmp", "ordering", "range", "window", "size", "span", "fractional", "fraction",
                  "frac", "unadjusted", "rem", "remainder", "first", "last", "nth", "th", "with"}


VERBS = {"add", "sub", "subtract", "with", "round", "set", "is", "has", "balance", "diff", "until", "since", "checked",
         "compare", "cmp", "validate", "regulate", "constrain", "new", "try", "from", "parse", "resolve", "nudge",
         "bubble", "adjust", "negate", "get", "write", "read", "apply", "create", "make", "build", "total"}


def rank(u):
    return UNITS.index(u)


def factor(u_from, u_to):
    """how many u_to make one u_from (u_from coarser), or None"""
    if u_from in NS_OF and u_to in NS_OF and NS_OF[u_from] > NS_OF[u_to] and NS_OF[u_from] % NS_OF[u_to] == 0:
        return NS_OF[u_from] // NS_OF[u_to]
    if u_from == "year" and u_to == "month":
        return 12
    return None


ALL_FACTORS = {}
for _a in UNITS:
    for _b in UNITS:
        _f = factor(_a, _b)
        if _f:
            ALL_FACTORS.setdefault(_f, []).append((_a, _b))


def mul_unit(u, k):
    """u * k where one u == k v  ->  v"""
    for v in UNITS:
        if factor(u, v) == k:
            return v
    return None


def div_unit(v, k):
    """v / k where one u == k v  ->  u"""
    for u in UNITS:
        if factor(u, v) == k:
            return u
    return None


class U:
    """unit value: unit name, kind ('epoch'|'span'|None), provenance text; trunc = result of a truncating integer
    conversion (quotient whose remainder was discarded)"""
    __slots__ = ("unit", "kind", "why", "trunc")

    def __init__(self, unit, kind=None, why="", trunc=False):
        self.unit, self.kind, self.why, self.trunc = unit, kind, why, trunc

    def __repr__(self):
        return "%s%s" % (self.unit, "@epoch" if self.kind == "epoch" else "")


def _weak(u):
    return (u.why or "").startswith(("variable `", "parameter `", "parameter #"))


def tokens_of(name):
    name = re.sub(r"([a-z0-9])([A-Z])", r"\1_\2", name)
    return [t for t in name.lower().split("_") if t]


def name_unit(name, ctx="var", ty=None):
    """seed from an identifier; returns U or None"""
    if not name:
        return None
    name = re.sub(r"_(with|and)_provider.*$", "", name)
    toks = tokens_of(name)
    if not toks or "per" in toks:
        return None
    u = _name_unit(toks, ctx, ty)
    if u is not None:
        u.why = "name `%s`" % name
    return u


def _name_unit(toks, ctx, ty=None):
    if not toks:
        return None
    kind = "epoch" if "epoch" in toks else None
    if "to" in toks:
        i = len(toks) - 1 - toks[::-1].index("to")
        left, right = toks[:i], toks[i + 1:]
        if ctx == "ret":
            return _name_unit(right, "var")
        # parameter of a conversion function, or a variable like `days_to_month`: the left side
        u = _name_unit(left, "var")
        if u is None and "epoch" in left and "time" in left:
            return U("ms", "epoch")
        return u
    if "for" in toks and ctx == "ret":
        return _name_unit(toks[:toks.index("for")], "var")
    # `<unit>_epoch`: the epoch of that unit, expressed in something the name does not say
    if toks[-1] == "epoch" and _pick(toks[:-1]):
        return None
    # an explicit trailing abbreviation always wins (fractional_minutes_ns)
    if toks[-1] in ("ns", "us", "ms"):
        return U(TOKEN_UNIT[toks[-1]], kind)
    if any(t in ORDINAL_TOKENS for t in toks):
        return None
    if "in" in toks:
        i = toks.index("in")
        a, b = _pick(toks[:i]), _pick(toks[i + 1:])
        if a and b:
            # hours_in_day -> hours ; hours_in_ns -> ns
            return U(b if rank(b) < rank(a) else a, kind)
        if a:
            return U(a, kind)
        return None
    u = _pick(toks)
    if u is None:
        if kind == "epoch" and "time" in toks:
            return U("ms", "epoch")
        if kind == "epoch" and ty == "i128":
            return U("ns", "epoch")
        return None
    return U(u, kind)


def _pick(toks):
    found = [TOKEN_UNIT[t] for t in toks if TOKEN_UNIT.get(t)]
    if not found:
        return None
    return found[-1]


# type/field specific seeds (type path suffix, field) -> (unit, kind)
FIELD_SEEDS = {
    ("provider::TimeZoneOffset", "offset"): ("s", None),
    ("provider::TimeZoneOffset", "transition_epoch"): ("s", "epoch"),
    ("tzdb::LocalTimeRecord", "offset"): ("s", None),
    ("timezone::UtcOffset", "0"): ("min", None),
    ("epoch_nanoseconds::EpochNanoseconds", "0"): ("ns", "epoch"),
    ("tzif::data::time::Seconds", "0"): ("s", None),
    ("tzif::LocalTimeTypeRecord", "utoff"): ("s", None),
    ("normalized::NormalizedTimeDuration", "0"): ("ns", None),
}
# methods whose result has a fixed unit regardless of name tokens
METHOD_SEEDS = {
    "subseconds": ("ns", None),
    "epoch_nanoseconds": ("ns", "epoch"),
    "epoch_milliseconds": ("ms", "epoch"),
    "as_nanoseconds": None,      # IsoDateTime::as_nanoseconds -> EpochNanoseconds (handled by type)
}
PASS_METHODS = {"abs", "unsigned_abs", "into", "from", "try_into", "try_from", "as_inner", "as_i128", "clone", "as_date_value",
                "as_", "to_i64", "to_i128", "to_f64", "to_u64", "to_u32", "to_i32", "unwrap", "expect", "unwrap_or",
                "unwrap_or_default", "temporal_unwrap", "max", "min", "clamp", "neg", "negate", "copysign", "floor",
                "ceil", "trunc", "round", "checked_neg", "wrapping_neg", "borrow", "as_ref", "deref", "to_owned", "get",
                "as_integer_if_integral", "as_integer_with_truncation", "as_positive_integer_with_truncation",
                "checked_abs", "saturating_abs", "copied", "cloned", "ok_or", "ok_or_else", "ok", "map_err"}
ADD_METHODS = {"checked_add", "checked_sub", "wrapping_add", "wrapping_sub", "saturating_add", "saturating_sub", "add", "sub",
               "checked_add_signed"}
MUL_METHODS = {"checked_mul", "wrapping_mul", "saturating_mul", "mul", "mul_add"}
DIV_METHODS = {"checked_div", "div", "div_floor"}
EUCLID_DIV = {"div_euclid", "checked_div_euclid"}
EUCLID_REM = {"rem_euclid", "checked_rem_euclid"}
REM_METHODS = {"rem", "checked_rem"}
CMP_METHODS = {"cmp", "partial_cmp", "eq", "ne", "lt", "le", "gt", "ge"}
DIVMOD_FNS = {"div_mod", "div_rem", "div_rem_euclid", "div_mod_floor"}


def is_numeric_ty(ty):
    if ty is None:
        return False
    t = ty.lstrip("&")
    return t in INT_BITS or t in ("f64", "f32") or t.endswith("FiniteF64") or t.endswith("EpochNanoseconds") or \
        t.endswith("data::time::Seconds") or t.endswith("NormalizedTimeDuration") or "NonZero" in t


def is_zero_lit(n):
    while isinstance(n, dict) and n.get("k") in ("addr", "cast"):
        n = n["e"]
    if isinstance(n, dict) and n.get("k") == "lit":
        v = n["v"]
        return v.get("int") == 0 or v.get("float") == 0.0
    return False


def only_zero_tested(block, name, after):
    """is every use of local `name` (in `block`, after statement `after`) a comparison with literal zero?"""
    uses = [0, 0]

    def walk(n, zero_cmp):
        if isinstance(n, dict):
            if n.get("k") == "path" and n.get("res", {}).get("local") == name:
                uses[0] += 1
                if zero_cmp:
                    uses[1] += 1
                return
            if n.get("k") == "bin" and n.get("op") in ("<", "<=", ">", ">=", "==", "!=") and \
                    (is_zero_lit(n["a"]) or is_zero_lit(n["b"])):
                walk(n["a"], True)
                walk(n["b"], True)
                return
            for key, v in n.items():
                if key in ("l", "ty"):
                    continue
                walk(v, False)
        elif isinstance(n, list):
            for v in n:
                walk(v, False)
    seen = False
    for st in block["stmts"]:
        if st is after:
            seen = True
            continue
        if seen:
            if st.get("k") == "let" and st["pat"].get("k") == "bind" and st["pat"]["name"] == name:
                walk(st.get("init"), False)      # shadowed from here on
                return uses[0] > 0 and uses[0] == uses[1]
            walk(st, False)
    if block.get("expr") is not None:
        walk(block["expr"], False)
    return uses[0] > 0 and uses[0] == uses[1]


class Finding:
    def __init__(self, rule, fn, line, what, sub):
        self.rule, self.fn, self.line, self.what, self.sub = rule, fn, line, what, sub

    @property
    def key(self):
        return "%s/%s" % (self.fn.path, self.sub)


class UnitChecker:
    def __init__(self, fx, crates):
        self.fx = fx
        self.crates = crates
        self.fns = {}
        for c in crates:
            for f in fx[c].fns:
                if f.hir is not None and f.kind in ("Fn", "AssocFn"):
                    self.fns[f.path] = f
        self.consts = {}
        for c in fx.crates.values():
            for p, k in c.consts.items():
                if isinstance(k.get("val"), int):
                    self.consts[p] = k["val"]
        self.param_units = {}     # (fn path, index) -> U  (seeded or inferred)
        self.ret_units = {}       # fn path -> U
        self.findings = []
        self.stats = {"functions": 0, "exprs_with_unit": 0, "checks": 0, "conversions": 0, "epoch_divisions": 0}
        self.report = False
        self.cur = None
        self.zero_ctx = 0
        self.fn_stats = {}
        self._seed_signatures()

    # ---- signatures ---------------------------------------------------------------
    def _seed_signatures(self):
        for p, f in self.fns.items():
            for i, prm in enumerate(f.params):
                if not is_numeric_ty(prm["ty"]):
                    continue
                u = name_unit(prm["name"] or "", "var", prm["ty"])
                if u is None and i == (1 if (f.params and f.params[0]["name"] == "self") else 0):
                    u = name_unit(f.name, "param0") if "_to_" in f.name else None
                if u is not None:
                    u.why = "parameter `%s` of %s" % (prm["name"], f.name)
                    self.param_units[(p, i)] = u
            if is_numeric_ty(f.ret) or (f.ret or "").startswith("core::result::Result<") or \
                    (f.ret or "").startswith("core::option::Option<"):
                u = None
                inner = re.match(r"core::(?:result::Result|option::Option)<([^,>]+)", f.ret or "")
                rty = (inner.group(1) if inner else (f.ret or "")).lstrip("&")
                if rty.endswith("NormalizedTimeDuration"):
                    u = U("ns", None, "type NormalizedTimeDuration")
                elif rty.endswith("EpochNanoseconds"):
                    u = U("ns", "epoch", "type EpochNanoseconds")
                elif f.name in METHOD_SEEDS and METHOD_SEEDS[f.name]:
                    u = U(METHOD_SEEDS[f.name][0], METHOD_SEEDS[f.name][1], "method `%s`" % f.name)
                elif tokens_of(f.name)[:1] and tokens_of(f.name)[0] in VERBS:
                    u = None
                else:
                    u = name_unit(f.name, "ret")
                if u is not None and self._ret_numeric(f.ret):
                    u.why = "result of %s" % f.name
                    self.ret_units[p] = u

    def _ret_numeric(self, ret):
        if ret is None:
            return False
        m = re.match(r"core::(?:result::Result|option::Option)<([^,>]+)", ret)
        inner = m.group(1) if m else ret
        return is_numeric_ty(inner)

    # ---- driver -------------------------------------------------------------------
    def run(self):
        # fixpoint on inferred parameter/return units (no reports), then a reporting pass
        for _ in range(4):
            before = (len(self.param_units), len(self.ret_units))
            self.report = False
            for f in self.fns.values():
                self._fn(f)
            if (len(self.param_units), len(self.ret_units)) == before:
                break
        self.report = True
        self.findings = []
        self.stats = {k: 0 for k in self.stats}
        for f in self.fns.values():
            self._fn(f)
        return self.findings

    def _fn(self, f):
        self.cur = f
        self.stats["functions"] += 1
        before = (self.stats["checks"], self.stats["conversions"], self.stats["exprs_with_unit"])
        env = {}
        self.inferred_params = {}
        hir = f.hir
        for i, (pat, prm) in enumerate(zip(hir["params"], f.params)):
            if pat["k"] == "bind":
                u = self.param_units.get((f.path, i))
                env[pat["name"]] = u if u is not None else ("param", i)
        r = self.ex(hir["value"], env)
        want = self.ret_units.get(f.path)
        if isinstance(r, U):
            if want is None and self._ret_numeric(f.ret) and not any(t in ORDINAL_TOKENS for t in tokens_of(f.name)) \
                    and name_unit(f.name, "ret") is None:
                # the name says nothing: take the unit the body computes
                self.ret_units[f.path] = U(r.unit, r.kind, "result of %s (inferred from its body)" % f.name)
            elif want is not None:
                self.same(want, r, hir["value"], "return value of `%s`" % f.name, "return")
        for i, u in self.inferred_params.items():
            if (f.path, i) not in self.param_units and u is not None:
                self.param_units[(f.path, i)] = u
        self.fn_stats[f.path] = (self.stats["checks"] - before[0], self.stats["conversions"] - before[1],
                                 self.stats["exprs_with_unit"] - before[2])

    # ---- reporting --------------------------------------------------------------------
    def flag(self, rule, node, what, sub):
        if self.report:
            self.findings.append(Finding(rule, self.cur, node_line(node) if isinstance(node, dict) else None, what, sub))

    def same(self, a, b, node, ctx, sub):
        """a and b must have the same unit"""
        self.stats["checks"] += 1
        if isinstance(a, U) and isinstance(b, U) and a.unit != b.unit and (_weak(a) or _weak(b)):
            # a unit read off the NAME of a local variable or parameter is only a hint (renaming is not a behaviour
            # change): it seeds the inference but a mismatch against it is never reported
            self.stats["weak_mismatches_not_reported"] = self.stats.get("weak_mismatches_not_reported", 0) + 1
            return True
        if isinstance(a, U) and isinstance(b, U) and a.unit != b.unit:
            self.flag("R4.unit-mismatch", node, "%s: %s (%s) vs %s (%s)" % (ctx, a.unit, a.why, b.unit, b.why),
                      "%s/%s-vs-%s" % (sub, a.unit, b.unit))
            return False
        return True

    def demand(self, val, want):
        """val is an un-unit'd parameter used where `want` is required: infer the parameter's unit"""
        if isinstance(val, tuple) and val and val[0] == "param" and isinstance(want, U):
            i = val[1]
            prev = self.inferred_params.get(i, "unset")
            if prev == "unset":
                self.inferred_params[i] = U(want.unit, want.kind, "parameter #%d of %s (inferred from its use as %s)" %
                                            (i, self.cur.name, want.why))
            elif prev is not None and prev.unit != want.unit:
                self.inferred_params[i] = None

    # ---- expressions --------------------------------------------------------------------
    def ex(self, n, env):
        if not isinstance(n, dict):
            return None
        k = n.get("k")
        m = getattr(self, "x_" + k, None) if k else None
        if m is None:
            return None
        r = m(n, env)
        if isinstance(r, U):
            self.stats["exprs_with_unit"] += 1
        return r

    def const_factor(self, n):
        """integer value of a literal / constant expression, else None"""
        k = n.get("k")
        if k == "lit":
            v = n["v"]
            if "int" in v:
                return v["int"]
            if "float" in v and float(v["float"]).is_integer():
                return int(v["float"])
            return None
        if k == "path":
            v = n.get("val")
            if isinstance(v, int) and not isinstance(v, bool):
                return v
            if isinstance(v, dict) and "f64" in v and float(v["f64"]).is_integer():
                return int(v["f64"])
            d = n["res"].get("def")
            if d in self.consts:
                return self.consts[d]
            return None
        if k == "cast":
            return self.const_factor(n["e"])
        if k in ("mcall", "call") and n.get("fn", "").endswith(("::from", "::into")):
            a = n["args"][0] if k == "call" and n["args"] else n.get("recv")
            return self.const_factor(a) if a else None
        if k == "bin" and n["op"] == "*":
            a, b = self.const_factor(n["a"]), self.const_factor(n["b"])
            if a is not None and b is not None:
                return a * b
        if k == "addr":
            return self.const_factor(n["e"])
        return None

    def x_lit(self, n, env):
        return None

    def x_path(self, n, env):
        res = n["res"]
        if "local" in res:
            return env.get(res["local"])
        return None

    def x_addr(self, n, env):
        return self.ex(n["e"], env)

    def x_cast(self, n, env):
        return self.ex(n["e"], env)

    def x_un(self, n, env):
        r = self.ex(n["a"], env)
        return r if n["op"] in ("-", "*") else None

    def x_tup(self, n, env):
        return ("tuple", [self.ex(e, env) for e in n["es"]])

    def x_array(self, n, env):
        for e in n["es"]:
            self.ex(e, env)
        return None

    def x_field(self, n, env):
        base = self.ex(n["e"], env)
        name = n["name"]
        of = (n.get("of") or "").lstrip("&")
        of = re.sub(r"<.*$", "", of)
        for (tsuf, fname), (u, kind) in FIELD_SEEDS.items():
            if fname == name and of.endswith(tsuf):
                return U(u, kind, "field %s.%s" % (tsuf.rsplit("::", 1)[-1], name))
        if isinstance(base, tuple) and base and base[0] == "tuple" and name.isdigit() and int(name) < len(base[1]):
            return base[1][int(name)]
        if name == "0" and (of.endswith("FiniteF64") or "NonZero" in of):
            return base
        if not is_numeric_ty(n.get("ty")):
            return None
        if name.isdigit():
            return None
        u = name_unit(name)
        if u is not None:
            u.why = "field `%s` of %s" % (name, of.rsplit("::", 1)[-1])
        return u

    def x_block(self, n, env):
        env = dict(env)
        for st in n["stmts"]:
            k = st["k"]
            if k == "let":
                zt = (st.get("init") is not None and st["pat"]["k"] == "bind"
                      and only_zero_tested(n, st["pat"]["name"], after=st))
                if zt:
                    self.zero_ctx += 1
                v = self.ex(st["init"], env) if st.get("init") is not None else None
                if zt:
                    self.zero_ctx -= 1
                    v = None
                if st.get("els") is not None:
                    self.ex(st["els"], env)
                self.bind(st["pat"], v, env, st)
            elif k == "semi":
                self.ex(st["e"], env)
            else:
                self.ex(st, env)
        if n.get("expr") is not None:
            return self.ex(n["expr"], env)
        return None

    def bind(self, pat, v, env, node):
        k = pat["k"]
        if k == "bind":
            seeded = name_unit(pat["name"])
            if pat["name"] == "second" and "first" in env:
                seeded = None
            if pat["name"] in ("first", "second") and seeded is None:
                env.setdefault("first", None)
            if isinstance(v, U):
                if seeded is not None:
                    seeded.why = "variable `%s`" % pat["name"]
                    self.same(seeded, v, node, "value bound to `%s`" % pat["name"], "let:" + pat["name"])
                    # keep the kind of the value when the name says nothing about it
                    env[pat["name"]] = U(seeded.unit, v.kind or seeded.kind, seeded.why)
                else:
                    env[pat["name"]] = v
            else:
                if seeded is not None:
                    seeded.why = "variable `%s`" % pat["name"]
                    self.demand(v, seeded)
                env[pat["name"]] = seeded
            if pat.get("sub"):
                self.bind(pat["sub"], v, env, node)
        elif k == "tuple":
            items = v[1] if isinstance(v, tuple) and v and v[0] == "tuple" else []
            for i, p in enumerate(pat["pats"]):
                self.bind(p, items[i] if i < len(items) else None, env, node)
        elif k in ("ref", "deref"):
            self.bind(pat["pat"], v, env, node)
        elif k == "tstruct":
            for p in pat["pats"]:
                self.bind(p, v if len(pat["pats"]) == 1 else None, env, node)
        elif k == "struct":
            for name, p in pat["fields"]:
                fu = name_unit(name)
                self.bind(p, fu, env, node)
        elif k == "or":
            for p in pat["pats"]:
                self.bind(p, v, env, node)

    def x_if(self, n, env):
        e2 = dict(env)
        self.cond(n["cond"], e2)
        a = self.ex(n["then"], e2)
        b = self.ex(n["else"], dict(env)) if n.get("else") is not None else None
        return self.join(a, b)

    def cond(self, c, env):
        if c.get("k") == "letx":
            v = self.ex(c["init"], env)
            self.bind(c["pat"], v, env, c)
        elif c.get("k") == "bin" and c["op"] == "&&":
            self.cond(c["a"], env)
            self.cond(c["b"], env)
        else:
            self.ex(c, env)

    def x_letx(self, n, env):
        v = self.ex(n["init"], env)
        self.bind(n["pat"], v, env, n)
        return None

    def join(self, a, b):
        if isinstance(a, U) and isinstance(b, U):
            if a.unit == b.unit:
                return a if a.kind == b.kind else U(a.unit, None, a.why)
            return None
        if isinstance(a, U) and b is None:
            return a
        if isinstance(b, U) and a is None:
            return b
        if a == b:
            return a
        return None

    def x_match(self, n, env):
        sv = self.ex(n["scrut"], env)
        if n.get("src") == "TryDesugar":
            sc = n["scrut"]
            if sc.get("k") == "call" and sc.get("args"):
                return self.ex(sc["args"][0], env)
        out = None
        first = True
        for arm in n["arms"]:
            e2 = dict(env)
            self.bind(arm["pat"], sv, e2, arm)
            if arm.get("guard") is not None:
                self.cond(arm["guard"], e2)
            r = self.ex(arm["body"], e2)
            # diverging arms (return/panic) do not contribute
            if arm["body"].get("k") in ("ret", "break", "continue") or arm["body"].get("ty") == "!":
                continue
            out = r if first else self.join(out, r)
            first = False
        return out

    def x_ret(self, n, env):
        if n.get("e") is not None:
            r = self.ex(n["e"], env)
            want = self.ret_units.get(self.cur.path)
            if want is not None and isinstance(r, U):
                self.same(want, r, n, "return value of `%s`" % self.cur.name, "return")
        return None

    def x_loop(self, n, env):
        self.ex(n["body"], env)
        return None

    def x_closure(self, n, env):
        e2 = dict(env)
        for p in n["params"]:
            self.bind(p, None, e2, n)
        self.ex(n["body"], e2)
        return None

    def x_assign(self, n, env):
        v = self.ex(n["b"], env)
        t = self.ex(n["a"], env)
        if isinstance(t, U) and isinstance(v, U):
            self.same(t, v, n, "assignment", "assign")
        a = n["a"]
        if a.get("k") == "path" and "local" in a["res"] and isinstance(v, U) and not isinstance(t, U):
            env[a["res"]["local"]] = v
        return None

    def x_assignop(self, n, env):
        op = n["op"].rstrip("=")
        fake = {"k": "bin", "op": op, "a": n["a"], "b": n["b"], "ty": n["a"].get("ty"), "l": n.get("l")}
        r = self.x_bin(fake, env)
        a = n["a"]
        if a.get("k") == "path" and "local" in a["res"] and isinstance(r, U):
            env[a["res"]["local"]] = r
        return None

    def x_struct(self, n, env):
        for name, e in n["fields"]:
            v = self.ex(e, env)
            if is_numeric_ty(e.get("ty")):
                seeded = name_unit(name)
                p = n["path"].get("def") or n["path"].get("selfty") or ""
                for (tsuf, fname), (u, kind) in FIELD_SEEDS.items():
                    if fname == name and p.endswith(tsuf):
                        seeded = U(u, kind, "")
                if seeded is not None:
                    seeded.why = "field `%s` of %s" % (name, p.rsplit("::", 1)[-1])
                    if isinstance(v, U):
                        self.same(seeded, v, e, "initialiser of field `%s`" % name, "field:" + name)
                    else:
                        self.demand(v, seeded)
        if isinstance(n.get("base"), dict):
            self.ex(n["base"], env)
        return None

    def x_index(self, n, env):
        self.ex(n["a"], env)
        self.ex(n["b"], env)
        return None

    def x_repeat(self, n, env):
        return None

    def x_break(self, n, env):
        if n.get("e"):
            self.ex(n["e"], env)
        return None

    def x_bin(self, n, env):
        op = n["op"]
        if op in ("<", "<=", ">", ">=", "==", "!="):
            za, zb = is_zero_lit(n["a"]), is_zero_lit(n["b"])
            if za or zb:
                self.zero_ctx += 1
                try:
                    self.ex(n["b"] if za else n["a"], env)
                finally:
                    self.zero_ctx -= 1
                return None
        a = self.ex(n["a"], env)
        b = self.ex(n["b"], env)
        if op in ("+", "-"):
            if isinstance(a, U) and isinstance(b, U):
                if a.unit != b.unit and self.zero_ctx:
                    return None     # `a + b != 0`: a sum used only as an any-nonzero test
                if op == "+" and a.unit == b.unit and a.trunc and b.trunc and not self.zero_ctx:
                    self.flag("R4.sum-of-truncated-quotients", n,
                              "the addends (%s) and (%s) were each converted to %s by an integer division that drops "
                              "the remainder; the carries between them are lost - add in the finer unit first, then "
                              "divide once" % (a.why, b.why, a.unit), "sum-trunc/" + a.unit)
                self.same(a, b, n, "operands of `%s`" % op, "bin" + op)
                if a.unit != b.unit:
                    return None
                kind = a.kind
                if op == "-" and a.kind == "epoch" and b.kind == "epoch":
                    kind = "span"
                elif b.kind == "epoch" and a.kind != "epoch":
                    kind = "epoch" if op == "+" else None
                return U(a.unit, kind, a.why)
            if isinstance(a, U):
                self.demand(b, a)
                # adding a literal keeps the unit (e.g. `+ 4`, `- 1`)
                return a if self.const_factor(n["b"]) is not None or b is None else None
            if isinstance(b, U):
                self.demand(a, b)
                return b if self.const_factor(n["a"]) is not None or a is None else None
            return None
        if op in ("<", "<=", ">", ">=", "==", "!="):
            if isinstance(a, U) and isinstance(b, U):
                self.same(a, b, n, "operands of `%s`" % op, "cmp")
            elif isinstance(a, U):
                self.demand(b, a)
            elif isinstance(b, U):
                self.demand(a, b)
            return None
        if op == "*":
            return self.mul(n, a, b, n["a"], n["b"])
        if op == "/":
            return self.div(n, a, b, n["b"], truncating=True)
        if op == "%":
            return self.rem(n, a, b, n["b"], truncating=True)
        return None

    def mul(self, n, a, b, na, nb):
        ka, kb = self.const_factor(na), self.const_factor(nb)
        if isinstance(a, U) and kb is not None:
            return self.scale(n, a, kb)
        if isinstance(b, U) and ka is not None:
            return self.scale(n, b, ka)
        if isinstance(a, U) and isinstance(b, U):
            return None
        return None

    def scale(self, n, a, k):
        if k in (1, -1):
            return a
        v = mul_unit(a.unit, abs(k))
        if v is not None:
            self.stats["conversions"] += 1
            return U(v, a.kind, "%s x %d" % (a.why, k))
        if abs(k) in ALL_FACTORS and abs(k) >= 7:
            pairs = ", ".join("%s->%s" % p for p in ALL_FACTORS[abs(k)][:3])
            self.flag("R4.wrong-factor", n, "a quantity in %s (%s) is multiplied by %d, which converts %s" %
                      (a.unit, a.why, k, pairs), "mul/%s-by-%d" % (a.unit, abs(k)))
        return None

    def div(self, n, a, b, nb, truncating):
        k = self.const_factor(nb)
        if isinstance(a, U) and truncating:
            self.epoch_div(n, a, "/")
        if isinstance(a, U) and k is not None:
            if k in (1, -1):
                return a
            u = div_unit(a.unit, abs(k))
            if u is not None:
                self.stats["conversions"] += 1
                isint = (n.get("ty") or "") in INT_BITS
                return U(u, a.kind, "%s / %d" % (a.why, k), trunc=isint)
            if abs(k) in ALL_FACTORS and abs(k) >= 7:
                pairs = ", ".join("%s->%s" % (q, p) for p, q in ALL_FACTORS[abs(k)][:3])
                self.flag("R4.wrong-factor", n, "a quantity in %s (%s) is divided by %d, which converts %s" %
                          (a.unit, a.why, k, pairs), "div/%s-by-%d" % (a.unit, abs(k)))
            return None
        if isinstance(a, U) and isinstance(b, U):
            # ratio of two quantities: dimensionless if same unit
            return None
        return None

    def rem(self, n, a, b, nb, truncating):
        if isinstance(a, U) and truncating:
            self.epoch_div(n, a, "%")
        if isinstance(a, U):
            return U(a.unit, None if a.kind == "epoch" else a.kind, a.why)
        return None

    def epoch_div(self, n, a, op):
        if a.kind != "epoch":
            return
        ty = n.get("ty") or ""
        if ty.startswith("u"):
            return
        self.stats["epoch_divisions"] += 1
        self.flag("R5.truncating-epoch-division", n,
                  "truncating `%s` on an epoch quantity in %s (%s): for negative values (before 1970) this rounds toward "
                  "zero instead of flooring; use div_euclid/rem_euclid" % (op, a.unit, a.why), "epoch" + op)

    # ---- calls ----------------------------------------------------------------------------
    def x_call(self, n, env):
        args = [self.ex(a, env) for a in n["args"]]
        if "ctor" in n:
            p = n["ctor"]
            if len(args) == 1:
                for (tsuf, fname), (u, kind) in FIELD_SEEDS.items():
                    if fname == "0" and p.replace("::{constructor#0}", "").endswith(tsuf):
                        want = U(u, kind, "payload of %s" % tsuf.rsplit("::", 1)[-1])
                        if isinstance(args[0], U):
                            self.same(want, args[0], n, "constructor %s" % tsuf.rsplit("::", 1)[-1], "ctor")
                        else:
                            self.demand(args[0], want)
                        return want
                # Some(x), Ok(x), newtype(x): transparent
                return args[0]
            return None
        fnp = n.get("fn")
        if fnp is None:
            self.ex(n.get("f"), env)
            return None
        return self.apply(n, fnp, n.get("resolved"), args, n["args"], env)

    def x_mcall(self, n, env):
        recv = self.ex(n["recv"], env)
        args = [recv] + [self.ex(a, env) for a in n["args"]]
        nodes = [n["recv"]] + n["args"]
        name = n["name"]
        fnp = n.get("fn", "")
        target = n.get("resolved") or fnp
        local = target in self.fns
        if not local:
            if name in PASS_METHODS:
                return recv
            if name in ADD_METHODS and len(args) == 2:
                fake = {"k": "bin", "op": "+" if "add" in name else "-", "a": n["recv"], "b": n["args"][0],
                        "ty": n.get("ty"), "l": n.get("l")}
                return self._binvals(fake, args[0], args[1], env)
            if name in MUL_METHODS and len(args) >= 2:
                return self.mul(n, args[0], args[1], nodes[0], nodes[1])
            if name in DIV_METHODS and len(args) == 2:
                return self.div(n, args[0], args[1], nodes[1], truncating=True)
            if name in EUCLID_DIV and len(args) == 2:
                return self.div(n, args[0], args[1], nodes[1], truncating=False)
            if name in EUCLID_REM and len(args) == 2:
                return self.rem(n, args[0], args[1], nodes[1], truncating=False)
            if name in REM_METHODS and len(args) == 2:
                return self.rem(n, args[0], args[1], nodes[1], truncating=True)
            if name in ("div_rem_euclid", "div_mod_floor", "div_rem") and len(args) == 2:
                q = self.div(n, args[0], args[1], nodes[1], truncating=(name == "div_rem"))
                if isinstance(q, U):
                    q.trunc = False
                r = self.rem(n, args[0], args[1], nodes[1], truncating=(name == "div_rem"))
                return ("tuple", [q, r])
            if name in CMP_METHODS and len(args) == 2:
                if isinstance(args[0], U) and isinstance(args[1], U):
                    self.same(args[0], args[1], n, "operands of `%s`" % name, "cmp")
                return None
            if name == "map" and len(n["args"]) == 1:
                return None
            if name in ("contains",):
                return None
            return None
        return self.apply(n, fnp, n.get("resolved"), args, nodes, env)

    def _binvals(self, fake, a, b, env):
        # reuse x_bin's logic with precomputed operand values
        if isinstance(a, U) and isinstance(b, U):
            if fake["op"] == "+" and a.unit == b.unit and a.trunc and b.trunc and not self.zero_ctx:
                self.flag("R4.sum-of-truncated-quotients", fake,
                          "the addends (%s) and (%s) were each converted to %s by an integer division that drops "
                          "the remainder; the carries between them are lost - add in the finer unit first, then "
                          "divide once" % (a.why, b.why, a.unit), "sum-trunc/" + a.unit)
            self.same(a, b, fake, "operands of `%s`" % fake["op"], "bin" + fake["op"])
            if a.unit != b.unit:
                return None
            # a sum of truncated quotients stays "truncated" so that a third addend is caught as well
            return U(a.unit, a.kind, a.why, trunc=(a.trunc and b.trunc)) if (a.trunc and b.trunc) else U(a.unit, a.kind, a.why)
        if isinstance(a, U):
            self.demand(b, a)
            return a
        if isinstance(b, U):
            self.demand(a, b)
            return b
        return None

    def apply(self, n, path, resolved, args, nodes, env):
        target = resolved or path
        f = self.fns.get(target) or self.fns.get(path)
        name = target.rsplit("::", 1)[-1]
        if f is None:
            if name in DIVMOD_FNS and len(args) == 2:
                q = self.div(n, args[0], args[1], nodes[1], truncating=False)
                r = self.rem(n, args[0], args[1], nodes[1], truncating=False)
                return ("tuple", [q, r])
            if name in ("from", "into", "try_from", "try_into", "new", "from_f64", "from_i64", "from_i128") and len(args) == 1:
                return args[0]
            if name in ("max", "min") and len(args) == 2:
                return self.join(args[0], args[1])
            return None
        # repository function: check arguments against parameter units
        for i, (a, node) in enumerate(zip(args, nodes)):
            want = self.param_units.get((f.path, i))
            if want is None:
                continue
            if isinstance(a, U):
                pname = f.params[i]["name"] if i < len(f.params) else "#%d" % i
                self.same(want, a, node, "argument `%s` of %s" % (pname, f.name), "arg:%s:%s" % (f.name, pname))
                if want.kind == "epoch" and a.kind == "span":
                    pass
            else:
                self.demand(a, want)
        if name in DIVMOD_FNS and len(args) == 2:
            q = self.div(n, args[0], args[1], nodes[1], truncating=False)
            r = self.rem(n, args[0], args[1], nodes[1], truncating=False)
            return ("tuple", [q, r])
        if name == "divide" and len(args) == 2:
            return self.div(n, args[0], args[1], nodes[1], truncating=False)
        r = self.ret_units.get(f.path)
        if r is not None:
            return U(r.unit, r.kind, r.why)
        if name in PASS_METHODS and args:
            return args[0]
        return None


# ---- distribution of the crate-wide analysis over the properties --------------------------------

OWNERS = [
    ("src/tzdb.rs", ["C15"]),
    ("src/utils.rs", ["C01", "C15"]),
    ("src/utils/neri_schneider.rs", ["C01"]),
    ("src/options/relative_to.rs", ["C13"]),
    ("src/builtins/core/timezone.rs", ["C13"]),
    ("src/parsers/timezone.rs", ["C13"]),
    ("src/provider.rs", ["C13"]),
    ("src/builtins/core/zoneddatetime.rs", ["C14"]),
    ("src/builtins/core/now.rs", ["C14"]),
    ("src/builtins/compiled/", ["C14"]),
    ("src/iso.rs", ["C05", "C01"]),
    ("src/builtins/core/datetime.rs", ["C05"]),
    ("src/builtins/core/calendar", ["C01"]),
    ("src/builtins/core/time.rs", ["C06"]),
    ("src/builtins/core/instant.rs", ["C06"]),
    ("src/builtins/core/duration/normalized.rs", ["C06"]),
    ("src/builtins/core/duration/time.rs", ["C06", "C09"]),
    ("src/epoch_nanoseconds.rs", ["C06"]),
    ("src/builtins/core/duration.rs", ["C09"]),
    ("src/builtins/core/duration/date.rs", ["C09"]),
    ("src/primitive.rs", ["C09"]),
    ("src/builtins/core/date.rs", ["C04"]),
    ("src/builtins/core/year_month.rs", ["C18"]),
    ("src/builtins/core/month_day.rs", ["C18"]),
    ("src/parsers.rs", ["C11"]),
    ("src/rounding.rs", ["C07"]),
    ("src/options", ["C10"]),
    ("src/", ["C06"]),
]
C13_IN_ZDT = ("from_str", "offset", "interpret", "from_partial", "disambiguat")


def owners_of(fn):
    f = fn.file
    if f == "src/builtins/core/zoneddatetime.rs" and any(s in fn.name for s in C13_IN_ZDT):
        return ["C13"]
    for prefix, props in OWNERS:
        if f.startswith(prefix):
            return props
    return []


_CACHE = {}


def analysis(fx):
    key = (fx.hash, fx.config)
    if key not in _CACHE:
        uc = UnitChecker(fx, ["temporal_rs"])
        uc.run()
        _CACHE[key] = uc
    return _CACHE[key]


def report(run, fx, prop):
    """record the R4/R5 instances and findings owned by property `prop`"""
    uc = analysis(fx)
    run.rule("R4.unit-mismatch", "quantities that are added, subtracted, compared, bound to a unit-named variable/field, "
                                 "passed to a unit-named parameter or returned from a unit-named function have the same "
                                 "unit of time (units inferred from the repository's names; unknown never alarms)")
    run.rule("R4.wrong-factor", "a quantity with a known unit is only multiplied/divided by a time-conversion constant "
                                "that converts from/to that unit (e.g. minutes x 6e10, never minutes x 1e9)")
    run.rule("R4.sum-of-truncated-quotients", "quantities are not converted to a coarser unit one by one with truncating "
                                              "division and then summed (lost carries); the sum is formed in the finer "
                                              "unit and divided once")
    run.rule("R5.truncating-epoch-division", "no truncating `/` or `%` is applied to a signed epoch-kind quantity; "
                                             "div_euclid/rem_euclid are the accepted idiom (durations are exempt)")
    nfn = 0
    for p, f in uc.fns.items():
        if prop not in owners_of(f):
            continue
        st = uc.fn_stats.get(p, (0, 0, 0))
        if st[2] == 0:
            continue
        nfn += 1
        mine = [x for x in uc.findings if x.fn is f]
        if not mine:
            run.ok("R4.unit-mismatch", p, "%d unit checks, %d conversions, %d unit-typed expressions" % st, f.loc,
                   nontrivial=st[0] + st[1] > 0)
    for x in uc.findings:
        if prop in owners_of(x.fn):
            run.bad(x.rule, x.key, x.what, "%s:%s" % (x.fn.file, x.line))
    run.analysed["unit_inference"] = dict(uc.stats, functions_owned=nfn)
    return nfn
