"""C15 — the bundled tz provider (history clause, identifier lookup, arithmetic hygiene)."""
from ..core import Run
from ..facts import Facts
from .. import mirq as M
from .. import hireval as H
from ..rules import provider, units
from ..rules.common import hir_walk, node_line
from ..terms import show

EXPLANATION = (
    "Static effect, unit and floor analysis on the facts exported from /repo's current tree (workspace, --features "
    "compiled_data). History independence: FsTzdbProvider's only interior-mutable state is the cache, mutated only in "
    "FsTzdbProvider::get with a value that depends on the identifier alone, no mutable/lazy static or thread-local is "
    "reachable from the four TimeZoneProvider methods through the resolved call graph, and no shared RefCell borrow is "
    "live across borrow_mut. Identifier check: check_identifier consults the case-insensitive trie with the caller's "
    "string unchanged. Arithmetic hygiene: unit-of-time inference (R4) and the floor rule for epoch quantities (R5) over "
    "tzdb.rs and the calendar helpers it uses. NOT decided: that offsets and candidate instants equal what the TZif data "
    "specify (needs the data and an independent reader)."
)


def check_identifier(run, fx):
    rs = fx["temporal_rs"]
    rule = "R2.identifier-lookup"
    run.rule(rule, "FsTzdbProvider::check_identifier looks the caller's string up, unchanged, in the case-insensitive trie "
                   "(ZeroAsciiIgnoreCaseTrie) of the IANA normaliser and reports membership")
    f = rs.fn("<temporal_rs::tzdb::FsTzdbProvider as temporal_rs::provider::TimeZoneProvider>::check_identifier")
    if f is None:
        run.anchor_missing(rule, "check_identifier", "TimeZoneProvider::check_identifier of FsTzdbProvider not found")
        return
    norm = fx["temporal_provider"].adts.get("temporal_provider::tzdb::IanaIdentifierNormalizer")
    idx_ty = None
    if norm:
        for fl in norm["variants"][0]["fields"]:
            if fl["name"] == "available_id_index":
                idx_ty = fl["ty"]
    run.check(bool(idx_ty) and "ZeroAsciiIgnoreCaseTrie" in idx_ty, rule, "index-type",
              "available_id_index: %s" % idx_ty, "available_id_index has type %s; case-insensitive lookup needs "
              "ZeroAsciiIgnoreCaseTrie" % idx_ty)
    gets = []
    for n in hir_walk(f.hir):
        if isinstance(n, dict) and n.get("k") == "mcall" and "ZeroAsciiIgnoreCaseTrie" in str(n.get("fn", "")) \
                and n["name"] == "get":
            gets.append(n)
    okg = len(gets) == 1 and gets[0]["args"][0].get("k") == "path" and \
        gets[0]["args"][0]["res"].get("local") == (f.params[1]["name"] if len(f.params) > 1 else None)
    run.check(okg, rule, "lookup", "trie.get(identifier) with the parameter unchanged",
              "check_identifier does not pass its parameter unchanged to ZeroAsciiIgnoreCaseTrie::get", f.loc)
    # the two outcomes of the trie lookup are substituted for the call: a miss must give `false`, a hit must not
    res = {}
    for name, out in (("miss", H.V(H.NONE, ())), ("hit", H.V(H.SOME, (H.Sym("param", ("index",)),)))):
        ev = H.Evaluator(fx)
        ev.inline = lambda p: False
        ev.stubs["ZeroAsciiIgnoreCaseTrie"] = lambda args, out=out: out
        try:
            res[name] = ev.call_fn(f, [H.Sym("param", ("self",)), H.Sym("param", ("identifier",))])
        except (H.Panic, H.Budget):
            res[name] = None
    if res["miss"] is None or res["hit"] is None or H.has_sym(res["miss"]):
        run.ok(rule, "result", "check_identifier does not fold on the two lookup outcomes: not decided", f.loc, nontrivial=False)
    else:
        run.check(res["miss"] is False and res["hit"] is not False, rule, "result",
                  "unknown identifier -> false, known -> normalised-name lookup",
                  "check_identifier gives %s for an identifier the trie does not contain and %s for one it contains" %
                  (show(res["miss"]), show(res["hit"])[:80]), f.loc)


def main(tier):
    run = Run("C15", tier)
    fx = Facts("full")
    run.tree_hash = fx.hash
    run.configs.append({"config": "full", "crates": fx.summary()})
    cg = M.CallGraph(fx, ["temporal_rs", "temporal_provider"])
    provider.check_effects(run, fx, cg)
    provider.check_cache_key(run, fx)
    provider.check_identifier_pure(run, fx, cg)
    check_identifier(run, fx)
    n = units.report(run, fx, "C15")
    if n < 10:
        run.anchor_missing("R4.unit-mismatch", "tzdb-functions", "only %d unit-typed functions in tzdb.rs/utils.rs" % n)
    run.assumptions += ["the tzif crate parses TZif files faithfully", "names of variables, fields and functions state "
                        "their unit of time (R4 seeds); a misnamed quantity is not detected"]
    return run.finish(EXPLANATION)
