"""C17 — with / from_partial: merge totality, required-field checks (TypeError), clamp/reject tables."""
from ._std import *
from ..rules.common import hir_walk, node_line, OPT, fold

EXPLANATION = (
    "Static record-totality (R3), dominance + error-kind (R11/R7b) and table (R1) rules on the type-checked HIR exported "
    "from /repo's current tree: IsoTime::with takes each of the six fields from the partial record when supplied and "
    "from the receiver otherwise, like paired with like; the three expansions of impl_with_fallback_method! merge year, "
    "month/monthCode, day (where declared), era, eraYear and take the calendar from the receiver, for the supplied and "
    "the absent case of every field; with/from_partial of PlainDate, PlainTime, PlainDateTime and PlainYearMonth reach "
    "their kernels only behind an emptiness / required-field check whose failing side is a TypeError; IsoTime::new and "
    "IsoDate::regulate clamp to the specified bounds under constrain and return RangeErrors under reject; the month / "
    "monthCode conflict is a RangeError. NOT decided: the merged result for every subset of fields and all values."
)
T = "temporal_rs::builtins::core::"
TIME_FIELDS = ["hour", "minute", "second", "millisecond", "microsecond", "nanosecond"]


def check_time_merge(run, fx, rs):
    rule = "R3.time-merge"
    run.rule(rule, "IsoTime::with: every field is the partial's value when supplied, the receiver's otherwise, and is "
                   "passed to the regulating constructor in its own slot")
    f = rs.fn("temporal_rs::iso::IsoTime::with")
    if f is None:
        run.anchor_missing(rule, "IsoTime::with", "not found")
        return
    ev = H.Evaluator(fx)
    ev.inline = lambda p: False
    me = H.S("temporal_rs::iso::IsoTime", tuple((n, H.Sym("self", (n,))) for n in TIME_FIELDS))
    for supplied in (True, False):
        part = H.S(T + "time::PartialTime", tuple((n, H.some(H.Sym("given", (n,))) if supplied else H.NONE_V)
                                                   for n in TIME_FIELDS))
        r = ev.call_fn(f, [me, part, H.Sym("param", ("overflow",))])
        calls = [c for c in ev.trace if str(c.parts[0]).endswith("IsoTime::new")]
        ok = False
        desc = show(r)[:120]
        if len(calls) == 1:
            a = calls[0].parts[1]
            want = [H.Sym("given" if supplied else "self", (n,)) for n in TIME_FIELDS]
            ok = list(a[:6]) == want and show(a[6]) == "$overflow"
            desc = "new(%s)" % ", ".join(show(x) for x in a)
        run.check(ok, rule, "supplied" if supplied else "absent", desc,
                  "IsoTime::with with %s fields builds %s" % ("supplied" if supplied else "absent", desc), f.loc)


def check_date_merge(run, fx, rs):
    rule = "R3.date-merge"
    run.rule(rule, "with_fallback_{date,datetime,year_month}: each output field is the partial's value when supplied and "
                   "the receiver's (through its own getter) otherwise; month and monthCode are derived from one another "
                   "when only one is supplied; the calendar is the receiver's; year-months carry no day")
    for meth, has_day in (("with_fallback_date", True), ("with_fallback_datetime", True), ("with_fallback_year_month", False)):
        f = rs.fn(T + "date::PartialDate::" + meth)
        if f is None:
            run.anchor_missing(rule, meth, "expansion not found")
            continue
        ev = H.Evaluator(fx)
        ev.inline = lambda p: False
        names = ["year", "month", "month_code", "day", "era", "era_year"]
        for case in ("supplied", "absent", "month-only", "code-only"):
            vals = {}
            for n in names:
                given = case == "supplied" or (case == "month-only" and n == "month") or (case == "code-only" and n == "month_code")
                vals[n] = H.some(H.Sym("given", (n,))) if given else H.NONE_V
            part = H.S(T + "date::PartialDate", tuple((n, vals[n]) for n in names) + (("calendar", H.Sym("given", ("calendar",))),))
            try:
                r = ev.call_fn(f, [part, H.Sym("param", ("fallback",))])
            except H.Panic as p:
                run.bad(rule, "%s/%s" % (meth, case), "merge panics: %s" % p.what, f.loc)
                continue
            recs = [x for x in walk(r) if isinstance(x, H.S) and x.path.endswith("PartialDate") and x is not part]
            if not recs:
                run.bad(rule, "%s/%s" % (meth, case), "merge does not build a PartialDate: %s" % show(r)[:120], f.loc)
                continue
            out = recs[0]
            problems = []

            def src(field):
                v = H.sfield(out, field)
                s = show(v)
                if "given[" in s or "$given" in s or "given" in [x.what for x in walk(v) if isinstance(x, H.Sym)]:
                    g = [x.parts[0] for x in walk(v) if isinstance(x, H.Sym) and x.what == "given"]
                    return ("given", g)
                fb = [str(x.parts[0]).rsplit("::", 1)[-1] for x in walk(v) if isinstance(x, H.Sym) and x.what == "call"
                      and x.parts[1] and show(x.parts[1][0]) == "$fallback"]
                if fb:
                    return ("fallback", fb)
                return ("other", s)
            expect = {}
            for n in names:
                if n == "day" and not has_day:
                    continue
                if case == "supplied":
                    expect[n] = ("given", [n])
                elif case == "absent":
                    expect[n] = ("fallback", [n])
                elif case == "month-only":
                    expect[n] = {"month": ("given", ["month"]), "month_code": ("given", ["month"])}.get(n, ("fallback", [n]))
                else:
                    expect[n] = {"month": ("given", ["month_code"]), "month_code": ("given", ["month_code"])}.get(n, ("fallback", [n]))
            for n, want in expect.items():
                got = src(n)
                if (case, n) in (("month-only", "month_code"), ("code-only", "month")) and H.sfield(out, n) == H.NONE_V:
                    # the counterpart of the supplied field may be left for the calendar resolution to derive (it handles
                    # month without code and code without month); what it must not be is the receiver's stale value
                    continue
                if got[0] != want[0] or (want[1][0] not in got[1]):
                    problems.append("%s <- %s (expected %s %s)" % (n, got, want[0], want[1]))
            cal = src("calendar")
            if not (cal[0] == "fallback" and "calendar" in cal[1]):
                problems.append("calendar <- %s (expected the receiver's calendar)" % (cal,))
            if not has_day:
                dv = H.sfield(out, "day")
                if not (isinstance(dv, H.Sym) and dv.what == "nofield") and dv != H.NONE_V and "default" not in show(dv).lower():
                    problems.append("year-month merge sets day to %s" % show(dv))
            run.check(not problems, rule, "%s/%s" % (meth, case), "all fields merged like with like",
                      "%s (%s case): %s" % (meth, case, "; ".join(problems)), f.loc)

        # The merge has no overflow parameter: an error that depends on the VALUE of a supplied numeric field is returned
        # under constrain as well, where the property demands clamping.  Folded at the month values around the valid range.
        ev2 = H.Evaluator(fx)
        ev2.inline = lambda p: p.startswith("temporal_rs::") and "::PartialDate::" not in p
        for m in (0, 13, 14, 255):
            vals = {n: H.NONE_V for n in names}
            vals["month"] = H.some(m)
            part = H.S(T + "date::PartialDate", tuple((n, vals[n]) for n in names) + (("calendar", H.Sym("given", ("calendar",))),))
            key = "%s/month=%d-not-rejected-by-merge" % (meth, m)
            try:
                r = ev2.call_fn(f, [part, H.Sym("param", ("fallback",))])
            except (H.Panic, H.Budget):
                run.ok(rule, key, "merge does not fold at month %d: not decided" % m, f.loc, nontrivial=False)
                continue
            if is_err(r):
                run.bad(rule, key, "%s returns an error for month = %d although it does not know the overflow option: "
                                   "`with` under constrain cannot clamp this month (from_partial does)" % (meth, m), f.loc)
            elif isinstance(r, H.V) and r.path == H.OK:
                run.ok(rule, key, "month %d passes the merge; the calendar resolution clamps or rejects it" % m, f.loc)
            else:
                run.ok(rule, key, "merge result at month %d is not a definite Ok/Err: not decided" % m, f.loc, nontrivial=False)


def check_merge_resolvable(run, fx, rs):
    rule = "R3.merged-record-resolvable"
    run.rule(rule, "the record with_fallback_* builds for a receiver that has an era (year, era and eraYear all present - the "
                   "shape R3.date-merge establishes for the all-absent and supplied cases) is accepted by the era/year "
                   "resolution: EraYear::try_from_partial_date folded on (Some, Some, Some) must not be a TypeError, "
                   "otherwise `with` fails for every date of an era calendar, whatever is supplied")
    f = rs.fn1("types::EraYear::try_from_partial_date")
    mf = rs.fn(T + "date::PartialDate::with_fallback_date")
    adt = rs.adts.get(T + "date::PartialDate")
    if f is None or mf is None or adt is None:
        run.undecided.append({"rule": rule, "key": "era-year", "gone": ["EraYear::try_from_partial_date / with_fallback_date"]})
        return
    names = [fl["name"] for fl in adt["variants"][0]["fields"]]
    # 1. what the merge builds when nothing but the day is supplied and the receiver has an era
    ev = H.Evaluator(fx)
    ev.inline = lambda p: False
    ev.stubs["::era"] = lambda args: H.some(H.Sym("recv-era", ()))
    ev.stubs["::era_year"] = lambda args: H.some(H.Sym("recv-era-year", ()))
    vals = {n: H.NONE_V for n in names}
    vals["day"] = H.some(H.Sym("given", ("day",)))
    part = H.S(T + "date::PartialDate", tuple((n, vals[n]) if n != "calendar" else (n, H.Sym("given", ("calendar",))) for n in names))
    try:
        r = ev.call_fn(mf, [part, H.Sym("param", ("fallback",))])
    except (H.Panic, H.Budget):
        r = None
    recs = [x for x in walk(r) if isinstance(x, H.S) and x.path.endswith("PartialDate") and x is not part] if r is not None else []
    if not recs:
        run.undecided.append({"rule": rule, "key": "era-year", "why": "the merge does not fold to a record"})
        run.ok(rule, "era-year", "merge does not fold: not decided", mf.loc, nontrivial=False)
        return
    out = recs[0]

    def present(n):
        v = H.sfield(out, n)
        # `opt.map(fallible).transpose()?`: on the success path the Option keeps its presence
        for _ in range(4):
            if isinstance(v, H.Sym) and v.what in ("try", "transpose") and len(v.parts) == 1:
                v = v.parts[0]
        if isinstance(v, H.V) and v.path == H.SOME:
            return True
        if v == H.NONE_V:
            return False
        return None
    shape = tuple(present(n) for n in ("year", "era", "era_year"))
    run.analysed["merged_era_year_shape"] = list(shape)
    if None in shape:
        run.undecided.append({"rule": rule, "key": "era-year", "why": "presence of year/era/eraYear in the merged record is not definite"})
        run.ok(rule, "era-year", "merged record's year/era/eraYear presence is not definite: not decided", mf.loc, nontrivial=False)
        return
    # 2. the resolution on exactly that presence pattern
    ev2 = H.Evaluator(fx)
    ev2.inline = lambda p: p.startswith("temporal_rs::error::")
    ev2.lossy = []
    rec = H.S(T + "date::PartialDate", tuple(
        (n, (H.some(H.Sym("param", (n,))) if shape[("year", "era", "era_year").index(n)] else H.NONE_V)) if n in ("year", "era", "era_year")
        else (n, H.Sym("param", (n,))) for n in names))
    try:
        paths = ev2.paths(f, [rec], max_paths=200)
    except (H.Budget, H.Panic):
        paths = None
    if not paths:
        run.undecided.append({"rule": rule, "key": "era-year", "why": "EraYear::try_from_partial_date does not enumerate"})
        run.ok(rule, "era-year", "resolution does not enumerate: not decided", f.loc, nontrivial=False)
        return
    kinds = set()
    for dec, res, tr in paths:
        kinds.add("Type" if (is_err(res) and err_kind(res) == "Type") else "other")
    run.check(kinds != {"Type"}, rule, "era-year",
              "the merged (year, era, eraYear) = %s pattern reaches a non-TypeError outcome" % (shape,),
              "with_fallback_* builds a record with year/era/eraYear presence %s for a receiver that has an era, and "
              "EraYear::try_from_partial_date returns a TypeError on every path for that pattern: `with` on a date of an era "
              "calendar (gregory, japanese, roc, ...) is always a TypeError" % (shape,), f.loc)


def check_required(run, fx, rs):
    rule = "R11.required-fields-type-error"
    run.rule(rule, "with / from_partial reach the field resolution only behind an emptiness or required-field check whose "
                   "failing side is a TypeError")
    sites = [
        ("date::PlainDate::with", "is_empty", "::date_from_partial"),
        ("time::PlainTime::with", "is_empty", "IsoTime::with"),
        ("time::PlainTime::from_partial", "is_empty", "IsoTime::with"),
        ("datetime::PlainDateTime::with", "is_empty", "::date_from_partial"),
        ("datetime::PlainDateTime::from_partial", "is_empty", "PlainDate::from_partial"),
        ("year_month::PlainYearMonth::with", "is_empty", "::year_month_from_partial"),
    ]
    for path, guard, kernel in sites:
        check_guarded_call(run, fx, rs.fn(T + path), guard, kernel, rule, path.split("::", 1)[1], kind="Type",
                           guard_pass=False)
    check_from_partial_required(run, fx, rs, rule)
    # the deeper required-field checks of the calendar resolution
    ev = H.Evaluator(fx)
    rd = rs.fn1("types::resolve_day")
    if rd is not None:
        got = fold(ev, rd, [H.NONE_V, False])
        run.check(got == ("err", "Type"), rule, "resolve_day/absent", "missing day -> TypeError",
                  "a missing required day gives %s, expected a TypeError" % (got,), rd.loc)
    ey = rs.fn1("EraYear::try_from_partial_date")
    if ey is not None:
        ev2 = H.Evaluator(fx)
        ev2.inline = lambda p: p.startswith("temporal_rs::error::")
        part = H.S(T + "date::PartialDate", (("year", H.NONE_V), ("era", H.NONE_V), ("era_year", H.NONE_V),
                                               ("calendar", H.Sym("cal", ()))))
        r = ev2.call_fn(ey, [part])
        run.check(is_err(r) and err_kind(r) == "Type", rule, "era_year/absent", "missing year -> TypeError",
                  "a record without year and era gives %s, expected a TypeError" % show(r)[:80], ey.loc)


def check_from_partial_required(run, fx, rs, rule):
    """PlainDate::from_partial, by value: folded on records in which one required group (year | era + eraYear; month |
    monthCode; day) is absent it returns a TypeError without reaching the calendar; on a complete record it reaches the
    calendar's date_from_partial.  However the test is written (`!a || !b || c.is_none()`, `!(a && b && c.is_some())`,
    `matches!` on a tuple, a helper)."""
    f = rs.fn(T + "date::PlainDate::from_partial")
    adt = rs.adts.get(T + "date::PartialDate")
    if f is None or adt is None or len(f.params) != 2:
        run.anchor_missing(rule, "date::PlainDate::from_partial", "PlainDate::from_partial / PartialDate not found")
        return
    names = [fl["name"] for fl in adt["variants"][0]["fields"]]
    need = {"year", "month", "month_code", "day", "era", "era_year", "calendar"}
    if not need <= set(names):
        run.anchor_missing(rule, "date::PlainDate::from_partial", "PartialDate no longer has the fields %s" % sorted(need - set(names)))
        return

    def record(absent):
        fs = []
        for nm in names:
            if nm == "calendar":
                fs.append((nm, H.Sym("param", ("calendar",))))
            elif nm in absent:
                fs.append((nm, H.NONE_V))
            elif nm in need:
                fs.append((nm, H.V(H.SOME, (H.Sym("param", (nm,)),))))
            else:
                fs.append((nm, H.Sym("param", (nm,))))
        return H.S(T + "date::PartialDate", tuple(fs))

    cases = [("complete", (), "kernel"),
             ("year-only", ("era", "era_year"), "kernel"),
             ("era-and-era-year-only", ("year",), "kernel"),
             ("month-only", ("month_code",), "kernel"),
             ("month-code-only", ("month",), "kernel"),
             ("no-day", ("day",), "Type"),
             ("no-month", ("month", "month_code"), "Type"),
             ("no-year-no-era", ("year", "era"), "Type"),
             ("no-year-no-era-year", ("year", "era_year"), "Type"),
             ("nothing", ("year", "era", "era_year", "month", "month_code", "day"), "Type")]
    for key, absent, want in cases:
        ev = H.Evaluator(fx)
        ev.inline = lambda p: not p.endswith("::date_from_partial")
        try:
            r = ev.call_fn(f, [record(absent), H.Sym("param", ("overflow",))])
        except (H.Panic, H.Budget) as e:
            run.ok(rule, "date::PlainDate::from_partial/" + key, "not foldable (%s): not decided" % e, f.loc, nontrivial=False)
            continue
        reached = any(str(c.parts[0]).endswith("::date_from_partial") for c in ev.trace)
        if is_err(r):
            got = err_kind(r)
        elif reached and not ev.lossy and isinstance(r, H.Sym) and r.what in ("call", "try"):
            got = "kernel"
        else:
            run.ok(rule, "date::PlainDate::from_partial/" + key, "folds to `%s`: not decided" % show(r)[:60], f.loc, nontrivial=False)
            continue
        if is_err(r) and reached:
            got = "kernel-then-" + got
        run.check(got == want, rule, "date::PlainDate::from_partial/" + key,
                  "record %s -> %s" % (key, "the calendar's date_from_partial" if want == "kernel" else "TypeError"),
                  "PlainDate::from_partial on a record with %s absent gives %s, expected %s" %
                  (list(absent) or "nothing", got, "the calendar resolution" if want == "kernel" else "a TypeError before it"), f.loc)


def check_clamps(run, fx, rs):
    rule = "R1.regulate-bounds"
    run.rule(rule, "IsoTime::new: constrain clamps to 0..23 / 0..59 / 0..59 / 0..999 x3, reject returns a RangeError for any "
                   "field outside them; month/monthCode conflict and out-of-range ISO dates under reject are RangeErrors")
    ev = H.Evaluator(fx)
    f = rs.fn("temporal_rs::iso::IsoTime::new")
    if f is None:
        run.anchor_missing(rule, "IsoTime::new", "not found")
        return
    C, R = H.V(OPT + "ArithmeticOverflow::Constrain", ()), H.V(OPT + "ArithmeticOverflow::Reject", ())
    maxes = [23, 59, 59, 999, 999, 999]
    big = [255, 255, 255, 65535, 65535, 65535]
    k, v = fold(ev, f, big + [C])
    got = None
    if k == "ok":
        got = [a for a in (v.args if isinstance(v, H.V) else [])] or ([x for _, x in v.fields] if isinstance(v, H.S) else None)
        if isinstance(v, H.Sym) and v.what == "call":
            got = list(v.parts[1])
    run.check(got == maxes, rule, "time/constrain-max", "constrain(max inputs) -> %s" % got,
              "IsoTime::new(constrain) clamps the maximal inputs to %s, expected %s" % (got, maxes), f.loc)
    for i in range(6):
        vals = list(maxes)
        k, v = fold(ev, f, vals + [R])
        okin = k == "ok"
        vals[i] = maxes[i] + 1
        k2, v2 = fold(ev, f, vals + [R])
        run.check(okin and k2 == "err" and v2 == "Range", rule, "time/reject/%s" % TIME_FIELDS[i],
                  "%s: %d accepted, %d -> RangeError" % (TIME_FIELDS[i], maxes[i], maxes[i] + 1),
                  "IsoTime::new(reject): %s=%d -> %s, %s=%d -> %s %s" % (TIME_FIELDS[i], maxes[i], "ok" if okin else "rejected",
                                                                      TIME_FIELDS[i], maxes[i] + 1, k2, v2), f.loc)
    g = rs.fn1("types::are_month_and_month_code_resolvable")
    if g is not None:
        ev2 = H.Evaluator(fx)
        ev2.inline = lambda p: p.startswith("temporal_rs::error::")
        outs = set()
        for dec, res, tr in ev2.paths(g, [H.Sym("param", ("month",)), H.Sym("param", ("mc",))]):
            if is_err(res):
                outs.add(err_kind(res))
        run.check(outs == {"Range"}, rule, "month-monthcode-conflict", "conflict -> RangeError",
                  "a month that contradicts the month code gives %s, expected a RangeError" % sorted(outs), g.loc)
    else:
        run.anchor_missing(rule, "month/monthCode", "are_month_and_month_code_resolvable not found")
    h = rs.fn("temporal_rs::iso::IsoDate::regulate")
    if h is not None:
        ev3 = H.Evaluator(fx)
        ev3.inline = lambda p: p.startswith("temporal_rs::error::")
        kinds = set()
        for dec, res, tr in ev3.paths(h, [H.Sym("param", ("year",)), H.Sym("param", ("month",)), H.Sym("param", ("day",)), R]):
            if is_err(res):
                kinds.add(err_kind(res))
        run.check(kinds == {"Range"}, rule, "date/reject", "invalid date under reject -> RangeError",
                  "IsoDate::regulate(reject) fails with %s, expected a RangeError" % sorted(kinds), h.loc)
        ev4 = H.Evaluator(fx)
        ev4.inline = lambda p: False
        ev4.call_fn(h, [H.Sym("param", ("year",)), H.Sym("param", ("month",)), H.Sym("param", ("day",)), C])
        r4 = ev4.call_fn(h, [H.Sym("param", ("year",)), H.Sym("param", ("month",)), H.Sym("param", ("day",)), C])
        cl = [x for x in walk(r4) if isinstance(x, H.Sym) and x.what == "clamp"]
        for c in ev4.trace:
            cl += [x for x in walk(c) if isinstance(x, H.Sym) and x.what == "clamp"]
        okc = bool(cl) and all(list(c.parts[1:]) == [1, 12] and show(c.parts[0]) == "$month" for c in cl)
        run.check(okc, rule, "date/constrain-month", "month.clamp(1, 12)",
                  "IsoDate::regulate(constrain) clamps the month with %s" % sorted({show(c) for c in cl}), h.loc)


def main(tier):
    run, fx = start("C17", tier)
    rs = fx["temporal_rs"]
    check_time_merge(run, fx, rs)
    check_date_merge(run, fx, rs)
    check_merge_resolvable(run, fx, rs)
    check_required(run, fx, rs)
    check_clamps(run, fx, rs)
    # the month / monthCode consistency test looks at the month as supplied
    rule = "R11.month-code-compared-with-supplied-month"
    run.rule(rule, "resolve_iso_month compares `monthCode` with the `month` field exactly as supplied: a month that was first "
                   "clamped (constrain) can be made to agree with a month code it contradicts (month 13 with M12)")
    frm = fx["temporal_rs"].fn("temporal_rs::builtins::core::calendar::types::resolve_iso_month")
    if frm is None:
        run.anchor_missing(rule, "resolve_iso_month", "not found")
    else:
        ev = H.Evaluator(fx)
        ev.inline = lambda p: p.startswith("temporal_rs::error::")
        conds = set()
        for dec, res, tr in ev.paths(frm, [H.Sym("param", (p["name"],)) for p in frm.params], max_paths=200):
            for c, ch in dec:
                if "to_month_integer" in c and c.startswith(("bin!=", "bin==")):
                    conds.add(c)
        if not conds:
            run.anchor_missing(rule, "comparison", "no month/monthCode comparison found in resolve_iso_month", frm.loc)
        for c in sorted(conds):
            raw = "$partial_date.month" in c and not any(w in c for w in ("clamp", "min[", "max[", "Ord::min", "Ord::max"))
            run.check(raw, rule, "comparison", "compares the supplied month: %s" % c[:100],
                      "the month compared with the month code is not the supplied field (it went through a clamp): %s" % c[:200],
                      frm.loc)
    # R2: the caller's overflow option reaches every callee that takes one
    rule = "R2.overflow-option-forwarded"
    run.rule(rule, "in every function that receives an `overflow` option (ArithmeticOverflow), each callee that has an overflow "
                   "parameter is passed a value derived from the caller's option - never a constant or None (so `reject` "
                   "reaches the date half AND the time half, and `constrain` is never silently substituted)")
    rs = fx["temporal_rs"]

    def ov_params(g):
        return [k for k, p in enumerate(g.params) if "ArithmeticOverflow" in p["ty"]]
    n_inst = 0
    for f in rs.fns:
        if f.hir is None or f.kind not in ("Fn", "AssocFn"):
            continue
        mine = [f.params[k]["name"] for k in ov_params(f)]
        if not mine:
            continue
        ev = H.Evaluator(fx)
        ev.inline = lambda p: False
        try:
            ev.call_fn(f, [H.Sym("param", (p["name"],)) for p in f.params])
        except (H.Panic, H.Budget):
            continue
        seen = {}
        for c in ev.trace:
            g = rs.fn(str(c.parts[0]))
            if g is None:
                continue
            for k in ov_params(g):
                if k < len(c.parts[1]):
                    a = show(c.parts[1][k])
                    ordn = seen[g.path] = seen.get(g.path, 0) + 1
                    n_inst += 1
                    key = "%s->%s#%d" % (f.path.replace("temporal_rs::builtins::core::", "").replace("temporal_rs::", ""), g.name, ordn)
                    run.check(any("$" + m in a for m in mine), rule, key, "passes %s" % a[:60],
                              "%s calls %s with overflow = %s, which does not depend on its own `%s` option" %
                              (f.name, g.path.replace("temporal_rs::", ""), a[:80], mine[0]), f.loc)
    run.analysed["overflow_forwarding_call_sites"] = n_inst
    if n_inst < 40:
        run.anchor_missing(rule, "instances", "only %d call sites forward an overflow option (expected >= 40)" % n_inst)
    from ..rules import extra as _x
    _x.check_regulate_boundaries(run, fx)
    return run.finish(EXPLANATION)
