"""C20 — the shared time-zone provider is thread-safe and survives failed calls (structural, in full)."""
from ..core import Run
from ..facts import Facts
from .. import mirq as M
from ..rules import provider

EXPLANATION = (
    "Static lock-discipline and effect analysis (R10) on the MIR (mir-opt-level 0) and item facts exported from /repo's "
    "current tree (workspace, --features compiled_data). For each of the functions that touch the static TZ_PROVIDER: "
    "def-use chains show the static is only dereferenced and locked (L1) and the MutexGuard is a local that is only "
    "dereferenced and dropped (L2); a resolved call graph (trait calls on impl TimeZoneProvider fanned out to every "
    "impl, Display edges through ToString/format) shows no function reachable while the guard is live locks again (L3) "
    "or touches another synchronisation primitive (L4); the type checker's own verdict FsTzdbProvider: Send + !Sync, "
    "the static's type and the absence of unsafe Send/Sync impls are read from the compiler; the provider's only state "
    "is a memo keyed by the identifier and mutated in one function (L5, shared with C15); the PoisonError of every "
    "lock() must be recovered (L6). With a single non-reentrant mutex, L1-L4 are deadlock freedom and L1/L2/L5 make "
    "every concurrent execution equivalent to a sequential one for all interleavings."
)


def main(tier):
    run = Run("C20", tier)
    fx = Facts("full")
    run.tree_hash = fx.hash
    run.configs.append({"config": "full", "crates": fx.summary()})
    cg = M.CallGraph(fx, ["temporal_rs", "temporal_provider"])
    provider.check_lock_discipline(run, fx, cg)
    provider.check_effects(run, fx, cg)
    provider.check_cache_key(run, fx)
    run.analysed["call_graph_functions"] = len(cg.fns)
    run.assumptions += ["code outside temporal_rs/temporal_provider (std, icu, tzif, combine) cannot name TZ_PROVIDER and "
                        "is not followed by the call graph", "std::sync::Mutex and LazyLock are correct",
                        "a panic inside BTreeMap::entry/or_insert leaves the map usable (std's panic safety)"]
    return run.finish(EXPLANATION)
