"""C03 — no public operation panics or reports an internal assertion failure (inventory + guards)."""
import json
import re
import os
from ._std import *
from .. import mirq as M
from ..rules import panics, indexguard, intervals, digitguard
from ..facts import VERIF, fixture_facts
from .. import baseline

EXPLANATION = (
    "Static panic-construct inventory (R8) over the MIR of temporal_rs (workspace build with compiled data) and "
    "temporal_capi, exported from /repo's current tree: every call of a panicking function (panic!, unreachable!, "
    "unimplemented!, assert!, assert_eq!, debug_assert!), every Option/Result unwrap/expect, every temporal_unwrap, "
    "every construction of TemporalError::assert(), every Index::index call and every array bounds assertion in a "
    "function reachable through the resolved call graph from an externally reachable function must be discharged: "
    "automatically (constant index below a constant length; list index dominated by a length/emptiness guard on every "
    "CFG path), or by an entry of the reviewed table tlint/data/panic_review.json (one reason per site, keyed by "
    "function/kind/ordinal, never by line); table entries that rest on a caller's validation carry guard obligations "
    "that are re-checked on every run by CFG-path extraction (the named guard must be decided on every path that "
    "reaches the kernel). A construct that is not discharged is a violation; reachable ones with a concrete input are "
    "known findings. Rule R9 adds a context-sensitive interval + taint analysis over the same MIR for the arithmetic "
    "assertions the compiler emits (overflow of + - * and negation, division by zero, shifts, bounds): values the caller "
    "of a public function controls (numeric parameters, fields of duration/partial records, provider results, the "
    "position found by a binary search) are tracked with their exact range through casts, field reads, `?`, closures, "
    "generic instantiations and range checks; a site is reported only when operands whose bounds are attained by "
    "independent caller-controlled sources can leave the type.  NOT decided: overflow that depends on relations between "
    "values (loop counters, quotient times divisor, values correlated through comparisons) - such sites are counted as "
    "unresolved, never reported - and termination of the candidate loops (see DESIGN)."
)
CRATES = ["temporal_rs", "temporal_capi"]


def const_operand(op, body=None):
    k = op.get("k") if isinstance(op, dict) else None
    if k and isinstance(k.get("val"), int):
        return k["val"]
    if body is not None:
        l = M.op_local(op)
        if l is not None:
            ds = body.defs().get(l, [])
            if len(ds) == 1 and ds[0][2] == "assign" and ds[0][3][2][0] == "use":
                return const_operand(ds[0][3][2][1])
    return None


def guard_holds(fx, rs, fn_suffix, guard, kernel, want):
    f = rs.fn1(fn_suffix) or rs.fn("temporal_rs::builtins::core::" + fn_suffix)
    if f is None:
        return False, "function %s not found" % fn_suffix
    ev = H.Evaluator(fx)
    ev.inline = lambda p: p.startswith("temporal_rs::error::")
    try:
        paths = ev.paths(f, [H.Sym("param", (p["name"],)) for p in f.params], max_paths=400)
    except H.Budget:
        return False, "function too large for path enumeration"
    reach = bad = 0
    for dec, res, tr in paths:
        if any(str(c.parts[0]).endswith(kernel) for c in tr):
            reach += 1
            vals = []
            for c, ch in dec:
                if guard in c:
                    negs = 0
                    s = c
                    while s.startswith("un!["):
                        negs += 1
                        s = s[4:]
                    vals.append((not ch) if negs % 2 else ch)
            # `a || b` style guards: the decision is on the whole disjunction
            if not vals or not all(v is want for v in vals):
                bad += 1
    if reach == 0:
        return False, "no path of %s reaches %s any more" % (f.name, kernel)
    return bad == 0, "%d of %d paths reach %s without `%s` == %s" % (bad, reach, kernel, guard, want)


R9_CONTROL_BAD = {"bad_add", "bad_scale", "bad_index", "bad_abs", "bad_dependent", "bad_guard_helper"}
R9_CONTROL_GOOD = {"good_add", "good_scale", "good_index", "good_loop", "good_dependent", "good_narrow", "good_flag", "good_flag_int", "good_guard_helper"}


CAL_IDS = ("iso8601", "gregory", "japanese", "buddhist", "roc", "coptic", "ethiopic", "ethioaa", "hebrew", "indian", "persian",
           "chinese", "dangi", "islamic", "islamic-civil", "islamic-rgsa", "islamic-tbla", "islamic-umalqura")


def month_code_guard(run, fx, rs):
    rule = "R8.month-code-guard"
    run.rule(rule, "MonthCode::validate is the guard behind `unreachable!` in iso_days_in_month and behind the month arithmetic of "
                   "the field resolution: folded on every syntactically possible code (M00..M99, with and without L) for "
                   "every calendar identifier, it must accept only codes whose number is in 1..=13, and for the ISO calendar "
                   "only M01..M12")
    f = rs.fn1("types::MonthCode::validate")
    if f is None:
        run.undecided.append({"rule": rule, "key": "validate", "gone": ["MonthCode::validate"]})
        return
    MC = "temporal_rs::builtins::core::calendar::types::MonthCode"
    decided = und = 0
    bad = {}
    for ident in CAL_IDS:
        for num in range(100):
            for leap in (False, True):
                code = "M%02d%s" % (num, "L" if leap else "")
                ev = H.Evaluator(fx)
                ev.inline = lambda p: p.startswith("temporal_rs::")
                ev.stubs["Calendar::identifier"] = lambda args, ident=ident: ident
                ev.stubs["Calendar::is_iso"] = lambda args, ident=ident: ident == "iso8601"
                ev.lossy = []
                try:
                    r = ev.call_fn(f, [H.S(MC, (("0", code),)), H.Sym("param", ("calendar",))])
                except (H.Panic, H.Budget):
                    und += 1
                    continue
                if ev.lossy or not (is_err(r) or (isinstance(r, H.V) and r.path == H.OK)):
                    und += 1
                    continue
                decided += 1
                if isinstance(r, H.V) and r.path == H.OK:
                    if not 1 <= num <= 13 or (ident == "iso8601" and (leap or num > 12)):
                        bad.setdefault(ident if ident == "iso8601" or 1 <= num <= 13 else "*", []).append(code)
    run.analysed["month_code_folds_decided"] = decided
    run.analysed["month_code_folds_undecided"] = und
    run.exhaustive_tables.append("MonthCode::validate: 200 codes x %d calendar identifiers (%d decided)" % (len(CAL_IDS), decided))
    if decided == 0:
        run.undecided.append({"rule": rule, "key": "validate", "why": "MonthCode::validate does not fold on concrete codes"})
        run.ok(rule, "validate", "does not fold: not decided", f.loc, nontrivial=False)
        return
    for ident, codes in sorted(bad.items()):
        codes = sorted(set(codes))
        run.bad(rule, "validate/%s" % ident, "MonthCode::validate accepts %s for %s: the month number reaches iso_days_in_month / "
                                            "the month arithmetic outside 1..=12(13) (`unreachable!` / wrong month)" %
                (", ".join(codes[:6]), "the ISO calendar" if ident == "iso8601" else "every calendar"), f.loc)
    if not bad:
        run.ok(rule, "validate", "accepted codes have numbers in 1..=13, ISO only M01..M12 (%d folds decided, %d not)" % (decided, und), f.loc)


def month_code_syntax(run, fx, rs):
    rule = "R8.month-code-syntax"
    run.rule(rule, "MonthCode::try_from_utf8 is the only way caller bytes become a MonthCode; the `- 48` arithmetic and the "
                   "debug assertions of ascii_four_to_integer rely on bytes 1 and 2 being ASCII digits. Folded on byte strings "
                   "of length 0..=5 built from the neighbours of every character class boundary (M, digits, L), it must "
                   "accept exactly M<digit><digit> and M<digit><digit>L")
    f = rs.fn1("types::MonthCode::try_from_utf8")
    if f is None:
        run.undecided.append({"rule": rule, "key": "try_from_utf8", "gone": ["MonthCode::try_from_utf8"]})
        return
    first = "LMN"
    mid = "/09:A"
    last = ["", "K", "L", "M"]
    cands = ["", "M", "M0", "M00LL", "M01L0"]
    for a in first:
        for b in mid:
            for c in mid:
                for d in last:
                    cands.append(a + b + c + d)
    decided = und = 0
    wrong_ok, wrong_err = [], []
    for sx in cands:
        ev = H.Evaluator(fx)
        ev.inline = lambda p: p.startswith("temporal_rs::")
        ev.lossy = []
        try:
            r = ev.call_fn(f, [H.T(tuple(ord(ch) for ch in sx))])
        except (H.Panic, H.Budget):
            und += 1
            continue
        ok = isinstance(r, H.V) and r.path == H.OK
        if ev.lossy or not (ok or is_err(r)) or (ok and H.has_sym(r)):
            und += 1
            continue
        decided += 1
        want = len(sx) in (3, 4) and sx[0] == "M" and sx[1].isdigit() and sx[2].isdigit() and (len(sx) == 3 or sx[3] == "L")
        if ok and not want:
            wrong_ok.append(sx)
        elif want and not ok:
            wrong_err.append(sx)
    run.analysed["month_code_syntax_folds_decided"] = decided
    run.analysed["month_code_syntax_folds_undecided"] = und
    run.exhaustive_tables.append("MonthCode::try_from_utf8: %d boundary byte strings (%d decided)" % (len(cands), decided))
    if decided == 0:
        run.undecided.append({"rule": rule, "key": "try_from_utf8", "why": "does not fold on concrete bytes"})
        run.ok(rule, "try_from_utf8", "does not fold: not decided", f.loc, nontrivial=False)
        return
    run.check(not wrong_ok, rule, "try_from_utf8/accepts-only-digits",
              "only M<d><d>[L] is accepted (%d folds decided, %d not)" % (decided, und),
              "MonthCode::try_from_utf8 accepts %s: bytes 1-2 are not ASCII digits / the code is malformed, and the month "
              "arithmetic (`byte - 48`, debug assertions) runs on them" % ", ".join(repr(x) for x in wrong_ok[:6]), f.loc)
    # well-formed codes that are rejected (a stricter syntax check) are not a panic: counted, not judged
    run.analysed["month_code_syntax_wellformed_rejected"] = len(wrong_err)


def digit_unwraps(run, fx):
    rule = "R8.digit-unwrap-guard"
    run.rule(rule, "an unwrapped `char::to_digit(r)` is preceded, in the function that unwraps it or its callees, by a test that "
                   "implies to_digit(r).is_some() (is_ascii_digit, '0'..='9', is_digit(r' <= r)); a weaker class test "
                   "(is_numeric, is_alphanumeric, ...) as the only validation is a reachable panic on non-ASCII digits")
    obl = digitguard.obligations(fx, CRATES)
    run.analysed["digit_unwrap_obligations"] = len(obl)
    for f, n, radix, line in obl:
        key = "%s/to_digit-unwrap#%d" % (f.path, n)
        loc = "%s:%s" % (f.file, line if isinstance(line, int) else f.line)
        verdict, why, scope = digitguard.decide(fx, CRATES, f, radix)
        if verdict == "bad":
            run.bad(rule, key, "to_digit(%s) is unwrapped in %s but %s" % (radix, f.path, why), loc)
        elif verdict == "ok":
            run.ok(rule, key, "%s (%d functions in scope)" % (why, scope), loc)
        else:
            run.undecided.append({"rule": rule, "key": key, "why": why})
            run.ok(rule, key, "not decided: " + why, loc, nontrivial=False)


def r9(run, fx):
    rule = "R9.caller-controlled-overflow"
    run.rule(rule, "no arithmetic assertion (overflow of + - * or negation, division by zero, shift, bounds) can be made to fail "
                   "by values the caller controls: every such site whose operands are exact caller-controlled ranges from "
                   "independent sources must stay inside its type")
    # controls: the engine must flag the three seeded overflows of the fixture crate and stay silent on their guarded twins
    ceng = intervals.analyse(fixture_facts("r9_control"), ("r9_control",))
    flagged = {p.rsplit("::", 1)[-1] for (p, k) in ceng.alarms}
    run.control(rule, R9_CONTROL_BAD <= flagged, "fixtures/r9_control: %s must be reported (got %s)" %
                (", ".join(sorted(R9_CONTROL_BAD)), sorted(flagged)))
    run.check(not (flagged & R9_CONTROL_GOOD), rule, "negative-control", "guarded twins of the control crate are not reported",
              "the engine reports guarded code of the control crate: %s" % sorted(flagged & R9_CONTROL_GOOD))
    res = intervals.results(fx)
    sites = [x for x in res["sites"] if x["kind"] != "narrowing"]
    # the FFI layer: its own arithmetic (packing / unpacking of wide integers, index conversions) on caller-chosen arguments
    capi = intervals.results(fx, "temporal_capi")
    capi_sites = [x for x in capi["sites"] if x["kind"] != "narrowing"]
    run.analysed["r9_capi_entry_points"] = capi["stats"].get("entry_points", 0)
    run.analysed["r9_capi_sites"] = len(capi_sites)
    if capi["stats"].get("entry_points", 0) < 200:
        run.anchor_missing(rule, "capi-coverage", "only %d entry points of temporal_capi analysed (expected >= 200)" %
                           capi["stats"].get("entry_points", 0))
    st = {0: 0, 1: 0, 2: 0}
    for x in sites:
        st[x["status"]] += 1
    stats = res["stats"]
    run.analysed["r9_entry_points"] = stats.get("entry_points", 0)
    run.analysed["r9_function_contexts"] = stats.get("contexts", 0)
    run.analysed["r9_functions_analysed"] = stats.get("functions", 0)
    run.analysed["r9_sites_proved"] = st[0]
    run.analysed["r9_sites_unresolved_not_reported"] = st[1]
    run.analysed["r9_sites_reported"] = st[2]
    run.analysed["r9_possible_but_inexact_not_reported"] = stats.get("inexact_possible", 0)
    run.analysed["r9_monotone_kernel_folds"] = stats.get("monotone_folds", 0)
    if stats.get("entry_points", 0) < 700 or len(sites) < 350:
        run.anchor_missing(rule, "coverage", "only %d entry points / %d arithmetic sites analysed (expected >= 700 / >= 350)" %
                           (stats.get("entry_points", 0), len(sites)))
    # stable keys: <function>/<kind>#<ordinal among the sites of that kind in the function, in block order>
    for x in sites + capi_sites:
        key = "%s/%s#%d" % (x["fn"].replace("temporal_rs::", ""), x["kind"], x["ordinal"])
        loc = "%s:%s" % (x["file"], x["line"] or x["fn_line"])
        if x["status"] == 2:
            chain = " > ".join(c.replace("temporal_rs::", "").replace("builtins::core::", "") for c in x["chain"])
            run.bad(rule, key, "%s  [reached through: %s]" % (x["text"], chain), loc)
        elif x["status"] == 0:
            run.ok(rule, key, "proved inside its type for every caller-controlled input", loc)
        else:
            run.ok(rule, key, "unresolved (operands of unknown or relational provenance): not reported", loc, nontrivial=False)
    run.assumptions += [
        "A-ISO/A-DUR: arguments of the record types IsoDate, IsoTime, IsoDateTime, PlainTime, PlainMonthDay, Duration, DateDuration "
        "and TimeDuration satisfy their documented validity (the unchecked public constructors of these records are an escape "
        "hatch; the duration ones are recorded under C02)",
        "values of the six typestate-checked types (C02 rule R6) satisfy their limits wherever they come from",
        "TimeZoneProvider methods are called with the epoch nanoseconds of a valid instant (+- one day)",
        "debug assertions bound nothing (they vanish in release builds)",
    ]


def _indexes_fixed_array(call, f):
    """is the Index::index call applied to a fixed-size array (`[T; N]`), not to a Vec / slice of run-time length?"""
    import re
    try:
        body = M.Body(f)
        a0 = call.args[0]
        l = M.op_local(a0)
        ty = body.local_ty(l) if l is not None else (a0.get("k") or {}).get("ty", "")
    except Exception:
        return False
    return bool(re.match(r"^&?(mut )?\[.*; \d+\]$", (ty or "").strip()))


def _const_range_of_array(f, line):
    """is every index expression on that line `ARRAY[a..b]` with literal bounds inside the fixed length of the array type?"""
    import re
    from ..rules.common import hir_walk, node_line
    found = False
    for x in hir_walk(f.hir) if f.hir is not None else []:
        if isinstance(x, dict) and x.get("k") == "index" and node_line(x) == line:
            base_ty = str((x.get("a") or {}).get("ty", "")).lstrip("&")
            m = re.match(r"\[.*; (\d+)\]$", base_ty)
            ix = x.get("b") or {}
            if not m or ix.get("k") != "struct":
                return False
            n = int(m.group(1))
            ends = []
            for fld in ix.get("fields", []):
                e = fld[1] if isinstance(fld, (list, tuple)) else (fld.get("e") if isinstance(fld, dict) else None)
                if not isinstance(e, dict):
                    return False
                if e.get("k") == "lit" and isinstance(e.get("v"), dict) and "int" in e["v"]:
                    ends.append(e["v"]["int"])
                elif e.get("k") == "path" and isinstance(e.get("val"), int) and not isinstance(e.get("val"), bool):
                    ends.append(e["val"])           # a named constant, evaluated by the compiler
                else:
                    return False
            if not ends or max(ends) > n:
                return False
            found = True
    return found


def _unreached_panic_lines(fx, f):
    """lines of panic constructs in f that no enumerated path reaches; None when the enumeration is not possible"""
    import itertools
    doms = []
    for q in f.params:
        ty = (q.get("ty") or "").lstrip("&").strip()
        adt = None
        for c in fx.crates.values():
            adt = adt or c.adts.get(ty)
        if adt is not None and adt.get("kind") == "enum" and adt["variants"] and not any(v.get("fields") for v in adt["variants"]):
            doms.append([H.V("%s::%s" % (ty, v["name"]), ()) for v in adt["variants"]])
        else:
            doms.append([H.Sym("param", (q["name"],))])
    n = 1
    for d in doms:
        n *= len(d)
    if n > 64 or f.hir is None:
        return None
    reached = set()
    lines = set()
    for node in H._walk_nodes(f.hir):
        pass
    for combo in itertools.product(*doms):
        ev = H.Evaluator(fx)
        ev.inline = lambda p: False
        try:
            paths = ev.paths(f, list(combo), max_paths=256)
        except (H.Budget, H.Panic):
            return None
        if ev.lossy:
            return None
        for dec, res, tr in paths:
            if isinstance(res, H.Panic):
                reached.add(res.line)
            else:
                for x in walk(res):
                    if isinstance(x, H.Sym) and x.what == "panic" and len(x.parts) > 1:
                        reached.add(x.parts[1])

    class Dead:
        def __contains__(self, line):
            return line not in reached
    return Dead()


def main(tier):
    run, fx = start("C03", tier)
    rs = fx["temporal_rs"]
    # debug assertions that were shown to fire (open known findings, with a witness) stay reported
    try:
        with open(os.path.join(VERIF, "known_findings.json")) as fh:
            open_findings = {k["key"] for k in json.load(fh)["findings"] if k.get("status") == "open"}
    except (OSError, ValueError, KeyError):
        open_findings = set()
    r9_sites = {}
    for x in intervals.results(fx)["sites"]:
        r9_sites.setdefault(x["fn"], []).append(x)
    with open(os.path.join(VERIF, "tlint", "data", "panic_review.json")) as fh:
        review = json.load(fh)["sites"]
    rule = "R8.panic-inventory"
    run.rule(rule, "every reachable panic construct (panicking macro, unwrap/expect, temporal_unwrap, TemporalError::assert, "
                   "Index::index, bounds assertion) is discharged by a recognised guard or by a reviewed table entry "
                   "whose guard obligations hold")
    inv = panics.inventory(fx, CRATES)
    cg = M.CallGraph(fx, CRATES)
    roots = [f.path for c in CRATES for f in fx[c].fns if f.reachable and f.mir is not None]
    reach = cg.closure(roots)
    run.analysed["panic_sites"] = len(inv)
    run.analysed["externally_reachable_functions"] = len(roots)
    run.analysed["call_graph_closure"] = len(reach)
    if len(inv) < 60:
        run.anchor_missing(rule, "inventory", "only %d panic constructs found (expected >= 60): the inventory is broken" % len(inv))
    used = set()
    guard_cache = {}
    index_fns = {}
    # a reviewed construct that moved between a function and its own closures (a closure flattened into its parent, a
    # block wrapped into a closure) keeps its review: entries of the same function family and kind whose exact site no
    # longer exists are handed, in order, to constructs of that family and kind that have no entry of their own
    fam = lambda p: re.sub(r"(::\{closure#\d+\})+$", "", p)
    present = {"%s/%s#%d" % (f.path, kd, o) for f, kd, o, _, _ in inv}
    orphans = {}
    for k in sorted(review):
        if k not in present and "/" in k:
            pth, rest = k.rsplit("/", 1)
            orphans.setdefault((fam(pth), rest.split("#", 1)[0]), []).append(k)
    # a function that has MORE constructs of a kind than reviewed entries gained one (an `unreachable!()` in an inner match
    # whose outer arm already excludes the case): each surplus site is tried by finite enumeration - the function folded
    # along every path for every valuation of its fieldless-enum parameters, everything else opaque; a site no path reaches
    # is discharged, and the reviewed entries go, in order, to the sites that remain
    enumerated = {}
    by_fk = {}
    for f, kind, ordinal, line, node in inv:
        by_fk.setdefault((f.path, kind), []).append((ordinal, line, f))
    shifted = {}
    for (fpath, kind), sites in by_fk.items():
        if not kind.startswith("panic:") or kind.startswith("panic:debug_assert") or fpath not in reach:
            continue
        have = sum(1 for k in review if k.rsplit("#", 1)[0] == "%s/%s" % (fpath, kind))
        if have == 0 or len(sites) <= have or baseline.is_new(fpath):
            continue
        dead = _unreached_panic_lines(fx, sites[0][2])
        if dead is None:
            continue
        keep = 0
        for ordinal, line, f in sorted(sites):
            if line in dead and len(sites) - len([1 for o, l, _ in sites if ("%s/%s#%d" % (fpath, kind, o)) in enumerated]) > have:
                enumerated["%s/%s#%d" % (fpath, kind, ordinal)] = line
            else:
                keep += 1
                shifted["%s/%s#%d" % (fpath, kind, ordinal)] = "%s/%s#%d" % (fpath, kind, keep)
    # kinds that are the same construct written differently: `x.temporal_unwrap()?` IS `debug_assert!(x.is_some());
    # x.ok_or(TemporalError::assert())?` - a reviewed site of one form keeps its review in the other form
    SAME = {"assert-error": ("temporal_unwrap",), "temporal_unwrap": ("assert-error",)}
    adopted = {}
    for f, kind, ordinal, line, node in inv:
        k = "%s/%s#%d" % (f.path, kind, ordinal)
        if k in enumerated:
            continue
        if k in shifted and shifted[k] != k:
            if shifted[k] in review:
                adopted[k] = shifted[k]
            continue
        if k not in review and orphans.get((fam(f.path), kind)):
            adopted[k] = orphans[(fam(f.path), kind)].pop(0)
        elif k not in review:
            for alt in SAME.get(kind, ()):
                if orphans.get((fam(f.path), alt)):
                    adopted[k] = orphans[(fam(f.path), alt)].pop(0)
                    break
    for f, kind, ordinal, line, node in inv:
        key = "%s/%s#%d" % (f.path, kind, ordinal)
        loc = "%s:%s" % (f.file, line)
        if f.path not in reach:
            run.ok(rule, key, "not reachable from an external entry point", loc, nontrivial=False)
            continue
        if kind == "bounds":
            body = M.Body(f)
            ln, ix = (const_operand(o, body) for o in node["ops"])
            if ln is not None and ix is not None and ix < ln:
                run.ok(rule, key, "constant index %d below constant length %d" % (ix, ln), loc)
                continue
        if kind == "index" and f.file in ("src/builtins/core/timezone.rs", "src/builtins/core/zoneddatetime.rs"):
            if f.path not in index_fns:
                before = len(run.violations)
                n = indexguard.check_fn(run, fx, f)
                index_fns[f.path] = (n, len(run.violations) == before)
            n, okf = index_fns[f.path]
            if n > 0:
                run.check(okf, rule, key, "list index guarded on every path (R8.index-guard)",
                          "index into a list without a dominating length check in %s" % f.name, loc)
                continue
        if key in enumerated:
            run.ok(rule, key, "no path of %s reaches this construct for any valuation of its enum parameters (finite enumeration, "
                   "callees opaque)" % f.name, loc)
            continue
        ent = review.get(key) if not (key in shifted and shifted[key] != key) else None
        if ent is None and key in adopted:
            ent = review[adopted[key]]
            used.add(adopted[key])
        if ent is None and (kind == "bounds" or (kind == "index" and _indexes_fixed_array(node, f))):
            # an unreviewed `a[i]` / `ARRAY[a..b]` on a fixed-size array: R9 treats it like every other assertion site -
            # proved (discharged), reported by R9 itself when a caller-controlled index can reach the length, or left
            # unresolved (a loop counter, an index read from a table): then nothing is claimed here either
            st = [x["status"] for x in r9_sites.get(f.path, []) if x["kind"] == "bounds"]
            if st and all(v == 0 for v in st):
                run.ok(rule, key, "index proved below the length by the interval analysis (R9) in every context", loc)
                continue
            if not any(v == 2 for v in st):
                run.undecided.append({"rule": rule, "key": key, "gone": ["unreviewed index into a fixed-size array in %s" % f.path]})
                run.ok(rule, key, "unreviewed index into a fixed-size array, not resolved by the interval analysis: not decided",
                       loc, nontrivial=False)
                continue
        if ent is None and kind == "index" and _const_range_of_array(f, line):
            run.ok(rule, key, "constant sub-range of a fixed-size array, inside its length", loc)
            continue
        if ent is None and kind.startswith("panic:debug_assert") and "%s/%s" % (rule, key) not in open_findings:
            # a debug assertion nobody reviewed: it is absent from release builds and fires in debug builds only if its
            # condition can be false; this inventory does not evaluate conditions, so nothing is decided (an unreviewed
            # assert! / panic! / unwrap / expect in a function of the baseline is still reported below)
            run.undecided.append({"rule": rule, "key": key, "gone": ["unreviewed debug_assert! in %s" % f.path]})
            run.ok(rule, key, "unreviewed debug_assert! in %s: not decided" % f.path, loc, nontrivial=False)
            continue
        if ent is None and baseline.is_new(f.path):
            # a function that did not exist when the sites were reviewed: a helper extracted from reviewed code (its
            # panic constructs moved with it).  Nothing is decided about it here; R9 still reports what it can show.
            run.undecided.append({"rule": rule, "key": key, "gone": ["new function %s" % f.path]})
            run.ok(rule, key, "`%s` in %s, a function introduced after the review inventory: not decided" % (kind, f.path), loc,
                   nontrivial=False)
            continue
        if ent is None:
            run.bad(rule, key, "unreviewed panic construct `%s` in %s, reachable from the public API: show the guard that "
                               "makes it unreachable (add it to tlint/data/panic_review.json with the reason) or return an "
                               "error instead" % (kind, f.path), loc)
            continue
        used.add(key)
        ok = True
        why = ent["reason"]
        for g in ent.get("guards", []):
            gk = tuple(g)
            if gk not in guard_cache:
                guard_cache[gk] = guard_holds(fx, rs, *g)
            gok, gwhy = guard_cache[gk]
            if not gok:
                ok = False
                why = "the guard this entry relies on no longer holds: " + gwhy
        run.check(ok, rule, key, "reviewed: " + ent["reason"][:150], "%s in %s: %s" % (kind, f.name, why), loc)
    digit_unwraps(run, fx)
    month_code_guard(run, fx, rs)
    month_code_syntax(run, fx, rs)
    r9(run, fx)
    stale = [k for k in review if k not in used and not any(k == "%s/%s#%d" % (f.path, kd, o) for f, kd, o, _, _ in inv)]
    run.analysed["review_entries"] = len(review)
    run.analysed["review_entries_stale"] = len(stale)
    run.analysed["guard_obligations"] = len(guard_cache)
    run.notes.append("stale review entries (site no longer exists; harmless): %s" % stale[:10])
    run.assumptions += ["the reasons in tlint/data/panic_review.json (human review, one line per site)",
                        "temporal_provider is a build-time data generator and not part of the runtime API (its unwraps are "
                        "not inventoried)", "the tzif and ixdtf parsers deliver records that satisfy their format contracts"]
    return run.finish(EXPLANATION)
