"""C12 — parsers: per-type post-parse rules, annotation handling, error discipline (structural clauses)."""
from ._std import *
from ..rules.common import hir_walk, node_line

EXPLANATION = (
    "Static dominance (R11) and error-discipline (R7) rules on the type-checked HIR exported from /repo's current tree: "
    "on every success path parse_date_time, parse_year_month and parse_time have rejected the UTC designator Z (directly "
    "or through parse_date_time); parse_instant requires date, time and offset; parse_zoned_date_time requires the "
    "bracketed time zone; parse_ixdtf requires a date unless the goal is a time, rejects a duplicate calendar annotation "
    "when either is critical, keeps the first calendar, and hands every other annotation back to the ixdtf parser (which "
    "rejects unknown critical ones); year-month and month-day strings with a non-ISO calendar are RangeErrors; the Option "
    "of Fraction::to_nanoseconds (None = more than nine digits) is always turned into an error, never defaulted; the "
    "leap second is clamped to 59 wherever a time is built from a record; every error constructed directly in the "
    "parsing code is a RangeError. NOT decided: equivalence of the accepted language with the Temporal grammar (it "
    "lives in the third-party ixdtf crate)."
)
P = "temporal_rs::parsers::"


def paths_of(fx, f, args=None, inline=None):
    ev = H.Evaluator(fx)
    ev.inline = inline or (lambda p: p.startswith("temporal_rs::error::"))
    a = args if args is not None else [H.Sym("param", (p["name"],)) for p in f.params]
    return ev.paths(f, a, max_paths=400)


def is_ok(res):
    return isinstance(res, H.V) and res.path == H.OK


REC = "ixdtf::parsers::records::IxdtfParseRecord"
ZED = H.V("ixdtf::parsers::records::UtcOffsetRecordOrZ::Z", ())


def _record(date=True, time=True, offset=None, tz=False):
    def opt(present, name):
        if present is True:
            return H.V(H.SOME, (H.Sym("param", (name,)),))
        if present in (False, None):
            return H.NONE_V
        return H.V(H.SOME, (present,))
    return H.S(REC, (("date", opt(date, "date")), ("time", opt(time, "time")), ("offset", opt(offset, "offset")),
                     ("tz", opt(tz, "tz")), ("calendar", H.NONE_V)))


def fold_with_record(fx, f, record):
    """fold an entry point of the parsing layer with the grammar (parse_ixdtf) replaced by a parser that returns `record`:
    ('ok', value) | ('err', kind) | ('opaque', why)"""
    ev = H.Evaluator(fx)
    ev.inline = lambda p: p.startswith("temporal_rs::")
    hit = []

    def stub(args):
        hit.append(1)
        return H.V(H.OK, (record,))
    ev.stubs["parsers::parse_ixdtf"] = stub
    ev.lossy = []
    try:
        r = ev.call_fn(f, [H.Sym("param", (q["name"],)) for q in f.params])
    except H.Panic as e:
        return ("opaque", "panic %s" % e)
    except H.Budget:
        return ("opaque", "budget")
    if not hit:
        return ("opaque", "parse_ixdtf is not what the function calls")
    if ev.lossy:
        return ("opaque", ev.lossy[0])
    if is_err(r):
        return ("err", err_kind(r))
    if is_ok(r):
        return ("ok", r.args[0])
    return ("opaque", show(r)[:60])


def check_z(run, fx, rs):
    rule = "R11.utc-designator-rejected"
    run.rule(rule, "parse_date_time / parse_year_month / parse_time never succeed with a record whose offset is the UTC "
                   "designator Z: every success path decided `offset == Some(Z)` false, or returns the result of "
                   "parse_date_time")
    for name in ("parse_date_time", "parse_year_month", "parse_time"):
        f = rs.fn(P + name)
        if f is None:
            run.anchor_missing(rule, name, "not found")
            continue
        # by value: with the grammar replaced by a parser that hands back a record carrying the designator, the function
        # must fail with a RangeError; with a record without an offset it must succeed
        gz = fold_with_record(fx, f, _record(offset=ZED))
        gn = fold_with_record(fx, f, _record(offset=None))
        if gz[0] != "opaque" and gn[0] != "opaque":
            run.check(gz == ("err", "Range") and gn[0] == "ok", rule, name, "record with Z -> RangeError, without offset -> ok",
                      "%s on a parsed record whose offset is the UTC designator gives %s %s (expected a RangeError); without an "
                      "offset it gives %s" % (name, gz[0], str(gz[1])[:60], gn[0]), f.loc)
            continue
        bad = 0
        tot = 0
        for dec, res, tr in paths_of(fx, f):
            if not is_ok(res):
                continue
            tot += 1
            zdec = [ch for c, ch in dec if "UtcOffsetRecordOrZ::Z" in c]
            s = show(res)
            via_dt = "parse_date_time" in s
            if not ((zdec and all(ch is False for ch in zdec)) or via_dt):
                bad += 1
        if tot == 0:
            run.ok(rule, name, "no success path is recognisable and the function does not fold with a scripted parser: not decided",
                   f.loc, nontrivial=False)
            continue
        run.check(tot > 0 and bad == 0, rule, name, "%d success path(s), all after the Z check" % tot,
                  "%s can succeed on %d of %d paths without having rejected the UTC designator" % (name, bad, tot), f.loc)


def check_required_parts(run, fx, rs):
    rule = "R11.required-components"
    run.rule(rule, "parse_instant succeeds only when date, time and offset are all present; parse_zoned_date_time only "
                   "when the time-zone annotation is present; parse_ixdtf only when a date is present unless the goal is "
                   "Time; failures are RangeErrors")
    f = rs.fn(P + "parse_instant")
    if f is None:
        run.anchor_missing(rule, "parse_instant", "not found")
    else:
        cells = []
        for d in (True, False):
            for t in (True, False):
                for o in (True, False):
                    cells.append(((d, t, o), fold_with_record(fx, f, _record(date=d, time=t, offset=o))))
        if all(g[0] != "opaque" for _, g in cells):
            wrong = [(k, g) for k, g in cells if (g[0] == "ok") != all(k) or (g[0] == "err" and g[1] != "Range")]
            run.check(not wrong, rule, "parse_instant", "by value over the 8 presence patterns of date/time/offset: success iff all "
                      "three are present, RangeError otherwise",
                      "parse_instant on a parsed record with (date, time, offset) present = %s gives %s %s" %
                      ((wrong[0][0], wrong[0][1][0], str(wrong[0][1][1])[:40]) if wrong else ("", "", "")), f.loc)
            run.exhaustive_tables.append("parse_instant (8 presence patterns)")
            f = None
    if f is not None:
        ok = True
        tot = 0
        kinds = set()
        for dec, res, tr in paths_of(fx, f):
            le = [(c, ch) for c, ch in dec if c.startswith("let-else[")]
            if is_ok(res):
                tot += 1
                if not le or not all(ch for _, ch in le) or not all(x in le[0][0] for x in ("date:Some(", "time:Some(", "offset:Some(")):
                    ok = False
            elif is_err(res) and le and not le[-1][1]:
                kinds.add(err_kind(res))
        if tot == 0 or not any(c.startswith("let-else[") for dec, _r, _t in paths_of(fx, f) for c, _ in dec):
            run.ok(rule, "parse_instant", "the presence test is not in a recognisable form and the function does not fold with a "
                   "scripted parser: not decided", f.loc, nontrivial=False)
        else:
          run.check(ok and tot > 0 and kinds == {"Range"}, rule, "parse_instant", "success requires date, time and offset",
                  "parse_instant: success without the date/time/offset pattern: %s; missing parts -> %s" % (not ok, sorted(kinds)),
                  f.loc)
    g = rs.fn(P + "parse_zoned_date_time")
    if g is None:
        run.anchor_missing(rule, "parse_zoned_date_time", "not found")
    else:
        gt = fold_with_record(fx, g, _record(tz=True))
        gn = fold_with_record(fx, g, _record(tz=False))
        if gt[0] != "opaque" and gn[0] != "opaque":
            run.check(gt[0] == "ok" and gn == ("err", "Range"), rule, "parse_zoned_date_time",
                      "by value: record with the annotation -> ok, without -> RangeError",
                      "parse_zoned_date_time on a parsed record without a time-zone annotation gives %s %s (expected a RangeError); "
                      "with one it gives %s" % (gn[0], str(gn[1])[:40], gt[0]), g.loc)
            g = None
    if g is not None:
        ok = True
        tot = 0
        kinds = set()
        for dec, res, tr in paths_of(fx, g):
            tz = [ch for c, ch in dec if "is_none" in c and ".tz" in c]
            if is_ok(res):
                tot += 1
                if not tz or tz[0] is not False:
                    ok = False
            elif tz and tz[0] is True and is_err(res):
                kinds.add(err_kind(res))
        if tot == 0 or not any("is_none" in c and ".tz" in c for dec, _r, _t in paths_of(fx, g) for c, _ in dec):
            run.ok(rule, "parse_zoned_date_time", "the annotation test is not in a recognisable form and the function does not fold "
                   "with a scripted parser: not decided", g.loc, nontrivial=False)
        else:
          run.check(ok and tot > 0 and kinds == {"Range"}, rule, "parse_zoned_date_time", "success requires the tz annotation",
                  "parse_zoned_date_time can succeed without a time-zone annotation (%s); missing -> %s" % (not ok, sorted(kinds)),
                  g.loc)
    h = rs.fn(P + "parse_ixdtf")
    if h is None:
        run.anchor_missing(rule, "parse_ixdtf", "not found")
        return
    for variant in ("YearMonth", "MonthDay", "DateTime", "Time"):
        args = [H.Sym("param", ("source",)), H.V(P + "ParseVariant::" + variant, ())]
        need = variant != "Time"
        # by value first: the external parser replaced by a stub that hands back a record with / without a date
        verdicts = {}
        for present in (True, False):
            def parser_stub(a_, present=present):
                return H.V(H.OK, (H.S("ixdtf::parsers::records::IxdtfParseRecord",
                                      (("date", H.V(H.SOME, (H.Sym("date", ()),)) if present else H.V(H.NONE, ())),
                                       ("calendar", H.V(H.NONE, ())))),))
            ev = H.Evaluator(fx)
            ev.inline = lambda p: p.startswith("temporal_rs::")
            ev.stubs["_with_annotation_handler"] = parser_stub
            ev.lossy = []
            try:
                r = ev.call_fn(h, ["SRC", H.V(P + "ParseVariant::" + variant, ())])
            except (H.Panic, H.Budget):
                r = None
            # the parser object itself is opaque (built by ixdtf, lent to the handler cast): that loss does not touch the record
            hard = [x for x in ev.lossy if "&mut" not in x]
            if r is not None and not hard and is_err(r):
                verdicts[present] = "err-" + str(err_kind(r))
            elif r is not None and not hard and is_ok(r):
                verdicts[present] = "ok"
        if len(verdicts) == 2:
            want = {True: "ok", False: "err-Range" if need else "ok"}
            run.check(verdicts == want, rule, "parse_ixdtf/" + variant,
                      "%s: by value, record with a date -> ok, without -> %s" % (variant, want[False]),
                      "parse_ixdtf(%s) on a parsed record with / without a date gives %s / %s; expected %s / %s" %
                      (variant, verdicts[True], verdicts[False], want[True], want[False]), h.loc)
            continue
        ok = True
        tot = 0
        for dec, res, tr in paths_of(fx, h, args):
            d = [ch for c, ch in dec if "is_none" in c and "date" in c]
            if is_ok(res):
                tot += 1
                if need and (not d or d[0] is not False):
                    ok = False
        run.check(ok and tot > 0, rule, "parse_ixdtf/" + variant,
                  "%s: date %s" % (variant, "required" if need else "not required"),
                  "parse_ixdtf(%s) can succeed without a date record" % variant, h.loc)


def check_annotations(run, fx, rs):
    rule = "R11.annotation-handler"
    run.rule(rule, "the annotation handler of parse_ixdtf intercepts only `u-ca`: it keeps the first calendar, a second one is an "
                   "error exactly when either of the two is critical, and every other annotation is handed back to the ixdtf "
                   "parser. Decided by folding parse_ixdtf with the external parser replaced by a script that feeds the handler "
                   "each sequence of annotations the rule distinguishes (none / one / two calendars with every combination "
                   "of critical flags / a foreign key) and observing the result")
    h = rs.fn(P + "parse_ixdtf")
    if h is None:
        run.anchor_missing(rule, "parse_ixdtf", "not found")
        return
    ANN = "ixdtf::parsers::records::Annotation"

    def ann(key, value, critical):
        return H.S(ANN, (("critical", critical), ("key", key), ("value", value)))

    def run_script(script):
        handed_back = []

        def parser_stub(args, env, ev):
            clo = next((a for a in args if isinstance(a, H.Closure)), None)
            if clo is None:
                return NotImplemented
            penv = dict(clo.env)
            for a in script:
                e2 = dict(penv)
                if len(clo.node["params"]) != 1 or ev.bind(clo.node["params"][0], a, e2) is not True:
                    return NotImplemented
                try:
                    r = ev.ev(clo.node["body"], e2)
                except H.Return as rr:
                    r = rr.value
                handed_back.append(r)
                for k in penv:                       # assignments to captured variables persist between calls
                    if k in e2:
                        penv[k] = e2[k]
            for k, v in penv.items():                 # ... and are visible to the function after the parser returns
                if k in env and clo.env.get(k) is not v:
                    env[k] = v
            return H.V(H.OK, (H.S("ixdtf::parsers::records::IxdtfParseRecord",
                                  (("date", H.V(H.SOME, (H.Sym("date", ()),))), ("calendar", H.V(H.NONE, ())))),))
        parser_stub.wants_env = True
        ev = H.Evaluator(fx)
        ev.inline = lambda p: p.startswith("temporal_rs::")
        ev.stubs["_with_annotation_handler"] = parser_stub
        ev.lossy = []
        try:
            res = ev.call_fn(h, ["SRC", H.V(P + "ParseVariant::DateTime", ())])
        except (H.Panic, H.Budget):
            return None, handed_back
        return res, handed_back
    CA = "u-ca"
    cases = [("no-calendar", [], "ok-none"), ("one-calendar", [ann(CA, "first", False)], "ok-first"),
             ("one-critical-calendar", [ann(CA, "first", True)], "ok-first"),
             ("two/neither-critical", [ann(CA, "first", False), ann(CA, "second", False)], "ok-first"),
             ("two/first-critical", [ann(CA, "first", True), ann(CA, "second", False)], "err"),
             ("two/second-critical", [ann(CA, "first", False), ann(CA, "second", True)], "err"),
             ("two/both-critical", [ann(CA, "first", True), ann(CA, "second", True)], "err"),
             ("foreign-key", [ann("x-foo", "bar", True)], "ok-none")]
    for name, script, want in cases:
        res, back = run_script(script)
        cal = None
        kind = "?"
        if res is not None and is_err(res):
            kind = "err" if err_kind(res) == "Range" else "err-" + str(err_kind(res))
        elif res is not None and is_ok(res) and isinstance(res.args[0], H.S):
            cal = H.sfield(res.args[0], "calendar")
            if isinstance(cal, H.V) and cal.path == H.NONE:
                kind = "ok-none"
            elif isinstance(cal, H.V) and cal.path == H.SOME and cal.args[0] == "first":
                kind = "ok-first"
            elif isinstance(cal, H.V) and cal.path == H.SOME and not H.has_sym(cal):
                kind = "ok-other"
        if kind == "?":
            run.ok(rule, name, "parse_ixdtf does not fold on this annotation script: not decided", h.loc, nontrivial=False)
            continue
        run.check(kind == want, rule, name, "%s -> %s" % (name, want),
                  "with the annotations %s parse_ixdtf gives %s (calendar %s); expected %s" %
                  ([("%s=%s%s" % (H.sfield(a, "key"), H.sfield(a, "value"), "!" if H.sfield(a, "critical") else "")) for a in script],
                   kind, show(cal)[:40] if cal is not None else "-", want), h.loc)
        if name == "foreign-key":
            okb = len(back) == 1 and isinstance(back[0], H.V) and back[0].path == H.SOME and back[0].args[0] == script[0]
            run.check(okb, rule, "unknown-handed-back", "other annotations are returned to the parser unchanged",
                      "an annotation other than u-ca is not handed back to the ixdtf parser (handler returned %s): unknown critical "
                      "annotations would be accepted" % [show(b)[:60] for b in back], h.loc)
        elif script:
            okn = all(isinstance(b, H.V) and b.path == H.NONE for b in back)
            run.check(okn, rule, name + "/consumed", "calendar annotations are consumed by the handler",
                      "a u-ca annotation is handed back to the parser (handler returned %s)" % [show(b)[:60] for b in back], h.loc)
    run.exhaustive_tables.append("annotation handler (8 scripts: calendars x critical flags, foreign key)")


def walk_parent(node, parent=None, grand=None):
    if isinstance(node, dict):
        yield node, parent, grand
        for v in node.values():
            yield from walk_parent(v, node if "k" in node else parent, parent if "k" in node else grand)
    elif isinstance(node, list):
        for v in node:
            yield from walk_parent(v, parent, grand)


def check_fraction(run, fx, rs):
    rule = "R7a.fraction-not-defaulted"
    run.rule(rule, "the Option returned by Fraction::to_nanoseconds (None = more than nine fractional digits) is consumed "
                   "by ok_or / ok_or_else / `?` / a match, never merged with an absent fraction and defaulted")
    n = 0
    for f in rs.fns:
        if f.hir is None or f.kind == "Closure":
            continue
        for node, parent, grand in walk_parent(f.hir):
            if node.get("k") == "mcall" and node.get("name") == "to_nanoseconds" and "Fraction" in str(node.get("fn", "")):
                n += 1
                ok = parent is not None and ((parent.get("k") == "mcall" and parent.get("name") in ("ok_or", "ok_or_else")
                                              and parent.get("recv") is node) or parent.get("k") in ("match", "letx", "let"))
                pk = "%s.%s" % (parent.get("k"), parent.get("name", "")) if parent else None
                run.check(ok, rule, "%s#%d" % (f.path, n), "to_nanoseconds().ok_or(..)",
                          "%s: the result of Fraction::to_nanoseconds flows into `%s` instead of an error conversion; a "
                          "fraction with more than nine digits would silently become absent/zero" % (f.name, pk),
                          "%s:%s" % (f.file, node_line(node)))
    run.analysed["to_nanoseconds_sites"] = n
    if n < 2:
        run.anchor_missing(rule, "sites", "only %d to_nanoseconds call sites found" % n)


def check_leap_second(run, fx, rs):
    rule = "R1.leap-second-clamp"
    run.rule(rule, "wherever a time is built from a parsed TimeRecord the seconds are clamped to 0..59 (leap second 60 "
                   "reads as 59)")
    n = 0
    for f in rs.fns:
        if f.hir is None:
            continue
        reads = [x for x in hir_walk(f.hir) if isinstance(x, dict) and x.get("k") == "field" and x["name"] == "second"
                 and str(x.get("of", "")).lstrip("&").endswith("records::TimeRecord")]
        if not reads:
            continue
        n += 1
        clamps = [x for x in hir_walk(f.hir) if isinstance(x, dict) and x.get("k") == "mcall" and x["name"] == "clamp"
                  and x["recv"].get("k") == "field" and x["recv"]["name"] == "second"
                  and [a["v"].get("int") for a in x["args"] if a.get("k") == "lit"] == [0, 59]]
        run.check(len(clamps) == len(reads), rule, f.path, "%d read(s) of record.second, all clamped to 0..59" % len(reads),
                  "%s reads TimeRecord.second %d time(s) but clamps it to 0..59 only %d time(s)" % (f.name, len(reads), len(clamps)),
                  "%s:%s" % (f.file, node_line(reads[0])))
    run.analysed["time_record_second_sites"] = n
    if n < 2:
        run.anchor_missing(rule, "sites", "only %d functions read TimeRecord.second (expected >= 2)" % n)


def check_error_kinds(run, fx, rs):
    rule = "R7b.parse-errors-are-range"
    run.rule(rule, "every error constructed directly in parsers.rs, parsers/timezone.rs, the FromStr impls and the "
                   "from_str/from_utf8 constructors is a RangeError")
    n = 0
    for f in rs.fns:
        if f.hir is None or f.kind == "Closure":
            continue
        isparse = f.file in ("src/parsers.rs", "src/parsers/timezone.rs") or \
            (f.name == "from_str" and (f.d.get("impl_trait") or "").endswith("FromStr")) or \
            any(s in f.name for s in ("from_str", "try_from_str", "from_utf8", "try_from_utf8", "try_from_identifier_str"))
        if not isparse:
            continue
        kinds = {}
        for x in hir_walk(f.hir):
            if isinstance(x, dict) and x.get("k") == "call" and str(x.get("fn", "")).startswith("temporal_rs::error::TemporalError::"):
                k = x["fn"].rsplit("::", 1)[-1]
                if k in ("range", "r#type", "type", "general", "assert", "syntax"):
                    kinds.setdefault(k, node_line(x))
        if not kinds:
            continue
        n += 1
        bad = {k: l for k, l in kinds.items() if k != "range"}
        # TimeZoneRecord is non_exhaustive: the wildcard arm of from_time_zone_record is not a parse path
        run.check(not bad, rule, f.path, "errors: %s" % sorted(kinds), "%s constructs %s errors; a string the grammar "
                  "rejects must be a RangeError" % (f.name, sorted(bad)), "%s:%s" % (f.file, list(bad.values())[0] if bad else f.line))
    run.analysed["parse_functions_with_errors"] = n
    if n < 20:
        run.anchor_missing(rule, "functions", "only %d parsing functions construct errors (expected >= 20)" % n)


def main(tier):
    run, fx = start("C12", tier)
    rs = fx["temporal_rs"]
    check_z(run, fx, rs)
    check_required_parts(run, fx, rs)
    check_annotations(run, fx, rs)
    check_fraction(run, fx, rs)
    check_leap_second(run, fx, rs)
    check_error_kinds(run, fx, rs)
    run.assumptions += ["the ixdtf crate implements the RFC 9557 / Temporal grammar and rejects unknown critical "
                        "annotations that the handler returns to it"]
    # TimeZoneIANAName is a '/'-separated list of components of ANY length
    rule = "R12.iana-name-components-repeat"
    run.rule(rule, "the place of the time-zone identifier parser that consumes a `/` separator repeats - it sits in a loop or in "
                   "a recursive function - so that identifiers with any number of components (America/Argentina/Buenos_Aires) "
                   "are accepted, as TimeZoneIANAName requires")
    import json as _json
    from .. import mirq as M
    rsx = fx["temporal_rs"]
    cg = M.CallGraph(fx, ["temporal_rs"])
    users = []
    for g in rsx.fns:
        if g.mir is None or g.file != "src/parsers/timezone.rs":
            continue
        body = M.Body(g)
        for bi, blk in enumerate(body.blocks):
            if "parsers::timezone::is_slash" in _json.dumps(blk):
                users.append((g, body, bi))
    if not users:
        run.anchor_missing(rule, "is_slash", "no use of the `/` separator test found in src/parsers/timezone.rs")
    for g, body, bi in users:
        in_loop = bi in {b for s0 in body.succs(bi) for b in body.reachable(s0)}
        callees = set()
        for c in body.calls():
            callees |= set(cg.resolve(c))
        recursive = g.path in cg.closure(callees) if callees else False
        run.check(in_loop or recursive, rule, g.path.replace("temporal_rs::", ""),
                  "separator consumed %s" % ("in a loop" if in_loop else "by a recursive function"),
                  "%s consumes a `/` separator once, neither in a loop nor recursively: identifiers with more components than "
                  "the code spells out are rejected" % g.name, g.loc)
    # the month-day grammar does not bound the day by the month: the constructor must reject, not constrain
    rule = "R1.parser-rejects-open-field-ranges"
    run.rule(rule, "where the ixdtf grammar leaves a field range open (month-day strings: the day is not checked against the "
                   "month; full dates are checked by ixdtf::check_date_validity), the parser builds the value with "
                   "ArithmeticOverflow::Reject so that an impossible day is a RangeError and is never constrained")
    fmd = find_trait_fn(fx["temporal_rs"], "month_day::PlainMonthDay", "FromStr", "from_str") if "find_trait_fn" in globals() else None
    if fmd is None:
        fmd = next((g for g in fx["temporal_rs"].fns if g.path.endswith("PlainMonthDay as core::str::traits::FromStr>::from_str")), None)
    if fmd is None:
        run.anchor_missing(rule, "PlainMonthDay::from_str", "not found")
    else:
        ev = H.Evaluator(fx)
        ev.inline = lambda p: False
        ev.call_fn(fmd, [H.Sym("param", (p["name"],)) for p in fmd.params])
        consts = []
        for c in ev.trace:
            g = fx["temporal_rs"].fn(str(c.parts[0]))
            if g is None:
                continue
            for k, p in enumerate(g.params):
                if "ArithmeticOverflow" in p["ty"] and k < len(c.parts[1]):
                    consts.append((g.name, show(c.parts[1][k])))
        run.check(bool(consts) and all(v.endswith("ArithmeticOverflow::Reject") for _, v in consts), rule,
                  "PlainMonthDay::from_str", "validating constructor called with Reject: %s" % consts,
                  "PlainMonthDay::from_str builds the month-day with %s; the month-day grammar does not check the day against "
                  "the month, so anything but Reject turns `02-30` into a valid value" % (consts or "no validating constructor"),
                  fmd.loc)
    from ..rules import extra as _x
    _x.check_parse_time_requires_time(run, fx)
    return run.finish(EXPLANATION)
