"""C11 — formatting round trip / canonical output (structural clauses)."""
from ..core import Run
from ..facts import Facts
from .. import hireval as H
from ..terms import show, walk, short
from ..rules.common import *


def check_enum_text(run, fx, ev):
    rs = fx["temporal_rs"]
    rule = "R1.enum-text-roundtrip"
    run.rule(rule, "for every enum that implements both Display and FromStr, every variant prints a string that the "
                   "parser maps back to the same variant (no misspelt or shadowed name)")
    disp, frm = {}, {}
    for f in rs.fns:
        t = f.d.get("impl_trait") or ""
        if f.name == "fmt" and t == "core::fmt::Display":
            disp[f.d.get("impl_self")] = f
        if f.name == "from_str" and t.endswith("str::traits::FromStr"):
            frm[f.d.get("impl_self")] = f
    n = 0
    for ty in sorted(set(disp) & set(frm)):
        a = rs.adts.get(ty)
        if not a or a["kind"] != "enum" or any(v["fields"] for v in a["variants"]):
            continue
        n += 1
        seen = {}
        for v in ev.enum_values(ty):
            key = "%s::%s" % (ty.rsplit("::", 1)[-1], vname(v))
            try:
                w = ev.call_fn(disp[ty], [v, H.Sym("fmt", ())])
            except H.Panic as p:
                run.bad(rule, key, "Display panics: %s" % p.what, disp[ty].loc)
                continue
            txt = None
            for x in walk(w):
                if isinstance(x, H.V) and x.path == "fmt::Written":
                    txt = x.args[0]
            if txt is None:
                run.bad(rule, key, "Display of %s does not fold to a literal string: %s" % (key, show(w)), disp[ty].loc)
                continue
            if txt in seen:
                run.bad(rule, key, "%s and %s both print %r" % (seen[txt], key, txt), disp[ty].loc)
            seen[txt] = key
            try:
                back = ev.call_fn(frm[ty], [txt])
            except H.Panic as p:
                run.bad(rule, key, "FromStr panics on %r" % txt, frm[ty].loc)
                continue
            ok = is_ok(back) and back.args[0] == v
            run.check(ok, rule, key, "%r parses back to %s" % (txt, vname(v)),
                      "%s prints %r, which parses back to %s" % (key, txt, show(back)), disp[ty].loc)
        run.exhaustive_tables.append("Display/FromStr of " + ty.rsplit("::", 1)[-1])
    run.analysed["display_fromstr_enums"] = n
    if n < 8:
        run.anchor_missing(rule, "enums", "only %d enums with Display+FromStr found (expected >= 8)" % n)


def check_year_window(run, fx, ev):
    rs = fx["temporal_rs"]
    rule = "R1.four-digit-year-window"
    run.rule(rule, "every function that chooses between the four-digit and the signed six-digit year form tests the "
                   "inclusive window 0..=9999 (buffer length hints excluded)")
    sites = 0
    for f in rs.fns:
        if f.hir is None or f.name == "writeable_length_hint":
            continue
        for n in hir_walk(f.hir):
            if not (isinstance(n, dict) and n.get("k") == "mcall" and n.get("name") == "contains"):
                continue
            r = n["recv"]
            while r.get("k") in ("addr",):
                r = r["e"]
            lo = hi = None
            incl = None
            if r.get("k") == "call" and str(r.get("fn", "")).endswith("RangeInclusive::<Idx>::new"):
                lo, hi, incl = r["args"][0], r["args"][1], True
            elif r.get("k") == "struct" and str(r["path"].get("def", "")).endswith("ops::range::Range"):
                d = dict((a, b) for a, b in r["fields"])
                lo, hi, incl = d.get("start"), d.get("end"), False
            if lo is None:
                continue

            def lit(x):
                return x["v"].get("int") if x.get("k") == "lit" else None
            l, h = lit(lo), lit(hi)
            if l != 0 or h is None or not (9990 <= h <= 10001):
                continue
            sites += 1
            okw = (incl and h == 9999) or (not incl and h == 10000)
            run.check(okw, rule, f.path, "window 0..%s%d" % ("=" if incl else "", h),
                      "%s chooses the four-digit year form on 0..%s%d; years 0 through 9999 inclusive must use it" %
                      (f.path, "=" if incl else "", h), "%s:%s" % (f.file, node_line(n)))
    run.analysed["year_window_sites"] = sites
    if sites < 2:
        run.anchor_missing(rule, "year-writers", "fewer than two year-window tests found (write_year, pad_iso_year)")


def check_ixdtf_order(run, fx, ev):
    rs = fx["temporal_rs"]
    rule = "R11.ixdtf-component-order"
    run.rule(rule, "FormattableIxdtf::write_to writes date, 'T' + time, UTC offset, time-zone annotation, calendar "
                   "annotation, in that order")
    f = find_trait_fn(rs, "temporal_rs::parsers::FormattableIxdtf<'_>", "Writeable", "write_to")
    if f is None:
        run.anchor_missing(rule, "FormattableIxdtf::write_to", "Writeable impl for FormattableIxdtf not found")
        return
    ev2 = H.Evaluator(fx)
    ev2.inline = lambda p: False
    names = ["date", "time", "utc_offset", "timezone", "calendar"]
    me = H.S("temporal_rs::parsers::FormattableIxdtf", tuple((n, H.some(H.Sym("component", (n,)))) for n in names))
    ev2.call_fn(f, [me, H.Sym("param", ("sink",))])
    order = []
    for c in ev2.trace:
        nm = c.parts[0].rsplit("::", 1)[-1]
        if nm == "write_to" and c.parts[1] and isinstance(c.parts[1][0], H.Sym) and c.parts[1][0].what == "component":
            order.append(c.parts[1][0].parts[0])
        elif nm == "write_char":
            order.append(repr(c.parts[1][-1]))
    want = ["date", "'T'", "time", "utc_offset", "timezone", "calendar"]
    run.check(order == want, rule, "order", "components written as %s" % order,
              "components are written as %s, canonical order is %s" % (order, want), f.loc)
    # without a date no 'T' is written
    me2 = H.S("temporal_rs::parsers::FormattableIxdtf", tuple(
        (n, H.NONE_V if n == "date" else H.some(H.Sym("component", (n,)))) for n in names))
    ev2.call_fn(f, [me2, H.Sym("param", ("sink",))])
    chars = [c for c in ev2.trace if c.parts[0].endswith("write_char")]
    run.check(not chars, rule, "no-T-without-date", "time-only output has no 'T'",
              "a 'T' is written although there is no date", f.loc)


def check_annotations(run, fx, ev):
    rs = fx["temporal_rs"]
    rule = "R1.annotation-shape"
    run.rule(rule, "time-zone annotation is '[' ['!'] id ']' and calendar annotation is '[' ['!'] 'u-ca=' id ']', the "
                   "critical flag appears exactly for the Critical option, nothing is written for Never, and an ISO "
                   "calendar is omitted under Auto")
    ev2 = H.Evaluator(fx)
    ev2.inline = lambda p: False

    def written(f, me):
        ev2.call_fn(f, [me, H.Sym("param", ("sink",))])
        out = []
        for c in ev2.trace:
            nm = c.parts[0].rsplit("::", 1)[-1]
            if nm in ("write_char", "write_str"):
                a = c.parts[1][-1]
                out.append(a if isinstance(a, str) else "<%s>" % show(a))
        return "".join(out)
    f = find_trait_fn(rs, "temporal_rs::parsers::FormattableTimeZone<'_>", "Writeable", "write_to")
    if f is None:
        run.anchor_missing(rule, "FormattableTimeZone", "Writeable impl not found")
    else:
        for show_opt, want in (("Auto", "[<ID>]"), ("Critical", "[!<ID>]"), ("Never", "")):
            me = H.S("temporal_rs::parsers::FormattableTimeZone",
                     (("show", H.V(OPT + "DisplayTimeZone::" + show_opt, ())), ("timezone", H.Sym("ID", ()))))
            got = written(f, me).replace("<ID[]>", "<ID>")
            run.check(got == want, rule, "timezone/" + show_opt, "%s -> %r" % (show_opt, got),
                      "DisplayTimeZone::%s writes %r, expected %r" % (show_opt, got, want), f.loc)
    f = find_trait_fn(rs, "temporal_rs::parsers::FormattableCalendar<'_>", "Writeable", "write_to")
    if f is None:
        run.anchor_missing(rule, "FormattableCalendar", "Writeable impl not found")
    else:
        for cal in ("iso8601", "gregory"):
            for show_opt in ("Auto", "Always", "Never", "Critical"):
                me = H.S("temporal_rs::parsers::FormattableCalendar",
                         (("show", H.V(OPT + "DisplayCalendar::" + show_opt, ())), ("calendar", cal)))
                got = written(f, me)
                if show_opt == "Never" or (show_opt == "Auto" and cal == "iso8601"):
                    want = ""
                elif show_opt == "Critical":
                    want = "[!u-ca=%s]" % cal
                else:
                    want = "[u-ca=%s]" % cal
                run.check(got == want, rule, "calendar/%s/%s" % (cal, show_opt), "%s/%s -> %r" % (cal, show_opt, got),
                          "DisplayCalendar::%s with calendar %s writes %r, expected %r" % (show_opt, cal, got, want),
                          f.loc)
    run.exhaustive_tables.append("annotation writers (3 + 8 option cells)")


def check_time_writer(run, fx, ev):
    rs = fx["temporal_rs"]
    rule = "R12.time-precision"
    run.rule(rule, "FormattableTime::write_to: Precision::Minute stops after the minutes, Digit(0) and (Auto with zero "
                   "fraction) stop after the seconds, every other precision writes '.' and the fraction; offsets are "
                   "built with Precision::Minute")
    f = find_trait_fn(rs, "temporal_rs::parsers::FormattableTime", "Writeable", "write_to")
    if f is None:
        run.anchor_missing(rule, "FormattableTime", "Writeable impl not found")
        return
    ev2 = H.Evaluator(fx)
    ev2.inline = lambda p: False
    P = "temporal_rs::parsers::Precision::"

    def shape(prec, ns):
        me = H.S("temporal_rs::parsers::FormattableTime",
                 (("hour", H.Sym("h", ())), ("minute", H.Sym("m", ())), ("second", H.Sym("s", ())),
                  ("nanosecond", ns), ("precision", prec), ("include_sep", True)))
        ev2.call_fn(f, [me, H.Sym("param", ("sink",))])
        out = []
        for c in ev2.trace:
            nm = c.parts[0].rsplit("::", 1)[-1]
            if nm == "write_char":
                out.append(c.parts[1][-1])
            elif nm == "write_padded_u8":
                out.append("<%s>" % show(c.parts[1][0]).strip("[]"))
            elif nm == "write_nanosecond":
                out.append("<frac>")
        return "".join(str(x) for x in out)
    cases = [
        ("Minute", H.V(P + "Minute", ()), 5, "<h>:<m>"),
        ("Digit0", H.V(P + "Digit", (0,)), 5, "<h>:<m>:<s>"),
        ("Auto/zero", H.V(P + "Auto", ()), 0, "<h>:<m>:<s>"),
        ("Auto/nonzero", H.V(P + "Auto", ()), 5, "<h>:<m>:<s>.<frac>"),
        ("Digit3", H.V(P + "Digit", (3,)), 0, "<h>:<m>:<s>.<frac>"),
        ("Digit9", H.V(P + "Digit", (9,)), 5, "<h>:<m>:<s>.<frac>"),
    ]
    for name, prec, ns, want in cases:
        got = shape(prec, ns)
        run.check(got == want, rule, name, "%s -> %s" % (name, got),
                  "precision %s with fraction %s writes %s, expected %s" % (name, ns, got, want), f.loc)
    g = rs.fn1("IxdtfStringBuilder::<'a>::with_minute_offset") or rs.fn1("IxdtfStringBuilder::with_minute_offset")
    if g is None:
        cands = [x for x in rs.fns if x.name == "with_minute_offset"]
        g = cands[0] if cands else None
    if g is None:
        run.anchor_missing(rule, "with_minute_offset", "offset builder not found")
        return
    r = ev2.call_fn(g, [H.Sym("param", (p["name"],)) for p in g.params])
    precs = [vname(H.sfield(x, "precision")) for x in walk(r) if isinstance(x, H.S) and x.path.endswith("FormattableTime")]
    if not precs:
        for c in ev2.trace:
            for x in walk(c):
                if isinstance(x, H.S) and x.path.endswith("FormattableTime"):
                    precs.append(vname(H.sfield(x, "precision")))
    run.check(precs and all(p == "Minute" for p in precs), rule, "offset-precision", "offset time precision = %s" % precs,
              "UTC offsets are built with precision %s, the canonical form is +-HH:MM (Precision::Minute)" % precs, g.loc)
    # write_nanosecond: Digit(d) prints exactly d digits
    h = rs.fn1("parsers::write_nanosecond")
    if h is not None:
        for d in range(1, 10):
            ev2.call_fn(h, [H.Sym("ns", ()), H.V(P + "Digit", (d,)), H.Sym("param", ("sink",))])
            w = [c for c in ev2.trace if c.parts[0].endswith("write_digit_slice_to_precision")]
            okd = len(w) == 1 and w[0].parts[1][1] == 0 and w[0].parts[1][2] == d
            run.check(okd, rule, "digits/%d" % d, "Digit(%d) prints digits [0, %d)" % (d, d),
                      "Digit(%d) prints digit range %s" % (d, [show(a) for a in w[0].parts[1][1:3]] if w else None), h.loc)
    else:
        run.anchor_missing(rule, "write_nanosecond", "fraction writer not found")


def run_checks(run, fx):
    ev = H.Evaluator(fx)
    check_enum_text(run, fx, ev)
    check_year_window(run, fx, ev)
    check_ixdtf_order(run, fx, ev)
    check_annotations(run, fx, ev)
    check_time_writer(run, fx, ev)


EXPLANATION = (
    "Static table/ordering rules (R1/R11/R12) on the type-checked HIR exported from /repo's current tree: the Display and "
    "FromStr match tables of every option enum are folded and composed for every variant (exhaustive); every four-digit-"
    "year window test in a year-emitting function is read from the syntax tree; the IXDTF writer's component order, the "
    "annotation writers and the time writer's precision cut-offs are obtained by normalising their loop-free bodies and "
    "reading the sequence of sink writes. Decides the names/shape/ordering clauses for all values; the value-level round "
    "trip of dates, times, durations and zoned values (digits written vs parsed) is declined."
)


def check_utc_offset_components(run, fx):
    """UtcOffset::to_string: the record handed to the writer carries the sign of the WHOLE offset and the magnitude split
    into hours and minutes"""
    rule = "R1.utc-offset-components"
    run.rule(rule, "UtcOffset::to_string, folded on zero, on offsets below one hour and on offsets of an hour or more, for both "
                   "signs: the formattable record has sign = sign of the whole offset (a negative offset of less than an hour "
                   "is negative), hour = |minutes| / 60, minute = |minutes| mod 60")
    f = fx["temporal_rs"].fn1("UtcOffset::to_string")
    if f is None:
        run.anchor_missing(rule, "UtcOffset::to_string", "not found")
        return
    U = "temporal_rs::builtins::core::timezone::UtcOffset"
    for v in (0, 1, -1, 30, -30, 59, -59, 60, -60, 90, -90, 1439, -1439):
        ev = H.Evaluator(fx)
        ev.lossy = []
        try:
            r = ev.call_fn(f, [H.V(U, (v,))])
        except (H.Panic, H.Budget):
            r = None
        rec = [x for x in walk(r) if isinstance(x, H.S) and x.path.endswith("FormattableOffset")] if r is not None else []
        tm = [x for x in walk(r) if isinstance(x, H.S) and x.path.endswith("FormattableTime")] if r is not None else []
        key = "offset/%d" % v
        if ev.lossy or len(rec) != 1 or len(tm) != 1 or H.has_sym(rec[0]):
            run.ok(rule, key, "the formattable record does not fold: not decided", f.loc, nontrivial=False)
            continue
        sign = H.sfield(rec[0], "sign")
        got = (sign.path.rsplit("::", 1)[-1] if isinstance(sign, H.V) else sign, H.sfield(tm[0], "hour"), H.sfield(tm[0], "minute"))
        want = ("Negative" if v < 0 else "Positive", abs(v) // 60, abs(v) % 60)
        run.check(got == want, rule, key, "%d min -> %s %02d:%02d" % ((v,) + want),
                  "UtcOffset(%d minutes) is written as (sign %s, hour %s, minute %s); expected (%s, %d, %d)" % ((v,) + got + want),
                  f.loc)
    run.exhaustive_tables.append("UtcOffset components (sign x below / above one hour)")


def main(tier):
    run = Run("C11", tier)
    fx = Facts("full")
    run.tree_hash = fx.hash
    run.configs.append({"config": "full", "crates": fx.summary()})
    run_checks(run, fx)
    run.assumptions += ["writeable's integer write_to and core::fmt write the digits they are given"]
    from ..rules import siblings
    siblings.check_offset_rounding(run, fx)
    siblings.check_offset_minutes_by_value(run, fx)
    from ..rules import extra as _x
    _x.check_to_string_prints_rounded(run, fx)
    check_utc_offset_components(run, fx)
    return run.finish(EXPLANATION)
