"""C14 — ZonedDateTime arithmetic (wiring, constants, limit check, units)."""
from ._std import *
from ._std import check_must_call_on_success
from ..rules import wiring, units
from ..rules.common import OPT

EXPLANATION = (
    "Static wiring (R2), dominance (R11) and unit (R4/R5) rules on the type-checked HIR exported from /repo's current "
    "tree: ZonedDateTime subtract is add of the negated duration through the same kernel, until/since share a kernel and "
    "differ by the operation constant and one final negation; AddZonedDateTime applies a pure time duration directly on "
    "the instant, otherwise adds the date part on the wall clock, checks the intermediate date-time against the limits "
    "(RangeError) before resolving it with the constant disambiguation `compatible`, and finishes by adding the time "
    "part on the instant; hours-in-day has the unit hours (day length in ns divided by ns per hour). NOT decided: "
    "elapsed-time and day-correction results of DifferenceZonedDateTime, start-of-day values."
)


def main(tier):
    run, fx = start("C14", tier)
    rs = fx["temporal_rs"]
    T = "zoneddatetime::ZonedDateTime"
    wiring.check_add_subtract(run, fx, rs, T, "add_with_provider", "subtract_with_provider")
    k = wiring.check_until_since(run, fx, rs, T, "until_with_provider", "since_with_provider")
    wiring.check_diff_kernel(run, fx, k)
    rule = "R2.add-zoned-shape"
    run.rule(rule, "AddZonedDateTime: zero date part -> AddInstant(instant, time part); otherwise CalendarDateAdd on the "
                   "wall date, limit check of the intermediate date-time (RangeError), resolution with the constant "
                   "Disambiguation::Compatible, then AddInstant(intermediate, time part)")
    f = rs.fn(wiring.CORE + T + "::add_as_instant")
    if f is None:
        run.anchor_missing(rule, "add_as_instant", "not found")
    else:
        ev = H.Evaluator(fx)
        ev.inline = lambda p: p.startswith("temporal_rs::error::")
        ok_paths = []
        for dec, res, tr in ev.paths(f, [H.Sym("param", (p["name"],)) for p in f.params]):
            names = [str(c.parts[0]).rsplit("::", 1)[-1] for c in tr]
            ok_paths.append((dec, res, tr, names))
        # path with date part zero
        zero = [p for p in ok_paths if any("sign" in c and ch is True for c, ch in p[0])]
        okz = bool(zero) and all("date_add" not in p[3] and p[3].count("add_to_instant") == 1 for p in zero)
        run.check(okz, rule, "time-only", "zero date part: AddInstant only", "with a zero date part AddZonedDateTime does "
                  "not go straight to AddInstant: %s" % [p[3] for p in zero][:2], f.loc)
        full = [p for p in ok_paths if "get_epoch_nanoseconds_for" in p[3]]
        okf = bool(full)
        why = []
        for dec, res, tr, names in full:
            if "date_add" not in names or names.index("date_add") > names.index("get_epoch_nanoseconds_for"):
                okf = False
                why.append("date_add does not precede the wall-clock resolution")
            lim = [ch for c, ch in dec if "is_within_limits" in c]
            if not lim:
                okf = False
                why.append("intermediate date-time is not limit-checked before use")
            ge = [c for c in tr if str(c.parts[0]).endswith("get_epoch_nanoseconds_for")][0]
            if H.V(OPT + "Disambiguation::Compatible", ()) not in ge.parts[1]:
                okf = False
                why.append("intermediate resolved with %s" % [show(a) for a in ge.parts[1][2:3]])
            if not names or names[-1] != "add_to_instant" and "add_to_instant" not in names[names.index("get_epoch_nanoseconds_for"):]:
                okf = False
                why.append("does not finish with AddInstant")
            last = [c for c in tr if str(c.parts[0]).endswith("add_to_instant")]
            if last and "time" not in show(last[-1].parts[1][-1]):
                okf = False
                why.append("AddInstant does not receive the time part")
        run.check(okf, rule, "date-part", "date_add -> limit check -> Compatible -> AddInstant(time)",
                  "AddZonedDateTime shape: %s" % sorted(set(why)), f.loc)
        errs = {err_kind(p[1]) for p in ok_paths if is_err(p[1]) and any("is_within_limits" in c for c, _ in p[0])}
        run.check(errs <= {"Range"} and errs, rule, "limit-error-kind", "out-of-limit intermediate -> RangeError",
                  "out-of-limit intermediate date-time gives %s" % sorted(errs), f.loc)
    n = units.report(run, fx, "C14")
    if n < 5:
        run.anchor_missing("R4.unit-mismatch", "zdt-functions", "only %d unit-typed functions in zoneddatetime.rs" % n)
    # DifferenceTemporalZonedDateTime: exact-time result balanced to the largest unit, calendar result to hours
    rule = "R1.zdt-difference-balance-unit"
    run.rule(rule, "ZonedDateTime::diff_internal_with_provider converts its internal duration twice: with the requested largest "
                   "unit on the exact-time branch and with the constant Unit::Hour on the calendar branch (the time remainder of "
                   "a date difference is never folded into 24-hour days: a calendar day can last 23 or 25 hours)")
    fdz = fx["temporal_rs"].fn("temporal_rs::builtins::core::zoneddatetime::ZonedDateTime::diff_internal_with_provider")
    if fdz is None:
        run.anchor_missing(rule, "diff_internal_with_provider", "not found")
    else:
        units_ = set()
        ev = H.Evaluator(fx)
        ev.inline = lambda p: p.startswith("temporal_rs::error::")
        try:
            for dec, res, tr in ev.paths(fdz, [H.Sym("param", (p["name"],)) for p in fdz.params], max_paths=300):
                for c in tr:
                    if str(c.parts[0]).endswith("Duration::from_normalized") and len(c.parts[1]) == 2:
                        units_.add(show(c.parts[1][1]))
        except H.Budget:
            units_ = None
        if units_ is None:
            run.ok(rule, "units", "too many paths: not decided", fdz.loc, nontrivial=False)
        else:
            has_hour = "Unit::Hour" in units_
            has_largest = any(u.endswith(".largest_unit") for u in units_)
            run.check(has_hour and has_largest and len(units_) == 2, rule, "units", "balances with %s" % sorted(units_),
                      "the internal duration is converted with %s; expected exactly the requested largest unit (exact-time branch) "
                      "and Unit::Hour (calendar branch)" % sorted(units_), fdz.loc)
    # the start of a calendar day is GetStartOfDay (first instant of the day), never "midnight disambiguated"
    rule = "R2.start-of-day-kernel"
    run.rule(rule, "every success path of ZonedDateTime::start_of_day and ZonedDateTime::hours_in_day obtains the day's first "
                   "instant from TimeZone::get_start_of_day (which handles a gap that swallows midnight); a compatible-"
                   "disambiguated 00:00 is a different instant in such a gap")
    CORE = "temporal_rs::builtins::core::"
    for suffix in ("zoneddatetime::ZonedDateTime::start_of_day_with_provider", "zoneddatetime::ZonedDateTime::hours_in_day_with_provider"):
        check_must_call_on_success(run, fx, fx["temporal_rs"].fn(CORE + suffix), ["TimeZone::get_start_of_day"], rule, suffix,
                                   "the first instant of the day is not taken from GetStartOfDay")
    from ..rules import extra
    extra.check_time_part_once(run, fx)
    return run.finish(EXPLANATION)
