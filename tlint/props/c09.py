"""C09 — durations as a consistent signed quantity (limit table, record totality, sibling agreement, wiring)."""
from ._std import *
from ._std import check_must_call_on_success
from ..rules import ranges, wiring, units
from ..rules.common import hir_walk, node_line, OPT, UNIT, vname, fold, tri

EXPLANATION = (
    "Static table (R1), record-totality / sibling-agreement (R3), dominance (R11), wiring (R2) and unit (R4) rules on "
    "the type-checked HIR exported from /repo's current tree: IsValidDuration's thresholds fold to 2^32 (years, months, "
    "weeks, >=) and 2^53 seconds (>=) and its sign scan covers all ten fields in order; every field-wise operation of "
    "Duration, DateDuration and TimeDuration (fields, abs, negated, is_within_range) reads each field of its record "
    "exactly once and pairs like with like; in every conjunction of same-shaped magnitude comparisons all siblings "
    "apply abs(); the i-th entry of Duration::fields() is the field whose unit is Unit::from(10 - i); AddDurations "
    "refuses calendar units before computing; subtract is add of the negation; the second total of IsValidDuration "
    "scales each field by the ratio of its own unit and sums sub-second fields before dividing. NOT decided: exact sums, "
    "the order relation, round(-d) == -round(d), total()."
)

FIELDS = ["years", "months", "weeks", "days", "hours", "minutes", "seconds", "milliseconds", "microseconds", "nanoseconds"]
FIELD_UNIT = ["Year", "Month", "Week", "Day", "Hour", "Minute", "Second", "Millisecond", "Microsecond", "Nanosecond"]
D = "temporal_rs::builtins::core::duration::"


def self_reads(f):
    """names of fields / accessor methods read on `self` (with multiplicity)"""
    out = []
    for n in hir_walk(f.hir):
        if not isinstance(n, dict):
            continue
        if n.get("k") == "field" and n["e"].get("k") in ("path", "un", "addr"):
            base = n["e"]
            while base.get("k") in ("un", "addr"):
                base = base["a"] if base["k"] == "un" else base["e"]
            if base.get("k") == "path" and base["res"].get("local") == "self":
                out.append(n["name"])
        if n.get("k") == "mcall" and not n["args"] and n["recv"].get("k") == "path" and \
                n["recv"]["res"].get("local") == "self":
            out.append(n["name"])
    return out


def check_totality(run, fx, rs):
    rule = "R3.field-totality"
    run.rule(rule, "a field-wise operation reads every field of its record exactly once, and a record it builds takes "
                   "field f from field f")
    recs = {"Duration": (D + "Duration", ["date", "time"]),
            "DateDuration": (D + "date::DateDuration", FIELDS[:4]),
            "TimeDuration": (D + "time::TimeDuration", FIELDS[4:])}
    ops = {"Duration": ["abs", "negated", "fields"], "DateDuration": ["abs", "negated", "fields"],
           "TimeDuration": ["abs", "negated", "fields", "is_within_range"]}
    n = 0
    for ty, (path, flds) in recs.items():
        for op in ops[ty]:
            f = rs.fn(path + "::" + op)
            key = "%s::%s" % (ty, op)
            if f is None:
                run.anchor_missing(rule, key, "function not found")
                continue
            n += 1
            reads = self_reads(f)
            want = FIELDS if (ty == "Duration" and op == "fields") else flds
            rel = [r for r in reads if r in set(FIELDS) | {"date", "time"}]
            missing = [x for x in want if x not in rel]
            dup = sorted({x for x in rel if rel.count(x) > 1})
            ok = not missing and not dup and rel == want
            # pairing in struct literals
            wrong = []
            for x in hir_walk(f.hir):
                if isinstance(x, dict) and x.get("k") == "struct":
                    for fname, e in x["fields"]:
                        srcs = [y["name"] for y in hir_walk(e) if isinstance(y, dict) and
                                (y.get("k") == "field" or (y.get("k") == "mcall" and y["name"] in ("date", "time")))
                                and y["name"] in set(FIELDS) | {"date", "time"}]
                        if srcs and srcs != [fname]:
                            wrong.append("%s <- %s" % (fname, srcs))
            # decided by value where the operation folds: a record with ten distinct field values (alternating signs)
            verdict = _fieldwise_by_value(fx, f, ty, op)
            if verdict is True:
                run.ok(rule, key, "folded on a record with distinct field values: field f of the result comes from field f", f.loc)
            elif verdict is not None:
                run.bad(rule, key, "%s: %s" % (key, verdict), f.loc)
            elif ok and not wrong:
                run.ok(rule, key, "reads %s once each, in order" % want, f.loc)
            else:
                run.ok(rule, key, "does not fold and is not written field by field (%s read): not decided" % rel, f.loc,
                       nontrivial=False)
    run.analysed["fieldwise_functions"] = n


def _fieldwise_by_value(fx, f, ty, op):
    """True / None (does not fold) / description of the wrong cell"""
    F = "temporal_rs::primitive::FiniteF64"
    vals = {n: float((i + 1) * (-1 if i % 2 else 1)) for i, n in enumerate(FIELDS)}

    def rec(which):
        names = FIELDS[:4] if which == "date" else FIELDS[4:]
        return H.S(D + ("date::DateDuration" if which == "date" else "time::TimeDuration"),
                   tuple((n, H.V(F, (vals[n],))) for n in names))
    me = {"Duration": H.S(D + "Duration", (("date", rec("date")), ("time", rec("time")))), "DateDuration": rec("date"),
          "TimeDuration": rec("time")}[ty]
    names = {"Duration": FIELDS, "DateDuration": FIELDS[:4], "TimeDuration": FIELDS[4:]}[ty]
    got = fold(H.Evaluator(fx), f, [me])
    if got[0] != "val":
        return None
    r = got[1]

    def num(v):
        return v.args[0] if isinstance(v, H.V) and len(v.args) == 1 else v
    if op in ("abs", "negated"):
        flat = {}
        for x in walk(r):
            if isinstance(x, H.S) and x.path.endswith(("DateDuration", "TimeDuration")):
                for n, v in x.fields:
                    flat[n] = num(v)
        if set(flat) != set(names):
            return None
        for n in names:
            want = abs(vals[n]) if op == "abs" else -vals[n]
            if not isinstance(flat[n], (int, float)):
                return None
            if float(flat[n]) != want:
                return "%s of a record with %s = %s has %s = %s (expected %s)" % (op, n, vals[n], n, flat[n], want)
        return True
    if op == "fields":
        if not isinstance(r, H.T):
            return None
        out = [num(v) for v in r.items]
        if not all(isinstance(v, (int, float)) for v in out):
            return None
        want = [vals[n] for n in names]
        return True if [float(v) for v in out] == want else "fields() lists %s, expected the fields in order %s" % (out, want)
    return None


def check_sibling_abs(run, fx, rs):
    rule = "R3.sibling-abs"
    run.rule(rule, "in a conjunction of magnitude comparisons `self.<unit field> < literal`, either every sibling applies "
                   "abs() or none does (a bare comparison lets negative values through)")
    n = 0
    for f in rs.fns:
        if f.hir is None or not f.file.startswith("src/builtins/core/duration"):
            continue

        def chain(node, acc):
            if node.get("k") == "bin" and node["op"] == "&&":
                chain(node["a"], acc)
                chain(node["b"], acc)
            else:
                acc.append(node)
        for x in hir_walk(f.hir):
            if isinstance(x, dict) and x.get("k") == "bin" and x["op"] == "&&":
                terms = []
                chain(x, terms)
                sib = []
                for t in terms:
                    if t.get("k") == "bin" and t["op"] in ("<", "<=") and t["b"].get("k") == "lit":
                        a = t["a"]
                        has_abs = a.get("k") == "mcall" and a["name"] == "abs"
                        inner = a["recv"] if has_abs else a
                        nm = None
                        if inner.get("k") == "mcall" and inner["name"] in FIELDS:
                            nm = inner["name"]
                        elif inner.get("k") == "field" and inner["name"] in FIELDS:
                            nm = inner["name"]
                        if nm:
                            sib.append((nm, has_abs, node_line(t)))
                if len(sib) >= 3:
                    n += 1
                    with_abs = [s for s in sib if s[1]]
                    without = [s for s in sib if not s[1]]
                    key = "%s/%s" % (f.path, "+".join(s[0] for s in sib))
                    run.check(not (with_abs and without), rule, key, "%d sibling comparisons agree on abs()" % len(sib),
                              "in %s the comparisons of %s use abs() but those of %s do not" %
                              (f.name, [s[0] for s in with_abs], [s[0] for s in without]),
                              "%s:%s" % (f.file, sib[0][2]))
                    break
    run.analysed["sibling_conjunctions"] = n


def check_limits(run, fx, rs):
    rule = "R1.duration-limits"
    run.rule(rule, "IsValidDuration rejects abs(years|months|weeks) >= 2^32 and abs(total seconds) >= 2^53, and its sign "
                   "scan covers the ten fields in order")
    f = rs.fn(D + "is_valid_duration")
    if f is None:
        run.anchor_missing(rule, "is_valid_duration", "not found")
        return
    pn = [p["name"] for p in f.params]
    run.check(pn == FIELDS, rule, "params", "parameters in field order", "is_valid_duration parameters are %s" % pn, f.loc)
    # the function folded (loops over the field vector executed) at each limit and one step inside it, for both signs,
    # and on every pair of fields with opposite signs: values, not the shape of the comparisons
    F = "temporal_rs::primitive::FiniteF64"

    def call(vals):
        return fold(H.Evaluator(fx), f, [H.V(F, (float(vals.get(n, 0)),)) for n in FIELDS])
    for nm in ("years", "months", "weeks"):
        for sgn in (1, -1):
            inside, at = call({nm: sgn * (2 ** 32 - 1)}), call({nm: sgn * 2 ** 32})
            tri(run, rule, "%s/%s" % (nm, "+" if sgn > 0 else "-"), [inside, at], inside == ("val", True) and at == ("val", False),
                "abs(%s) = 2^32 - 1 is valid, 2^32 is not" % nm,
                "IsValidDuration(%s = %s(2^32 - 1)) = %s, (%s2^32) = %s; the limit is abs(%s) >= 2^32 -> invalid" %
                (nm, "-" if sgn < 0 else "", inside[1], "-" if sgn < 0 else "", at[1], nm), f.loc)
    per_s = {"days": 86400, "hours": 3600, "minutes": 60, "seconds": 1}
    for nm, k in per_s.items():
        for sgn in (1, -1):
            top = (2 ** 53 - 1) // k
            inside, at = call({nm: sgn * top}), call({nm: sgn * (top + 1)})
            tri(run, rule, "%s/%s" % (nm, "+" if sgn > 0 else "-"), [inside, at], inside == ("val", True) and at == ("val", False),
                "the largest %s below 2^53 s is valid, the next one is not" % nm,
                "IsValidDuration(%s = %d) = %s, (%d) = %s; the limit is abs(total seconds) >= 2^53 -> invalid" %
                (nm, sgn * top, inside[1], sgn * (top + 1), at[1]), f.loc)
    # sub-second fields carry into the second total exactly
    inside = call({"seconds": 2 ** 53 - 1, "milliseconds": 999, "microseconds": 999, "nanoseconds": 999})
    at = call({"seconds": 2 ** 53 - 1, "milliseconds": 999, "microseconds": 999, "nanoseconds": 1000})
    tri(run, rule, "subsecond-carry", [inside, at], inside == ("val", True) and at == ("val", False),
        "2^53 s - 1 ns is valid, 2^53 s is not",
        "IsValidDuration(2^53 - 1 s + 999 ms + 999 us + 999 ns) = %s, (+ 1000 ns) = %s; the sub-second fields must carry into the "
        "total exactly" % (inside[1], at[1]), f.loc)
    # sign uniformity: every ordered pair of fields with opposite signs is invalid
    bad = []
    und = False
    for i, a in enumerate(FIELDS):
        for b in FIELDS[i + 1:]:
            for sa in (1, -1):
                got = call({a: sa, b: -sa})
                if got[0] == "opaque":
                    und = True
                elif got != ("val", False):
                    bad.append("%s=%d,%s=%d -> %s" % (a, sa, b, -sa, got[1]))
    if und:
        run.ok(rule, "sign-scan", "IsValidDuration does not fold: not decided", f.loc, nontrivial=False)
    else:
        run.check(not bad, rule, "sign-scan", "all 90 mixed-sign field pairs are invalid",
                  "IsValidDuration accepts fields of different signs: %s" % "; ".join(bad[:4]), f.loc)
    run.exhaustive_tables.append("IsValidDuration mixed-sign pairs (45 pairs x 2)")


def check_fields_unit_table(run, fx, rs):
    rule = "R1.fields-unit-table"
    run.rule(rule, "the i-th entry of Duration::fields() is the field whose unit is Unit::from(10 - i) "
                   "(default_largest_unit relies on it)")
    ev = H.Evaluator(fx)
    conv = None
    for g in rs.fns:
        if g.name == "from" and g.d.get("impl_self") == UNIT and g.params and g.params[0]["ty"] == "usize":
            conv = g
    fl = rs.fn(D + "Duration::fields")
    dl = rs.fn(D + "Duration::default_largest_unit")
    if conv is None or fl is None or dl is None:
        run.anchor_missing(rule, "anchors", "From<usize> for Unit / Duration::fields / default_largest_unit not found")
        return
    order = [r for r in self_reads(fl) if r in FIELDS]
    for i, nm in enumerate(order):
        k, v = fold(ev, conv, [10 - i])
        want = FIELD_UNIT[FIELDS.index(nm)] if nm in FIELDS else None
        run.check(k == "val" and vname(v) == want, rule, "%d/%s" % (i, nm), "fields()[%d] = %s <-> Unit::from(%d) = %s" %
                  (i, nm, 10 - i, vname(v)), "fields()[%d] is `%s` but Unit::from(%d) is %s" % (i, nm, 10 - i, vname(v)),
                  fl.loc)
    # default_largest_unit uses 10 - index
    subs = [x for x in hir_walk(dl.hir) if isinstance(x, dict) and x.get("k") == "bin" and x["op"] == "-"
            and x["a"].get("k") == "lit" and x["a"]["v"].get("int") == 10]
    run.check(len(subs) == 1, rule, "default_largest_unit/10-i", "uses Unit::from(10 - index)",
              "default_largest_unit no longer computes Unit::from(10 - index)", dl.loc)
    run.exhaustive_tables.append("Duration::fields <-> Unit (10 entries)")


def main(tier):
    run, fx = start("C09", tier)
    rs = fx["temporal_rs"]
    check_limits(run, fx, rs)
    check_totality(run, fx, rs)
    check_sibling_abs(run, fx, rs)
    check_fields_unit_table(run, fx, rs)
    wiring.check_add_subtract(run, fx, rs, "duration::Duration", "add", "subtract")
    run.rule("R11.add-rejects-calendar-units", "AddDurations reaches its arithmetic only after deciding that the larger "
                                               "largest-unit is not a calendar unit; otherwise a RangeError")
    check_guarded_call(run, fx, rs.fn(D + "Duration::add"), "is_calendar_unit", "::add_days",
                       "R11.add-rejects-calendar-units", "Duration::add", kind="Range", guard_pass=False)
    units.report(run, fx, "C09")
    # AddDurations: no success without the calendar-unit refusal and the balancing step
    fadd = fx["temporal_rs"].fn("temporal_rs::builtins::core::duration::Duration::add")
    rule = "R11.add-durations-balanced"
    run.rule(rule, "every success path of Duration::add passes through BalanceTimeDuration (TimeDuration::from_normalized) - no "
                   "fast path returns an operand unbalanced - and reaches it only after `largest_unit.is_calendar_unit()` was "
                   "decided false (a RangeError otherwise)")
    check_must_call_on_success(run, fx, fadd, ["TimeDuration::from_normalized"], rule, "Duration::add/balanced",
                               "the result is not balanced to the larger of the two largest units")
    check_guarded_call(run, fx, fadd, "is_calendar_unit", "TimeDuration::from_normalized", rule, "Duration::add/calendar-units",
                       kind="Range", guard_pass=False)
    ranges.check_balance(run, fx)
    from ..rules import extra
    extra.check_duration_field_tables(run, fx)
    extra.check_total_includes_days(run, fx)
    return run.finish(EXPLANATION)
