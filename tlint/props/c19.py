"""C19 — convenience (compiled-data) and FFI layers are thin.

Rule family R2 (forwarding/wiring) + R3/R1 (conversions), on the type-checked,
macro-expanded HIR of every wrapper: each wrapper body is normalised by copy
propagation into one expression tree, the unique core call is located by its
resolved callee, and parameters / result are followed through a whitelist of
transparent operations.
"""
import re
from ..core import Run
from ..facts import Facts
from .. import hireval as H
from ..terms import show, short, walk, calls
from ..rules.common import is_err

# transparent unary wrappers (term heads) when following a value
TRANSPARENT_CALLS = (
    "core::convert::Into::into", "core::convert::From::from", "core::convert::TryInto::try_into",
    "core::convert::TryFrom::try_from", "core::clone::Clone::clone", "alloc::boxed::Box::<T>::new",
    "core::convert::AsRef::as_ref", "alloc::string::ToString::to_string", "core::ops::deref::Deref::deref",
)
# accessor adapters of the core crate that only re-express a core result in FFI-safe form
ADAPTERS = {
    "temporal_rs::primitive::FiniteF64::as_inner": "f64 payload of a duration field",
    "temporal_rs::epoch_nanoseconds::EpochNanoseconds::as_i128": "i128 payload of epoch nanoseconds",
    "temporal_rs::builtins::core::calendar::types::MonthCode::as_str": "text of a month code",
    "tinystr::ascii::TinyAsciiStr::<N>::as_str": "text of a tiny string",
}
# FFI name -> core name (Diplomat constructor naming); one reason each
RENAMES = {
    "create": ("new", "Diplomat names constructors create"),
    "try_create": ("try_new", "Diplomat names constructors create"),
    "create_with_overflow": ("new_with_overflow", "Diplomat names constructors create"),
    "get_for_bcp47_string": ("get_for_bcp47_bytes", "DiplomatStr is a byte slice"),
}
# wrappers allowed to compute an argument / result (not pure forwarding); one reason each
COMPUTING = {
    "temporal_capi::instant::ffi::Instant::try_new": "joins the two 64-bit halves of I128Nanoseconds",
    "temporal_capi::instant::ffi::Instant::epoch_nanoseconds": "splits an i128 into I128Nanoseconds",
    "temporal_capi::duration::ffi::PartialDuration::is_empty": "converts then asks the core record",
    "temporal_capi::plain_date::ffi::PlainDate::to_plain_date_time": "unwraps Option<&PlainTime> to the inner time",
}
NOT_FORWARDERS = {
    "transparent_convert": "pointer cast generated for #[diplomat::transparent_convert]",
    "temporal_capi::error::ffi::TemporalError::syntax": "constructor of the FFI error record (test helper)",
}


def strip(t):
    """remove transparent wrappers; returns (core, wrappers)"""
    seen = []
    while True:
        if isinstance(t, H.Sym):
            if t.what == "call" and t.parts[0] in TRANSPARENT_CALLS and len(t.parts[1]) == 1:
                seen.append(short(t.parts[0]))
                t = t.parts[1][0]
                continue
            if t.what == "call" and t.parts[0] in ADAPTERS and len(t.parts[1]) == 1:
                seen.append(short(t.parts[0]))
                t = t.parts[1][0]
                continue
            if t.what == "call" and isinstance(t.parts[0], str) and t.parts[0].endswith("::transparent_convert") \
                    and len(t.parts[1]) == 1:
                seen.append("transparent_convert")
                t = t.parts[1][0]
                continue
            if t.what in ("try", "into", "elem"):
                seen.append(t.what)
                t = t.parts[0]
                continue
            if t.what == "pat":
                seen.append("pattern-binding")
                t = t.parts[1]
                continue
            if t.what == "ok_or" and t.parts[1] == H.T(()):
                seen.append("ok_or(())")
                t = t.parts[0]
                continue
            if t.what == "map" and is_transparent_fn(t.parts[1]):
                seen.append("map")
                t = t.parts[0]
                continue
            if t.what == "map_err" and is_transparent_fn(t.parts[1]):
                seen.append("map_err")
                t = t.parts[0]
                continue
            if t.what == "field" and t.parts[1] == "0":
                seen.append(".0")
                t = t.parts[0]
                continue
            if t.what == "match" and len(t.parts) == 2 and _match_is_map(t):
                # match r { Ok(v) => Ok(wrap(v)), Err(e) => Err(e.into()) }: map + map_err written out
                seen.append("match-map")
                t = t.parts[0]
                continue
        if isinstance(t, H.V):
            if t.path in (H.OK, H.SOME) and len(t.args) == 1:
                seen.append(short(t.path))
                t = t.args[0]
                continue
            # FFI newtype wrappers: ffi::X(core)
            if "::ffi::" in t.path and len(t.args) == 1:
                seen.append(short(t.path))
                t = t.args[0]
                continue
        return t, seen


def _match_is_map(t):
    """every arm rebuilds the variant it matched around its own binding, under transparent wrappers only"""
    scrut, arms = t.parts
    if not isinstance(arms, tuple) or not arms:
        return False
    sc, _ = strip(scrut)
    for a in arms:
        if not (isinstance(a, H.Sym) and a.what == "arm" and len(a.parts) == 2 and isinstance(a.parts[0], str)):
            return False
        pat, body = a.parts
        m = re.match(r"^(?:\w+::)*(Ok|Err|Some)\((\w+)\)$", pat.strip())
        if not m or not isinstance(body, H.V) or len(body.args) != 1:
            return False
        if body.path != {"Ok": H.OK, "Err": H.ERR, "Some": H.SOME}[m.group(1)]:
            return False
        inner, _w = strip(body.args[0])
        if not (inner is sc or inner == sc):
            return False
    return True


def is_transparent_fn(f):
    if isinstance(f, H.Sym) and f.what == "fnref":
        return f.parts[0] in TRANSPARENT_CALLS
    if isinstance(f, H.Closure):
        # |x| Box::new(W(x))  /  |x| W(x) / |x| x.0
        return closure_is_wrapper(f) or closure_folds_to_wrapper(f)
    return False


_FX = [None]


def closure_folds_to_wrapper(c):
    """the closure applied to a fresh value folds (with what it captured: a constructor handed to a helper as `wrap`) to that
    value under transparent wrappers only"""
    if _FX[0] is None or len(c.node.get("params") or []) != 1:
        return False
    ev = H.Evaluator(_FX[0])
    ev.inline = lambda p: False
    mark = H.Sym("param", ("\u2022closure-argument",))
    try:
        r = ev.apply_closure(c, [mark])
    except Exception:
        return False
    if ev.lossy or ev.trace and any(not (isinstance(x.parts[0], str) and x.parts[0] in TRANSPARENT_CALLS) for x in ev.trace):
        return False
    core, _seen = strip(r)
    return core is mark or core == mark


def closure_is_wrapper(c):
    node = c.node
    params = node["params"]
    if len(params) != 1 or params[0]["k"] != "bind":
        return False
    name = params[0]["name"]

    def inner(e):
        k = e["k"]
        if k == "block" and not e["stmts"] and e.get("expr"):
            return inner(e["expr"])
        if k == "path":
            return e["res"].get("local") == name
        if k == "call" and len(e["args"]) == 1:
            if e.get("fn") in TRANSPARENT_CALLS or "ctor" in e:
                return inner(e["args"][0])
            f = e.get("f")
            if f and f["k"] == "path" and ("selfctor" in f["res"] or f["res"].get("dk") == "Ctor"):
                return inner(e["args"][0])
        if k == "mcall" and not e["args"] and e.get("fn") in TRANSPARENT_CALLS:
            return inner(e["recv"])
        if k == "field" and e["name"] == "0":
            return inner(e["e"])
        if k in ("addr",):
            return inner(e["e"])
        if k == "un" and e["op"] == "*":
            return inner(e["a"])
        return False
    return inner(node["body"])


def _core_has_method(fx, ffi_ty, core_ty, name):
    rs = fx["temporal_rs"]
    for f in rs.fns:
        if f.name == name and f.kind == "AssocFn" and type_seg(f.path) in (ffi_ty, core_ty):
            return True
    return False


INT_RANGE = {"i8": (-2 ** 7, 2 ** 7 - 1), "u8": (0, 2 ** 8 - 1), "i16": (-2 ** 15, 2 ** 15 - 1), "u16": (0, 2 ** 16 - 1),
             "i32": (-2 ** 31, 2 ** 31 - 1), "u32": (0, 2 ** 32 - 1), "i64": (-2 ** 63, 2 ** 63 - 1), "u64": (0, 2 ** 64 - 1),
             "isize": (-2 ** 63, 2 ** 63 - 1), "usize": (0, 2 ** 64 - 1)}
STD_FIELDLESS = {"core::cmp::Ordering": (-1, 0, 1), "bool": (0, 1)}


def injective_enum_cast(fx, src_ty, dst_ty):
    """`value as dst_ty` of a fieldless enum whose discriminants all fit the target: one integer per variant, nothing lost"""
    rng = INT_RANGE.get(dst_ty)
    if rng is None or not isinstance(src_ty, str):
        return False
    src = src_ty.lstrip("&").strip()
    if src in STD_FIELDLESS:
        ds = STD_FIELDLESS[src]
    else:
        adt = None
        for c in fx.crates.values():
            adt = adt or c.adts.get(src)
        if adt is None or adt.get("kind") != "enum" or any(v.get("fields") for v in adt["variants"]):
            return False
        ds = [v.get("discr") for v in adt["variants"]]
        if any(not isinstance(d, int) for d in ds):
            return False
    return len(set(ds)) == len(ds) and all(rng[0] <= d <= rng[1] for d in ds)


def is_core_path(p):
    return isinstance(p, str) and (p.startswith("temporal_rs::") or p.startswith("icu_calendar::")
                                   or p.startswith("<temporal_rs::") or p.startswith("<icu_calendar::"))


def type_seg(path):
    segs = path.split("::")
    return segs[-2] if len(segs) >= 2 else ""


def check_bridge(run, fx, ev):
    capi = fx["temporal_capi"]
    rule = "R2.ffi-forward"
    run.rule(rule, "every #[diplomat::bridge] method calls exactly one core method of the same name on the same "
                   "type, passes each of its parameters once, in order, through transparent conversions only, and "
                   "returns the core result through transparent wrappers only")
    n = 0
    for f in capi.fns:
        if f.kind != "AssocFn" or "::ffi::" not in f.path or f.d.get("impl_trait"):
            continue
        n += 1
        name = f.name
        key = f.path.replace("temporal_capi::", "")
        if name in NOT_FORWARDERS or f.path in NOT_FORWARDERS:
            run.ok(rule, key, "not a forwarder: " + NOT_FORWARDERS.get(name, NOT_FORWARDERS.get(f.path)), f.loc,
                   nontrivial=False)
            continue
        args = [H.Sym("param", (p["name"],)) for p in f.params]
        ev.lossy = []
        try:
            res = ev.call_fn(f, args)
        except (H.Panic, H.Budget) as e:
            run.bad(rule, key, "wrapper body could not be normalised (%s)" % e, f.loc)
            continue
        trace = list(ev.trace)
        if ev.lossy and f.path not in COMPUTING:
            # control flow of its own (an early return under a condition): every path that does not fail must go through
            # the core call
            expect0 = RENAMES.get(name, (name,))[0]
            ev_p = H.Evaluator(fx)
            ev_p.inline = ev.inline
            try:
                paths = ev_p.paths(f, args, max_paths=64)
            except (H.Panic, H.Budget):
                paths = None
            if paths is not None:
                stray = [show(r)[:80] for dec, r, tr in paths if not isinstance(r, H.Panic) and not is_err(r) and
                         not any(is_core_path(c.parts[0]) and c.parts[0].rsplit("::", 1)[-1] == expect0 for c in tr)]
                if stray:
                    run.bad(rule, key, "FFI method `%s` has %d path(s) that produce a value without calling core `%s`: %s" %
                            (name, len(stray), expect0, stray[:2]), f.loc)
                    continue
        core_calls = [c for c in trace if is_core_path(c.parts[0]) and c.parts[0] not in ADAPTERS]
        # drop core calls that are arguments of other core calls' receivers only when adapters
        if not core_calls:
            run.bad(rule, key, "no core call found in FFI method", f.loc, detail=show(res))
            continue
        expect = RENAMES.get(name, (name,))[0]
        prim = [c for c in core_calls if c.parts[0].rsplit("::", 1)[-1] == expect]
        if not prim and len(core_calls) == 1 and not _core_has_method(fx, type_seg(f.path), type_seg(core_calls[0].parts[0]), expect):
            # the core type has no method of this name at all: the FFI method does not NAME a core method (an export added
            # under a name of its own); which method it should forward to is not decidable, how it forwards is
            prim = core_calls
            run.undecided.append({"rule": rule, "key": key + "/named-method", "why": "core type %s has no method `%s`; the "
                                  "forwarding to `%s` is checked, the choice of method is not" %
                                  (type_seg(core_calls[0].parts[0]), expect, short(core_calls[0].parts[0]))})
            expect = core_calls[0].parts[0].rsplit("::", 1)[-1]
        if len(prim) != 1:
            run.bad(rule, key, "FFI method `%s` must call core `%s` exactly once; core calls: %s" %
                    (name, expect, [short(c.parts[0]) for c in core_calls]), f.loc, detail=show(res))
            continue
        p = prim[0]
        others = [c for c in core_calls if c is not p]
        computing = f.path in COMPUTING
        if others and not computing:
            run.bad(rule, key, "extra core calls besides `%s`: %s" % (expect, [short(c.parts[0]) for c in others]),
                    f.loc, detail=show(res))
            continue
        # type agreement
        ffi_ty = type_seg(f.path)
        core_ty = type_seg(p.parts[0])
        if ffi_ty != core_ty:
            run.bad(rule, key, "FFI type %s forwards to core type %s" % (ffi_ty, core_ty), f.loc)
            continue
        # arguments
        pnames = [q["name"] for q in f.params if q["name"] != "write"]
        got = []
        bad = None
        for a in p.parts[1]:
            core, _w = strip(a)
            if isinstance(core, H.Sym) and core.what == "param":
                got.append(core.parts[0])
            elif computing:
                ps = [x.parts[0] for x in walk(a) if isinstance(x, H.Sym) and x.what == "param"]
                got.append(ps[0] if ps else "?")
                if len(set(ps)) > 1:
                    bad = "argument mixes parameters %s" % sorted(set(ps))
            else:
                bad = "argument is computed, not forwarded: %s" % show(a)[:160]
                break
        if bad:
            run.bad(rule, key, bad, f.loc, detail=show(p))
            continue
        if got != pnames:
            run.bad(rule, key, "core call receives %s but the wrapper's parameters are %s (dropped, duplicated or "
                               "reordered)" % (got, pnames), f.loc, detail=show(p))
            continue
        # result
        has_write = any(q["name"] == "write" for q in f.params)
        if has_write:
            ws = [c for c in trace if isinstance(c.parts[0], str) and c.parts[0].endswith("write_str")]
            okw = False
            for w in ws:
                for a in w.parts[1]:
                    core, _ = strip(a)
                    if core is p:
                        okw = True
            if not okw and not computing:
                run.bad(rule, key, "core result does not reach write_str unchanged", f.loc, detail=show(res))
                continue
        else:
            core, _w = strip(res)
            if core is not p and not computing:
                run.bad(rule, key, "core result does not reach the return value through transparent wrappers only: %s"
                        % show(res)[:200], f.loc)
                continue
        run.ok(rule, key, "%s -> %s(%s)" % (name, short(p.parts[0]), ", ".join(got)), f.loc)
    run.analysed["ffi_bridge_methods"] = n
    if n < 150:
        run.anchor_missing(rule, "bridge-methods", "only %d #[diplomat::bridge] methods found (expected ≥150)" % n)


def check_shims(run, fx, ev):
    capi = fx["temporal_capi"]
    rule = "R2.ffi-shim"
    run.rule(rule, "every exported extern \"C\" symbol temporal_rs_<Type>_<method> calls exactly ffi::<Type>::<method> "
                   "with its parameters in order through Into only and returns its result through Into only")
    n = 0
    for f in capi.fns:
        if f.kind != "Fn" or not f.d.get("abi", "").startswith("C") or not f.name.startswith("temporal_rs_"):
            continue
        n += 1
        key = f.name
        rest = f.name[len("temporal_rs_"):]
        if rest.endswith("_destroy"):
            run.ok(rule, key, "destructor shim", f.loc, nontrivial=False)
            continue
        args = [H.Sym("param", (p["name"],)) for p in f.params]
        try:
            res = ev.call_fn(f, args)
        except (H.Panic, H.Budget) as e:
            run.bad(rule, key, "shim body could not be normalised (%s)" % e, f.loc)
            continue
        bridge = [c for c in ev.trace if isinstance(c.parts[0], str) and c.parts[0].startswith("temporal_capi::")
                  and "::ffi::" in c.parts[0]]
        if len(bridge) != 1:
            run.bad(rule, key, "shim must call exactly one bridge method, calls %s" % [short(c.parts[0]) for c in bridge],
                    f.loc)
            continue
        b = bridge[0]
        ty, meth = type_seg(b.parts[0]), b.parts[0].rsplit("::", 1)[-1]
        if rest != ty + "_" + meth:
            run.bad(rule, key, "symbol %s forwards to %s::%s" % (f.name, ty, meth), f.loc)
            continue
        got = []
        okargs = True
        for a in b.parts[1]:
            core, _ = strip(a)
            if isinstance(core, H.Sym) and core.what == "param":
                got.append(core.parts[0])
            else:
                okargs = False
        pn = [q["name"] for q in f.params]
        if not okargs or got != pn:
            run.bad(rule, key, "shim passes %s for parameters %s" % (got, pn), f.loc, detail=show(b))
            continue
        core, _ = strip(res)
        target = fx.fn(b.parts[0])
        returns_unit = target is not None and target.ret == "()"
        if isinstance(core, H.Sym) and core.what == "cast" and target is not None and \
                injective_enum_cast(fx, target.ret, str(core.parts[1])):
            # a fieldless enum handed to C as its discriminant (core::cmp::Ordering -> int8_t)
            core, _ = strip(core.parts[0])
        if core is not b and not returns_unit:
            run.bad(rule, key, "bridge result does not reach the return value: %s" % show(res)[:160], f.loc)
            continue
        run.ok(rule, key, "-> %s::%s(%s)" % (ty, meth, ", ".join(got)), f.loc)
    run.analysed["ffi_extern_shims"] = n
    if n < 150:
        run.anchor_missing(rule, "shims", "only %d extern shims found (expected ≥150)" % n)


SUFFIXES = ("_with_provider", "_and_provider", "_with_provider_and_system_info")
COMPILED_COMPUTING = {
    "plain_datetime_iso": "reads the system clock/time zone, then forwards",
    "plain_date_iso": "reads the system clock/time zone, then forwards",
    "plain_time_iso": "reads the system clock/time zone, then forwards",
}


def provider_term(t):
    """is t (after & and *) the guard obtained from TZ_PROVIDER.lock()?"""
    core, _ = strip(t)
    for x in walk(core):
        if isinstance(x, H.Sym) and x.what == "static" and x.parts[0].endswith("TZ_PROVIDER"):
            return True
    return False


def check_compiled(run, fx, ev):
    rs = fx["temporal_rs"]
    rule = "R2.compiled-forward"
    run.rule(rule, "every pub fn under builtins::compiled calls exactly the core method <name> + provider suffix, "
                   "passes its parameters in order unchanged followed by the locked TZ_PROVIDER, and returns the core "
                   "result unchanged")
    n = 0
    for f in rs.fns:
        if "::builtins::compiled::" not in f.path or f.kind != "AssocFn":
            continue
        if f.d.get("impl_trait"):
            continue
        n += 1
        key = f.path.replace("temporal_rs::builtins::compiled::", "")
        args = [H.Sym("param", (p["name"],)) for p in f.params]
        ev.lossy = []
        try:
            res = ev.call_fn(f, args)
        except (H.Panic, H.Budget) as e:
            run.bad(rule, key, "wrapper body could not be normalised (%s)" % e, f.loc)
            continue
        name = f.name
        if ev.lossy:
            # the wrapper has control flow of its own: every path must still end in the core call
            ev_p = H.Evaluator(fx)
            ev_p.inline = ev.inline
            try:
                paths = ev_p.paths(f, args, max_paths=64)
            except (H.Panic, H.Budget):
                paths = None
            if paths is None:
                run.ok(rule, key, "wrapper with control flow the folder cannot enumerate: not decided", f.loc, nontrivial=False)
                continue
            stray = [show(r)[:80] for dec, r, tr in paths
                     if not (isinstance(r, H.Sym) and r.what == "call" and any(str(r.parts[0]).endswith(sfx) for sfx in SUFFIXES))]
            if stray:
                run.bad(rule, key, "wrapper `%s` has %d path(s) that return without the core call: %s (the convenience method "
                                   "then answers differently from the provider-taking method for the same arguments)" %
                        (name, len(stray), stray[:2]), f.loc)
                continue
        cands = [c for c in ev.trace if isinstance(c.parts[0], str) and c.parts[0].startswith("temporal_rs::")
                 and any(c.parts[0].endswith(s) for s in SUFFIXES)]
        if len(cands) != 1:
            run.bad(rule, key, "expected exactly one *_with_provider core call, found %s" %
                    [short(c.parts[0]) for c in cands], f.loc)
            continue
        c = cands[0]
        cname = c.parts[0].rsplit("::", 1)[-1]
        if cname not in [name + s for s in SUFFIXES]:
            run.bad(rule, key, "wrapper `%s` forwards to `%s`" % (name, cname), f.loc, detail=show(c))
            continue
        impl_self = (f.d.get("impl_self") or "").rsplit("::", 1)[-1]
        if type_seg(c.parts[0]) != impl_self:
            run.bad(rule, key, "wrapper on %s forwards to %s" % (impl_self, type_seg(c.parts[0])), f.loc)
            continue
        cargs = list(c.parts[1])
        if not cargs or not provider_term(cargs[-1]):
            run.bad(rule, key, "last argument of the core call is not the locked TZ_PROVIDER", f.loc, detail=show(c))
            continue
        got = []
        bad = None
        computing = name in COMPILED_COMPUTING
        for a in cargs[:-1]:
            if isinstance(a, H.Sym) and a.what == "param":
                got.append(a.parts[0])
            elif computing:
                ps = [x.parts[0] for x in walk(a) if isinstance(x, H.Sym) and x.what == "param"]
                got.extend(sorted(set(ps)))
            else:
                bad = "argument is not a parameter passed unchanged: %s" % show(a)[:120]
        pn = [q["name"] for q in f.params]
        if bad or got != pn:
            run.bad(rule, key, bad or "core call receives %s for parameters %s" % (got, pn), f.loc, detail=show(c))
            continue
        if res is not c:
            run.bad(rule, key, "core result is not returned unchanged: %s" % show(res)[:160], f.loc)
            continue
        run.ok(rule, key, "%s -> %s(%s, provider)" % (name, cname, ", ".join(got)), f.loc)
    run.analysed["compiled_wrappers"] = n
    if n < 40:
        run.anchor_missing(rule, "compiled", "only %d compiled-data wrappers found (expected ≥40)" % n)


def check_enum_conversions(run, fx):
    capi = fx["temporal_capi"]
    ev = H.Evaluator(fx)
    rule = "R1.ffi-enum-convert"
    run.rule(rule, "every From impl between an FFI enum and its core enum maps variant V to variant V (by name) and "
                   "covers every variant of its source enum")
    n = 0
    allenums = {}
    for c in fx.crates.values():
        for p, a in c.adts.items():
            if a["kind"] == "enum":
                allenums[p] = a
    for f in capi.fns:
        if f.name != "from" or f.d.get("impl_trait") != "core::convert::From":
            continue
        if not f.params:
            continue
        src = f.params[0]["ty"]
        dst = f.ret
        if src not in allenums or dst not in allenums:
            continue
        if any(v["fields"] for v in allenums[src]["variants"]):
            continue
        n += 1
        key = "%s->%s" % (src.replace("temporal_capi::", ""), short(dst))
        cells = 0
        wrong = []
        for v in allenums[src]["variants"]:
            val = H.V(src + "::" + v["name"], ())
            try:
                out = ev.call_fn(f, [val])
            except H.Panic as e:
                # a wildcard `unreachable!()` arm for variants the FFI enum does not have
                if any(w["name"] == v["name"] for w in allenums[dst]["variants"]):
                    wrong.append("%s panics" % v["name"])
                continue
            cells += 1
            if not isinstance(out, H.V) or out.path.rsplit("::", 1)[-1] != v["name"] or not out.path.startswith(dst):
                wrong.append("%s -> %s" % (v["name"], show(out)))
        if wrong:
            run.bad(rule, key, "variant mapping is not by name: %s" % "; ".join(wrong), f.loc)
        else:
            run.ok(rule, key, "%d variants map to the variant of the same name" % cells, f.loc)
            run.exhaustive_tables.append(key)
    run.analysed["enum_conversions"] = n
    if n < 15:
        run.anchor_missing(rule, "enum-convert", "only %d enum conversions found (expected ≥15)" % n)


def check_record_conversions(run, fx):
    capi = fx["temporal_capi"]
    ev = H.Evaluator(fx)
    ev.inline = lambda p: False
    rule = "R3.ffi-record-convert"
    run.rule(rule, "every From/TryFrom impl between an FFI record and its core record assigns target field f from "
                   "source field f through transparent conversions only, and reads every source field")
    structs = {}
    for c in fx.crates.values():
        for p, a in c.adts.items():
            if a["kind"] == "struct":
                structs[p] = a
    n = 0
    for f in capi.fns:
        if f.name not in ("from", "try_from") or f.d.get("impl_trait") not in ("core::convert::From",
                                                                                   "core::convert::TryFrom"):
            continue
        if not f.params:
            continue
        src = f.params[0]["ty"]
        if src not in structs or "::ffi::" not in src:
            continue
        sfields = [x["name"] for x in structs[src]["variants"][0]["fields"]]
        if not sfields or sfields == ["0"]:
            continue
        tgt = (f.ret or "").strip()
        mres = re.match(r"^core::result::Result<(.*), [^,<>]*(?:<[^<>]*>)?>$", tgt)
        if mres:
            tgt = mres.group(1).strip()
        if not any(tgt.split("<", 1)[0] in c.adts for c in fx.crates.values()):
            # the target is a scalar (the two halves of the epoch nanoseconds joined into an i128): a value the FFI computes,
            # not a record conversion; the wide-integer rule (R1.ffi-wide-integer-encoding-injective) is the one that applies
            run.ok(rule, f.path.replace("temporal_capi::", ""), "conversion of an FFI record to the scalar `%s`: not a record "
                   "conversion, not decided here" % tgt, f.loc, nontrivial=False)
            continue
        n += 1
        key = "%s" % f.path.replace("temporal_capi::", "")
        ev.lossy = []
        try:
            out = ev.call_fn(f, [H.Sym("param", (f.params[0]["name"],))])
        except (H.Panic, H.Budget) as e:
            run.ok(rule, key, "could not normalise (%s): not decided" % e, f.loc, nontrivial=False)
            continue
        core, _ = strip(out)
        recs = [x for x in walk(out) if isinstance(x, H.S)]
        if not recs:
            # record -> enum conversion (ffi::Precision): every source field must be consulted, and the only
            # payload must come from a source field
            used = set()
            for x in walk(out):
                if isinstance(x, H.Sym) and x.what == "field" and isinstance(x.parts[0], H.Sym) \
                        and x.parts[0].what == "param":
                    used.add(x.parts[1])
            missing = [s for s in sfields if s not in used]
            variants = sorted({x.path.rsplit("::", 1)[-1] for x in walk(out) if isinstance(x, H.V)
                               and x.path.startswith(f.ret or "?")})
            if src.endswith("ffi::Precision") and _precision_table(fx, f, src) is True:
                # decided by value over the whole (is_minute x precision) domain: every source field matters
                run.ok(rule, key, "record->enum: folded over is_minute x precision, all four cells correct", f.loc)
            elif missing and getattr(ev, "lossy", None):
                run.ok(rule, key, "the conversion has control flow the folder cannot follow (%s): not decided" % ev.lossy[0], f.loc,
                       nontrivial=False)
            elif missing:
                run.bad(rule, key, "source fields never read: %s" % missing, f.loc, detail=show(out))
            elif not variants:
                run.bad(rule, key, "conversion builds neither a record nor a variant: %s" % show(out)[:160], f.loc)
            else:
                ok = _precision_table(fx, f, src) if src.endswith("ffi::Precision") else True
                if ok is None:
                    run.ok(rule, key, "the conversion does not fold over (is_minute, precision): not decided", f.loc,
                           nontrivial=False)
                else:
                    run.check(ok is True, rule, key, "record->enum: all %d source fields consulted, variants %s" %
                              (len(sfields), variants), "is_minute must select Precision::Minute and the digit payload "
                              "must come from `precision`: %s" % (ok if ok is not True else ""), f.loc)
            continue
        used = set()
        wrong = []
        paired = 0
        for rec in recs:
            for fname, val in rec.fields:
                srcs = set()
                for x in walk(val):
                    if isinstance(x, H.Sym) and x.what == "field" and isinstance(x.parts[0], H.Sym) \
                            and x.parts[0].what == "param":
                        srcs.add(x.parts[1])
                used |= srcs
                if not srcs:
                    continue
                # nested records (date/time inside datetime) read several fields: fine
                if isinstance(val, H.S) or any(isinstance(y, H.S) for y in walk(val)):
                    continue
                if len(srcs) == 1:
                    s = next(iter(srcs))
                    paired += 1
                    if s != fname and not _alias(fname, s):
                        wrong.append("%s <- %s" % (fname, s))
                else:
                    if fname not in srcs:
                        wrong.append("%s <- %s" % (fname, sorted(srcs)))
        missing = [s for s in sfields if s not in used]
        if wrong:
            run.bad(rule, key, "fields paired unlike with unlike: %s" % "; ".join(wrong), f.loc)
        elif missing:
            run.bad(rule, key, "source fields never read: %s" % missing, f.loc)
        else:
            run.ok(rule, key, "%d fields paired by name, all %d source fields read" % (paired, len(sfields)), f.loc)
    run.analysed["record_conversions"] = n
    if n < 8:
        run.anchor_missing(rule, "record-convert", "only %d record conversions found (expected ≥8)" % n)


def _alias(target, source):
    return False


def _precision_table(fx, f, src):
    """the conversion folded over its finite domain: is_minute x (precision absent / present).  True, None (does not fold),
    or a description of the wrong cell"""
    d = H.Sym("param", ("digit",))
    for is_min in (True, False):
        for prec in (H.V(H.NONE, ()), H.V(H.SOME, (d,))):
            ev = H.Evaluator(fx)
            ev.inline = lambda p: False
            ev.stubs["into_option"] = lambda args: args[0] if isinstance(args[0], H.V) else NotImplemented
            ev.stubs["convert::Into::into"] = lambda args: args[0] if isinstance(args[0], H.V) and args[0].path in (H.SOME, H.NONE) \
                else NotImplemented
            rec = H.S(src, (("is_minute", is_min), ("precision", prec)))
            try:
                out = ev.call_fn(f, [rec])
            except (H.Panic, H.Budget):
                return None
            if not isinstance(out, H.V):
                return None
            name = out.path.rsplit("::", 1)[-1]
            want = "Minute" if is_min else ("Digit" if prec.path == H.SOME else "Auto")
            if name != want:
                return "is_minute=%s, precision %s -> %s (expected %s)" % (is_min, "present" if prec.path == H.SOME else "absent", name, want)
            if want == "Digit":
                core, _ = strip(out.args[0]) if out.args else (None, None)
                if core != d:
                    if H.has_sym(out.args[0]) and d in list(walk(out.args[0])):
                        continue
                    return "the digit payload is %s, not the record's precision" % show(out.args[0] if out.args else None)[:60]
    return True


def _precision_shape(out):
    # ite[$other.is_minute, Minute, ite[let Some(d) = other.precision.into(), Digit(d), Auto]]
    if not (isinstance(out, H.Sym) and out.what == "ite"):
        return False
    c, a, b = out.parts
    if not (isinstance(c, H.Sym) and c.what == "field" and c.parts[1] == "is_minute"):
        return False
    if not (isinstance(a, H.V) and a.path.endswith("Precision::Minute")):
        return False
    if not (isinstance(b, H.Sym) and b.what == "ite"):
        return False
    d, e = b.parts[1], b.parts[2]
    if not (isinstance(d, H.V) and d.path.endswith("Precision::Digit") and len(d.args) == 1):
        return False
    core, _ = strip(d.args[0])
    if not (isinstance(core, H.Sym) and core.what == "field" and core.parts[1] == "precision"):
        return False
    return isinstance(e, H.V) and e.path.endswith("Precision::Auto")


def check_error_kind(run, fx):
    capi = fx["temporal_capi"]
    ev = H.Evaluator(fx)
    rule = "R1.ffi-error-kind"
    run.rule(rule, "the FFI error conversion maps every core ErrorKind to the FFI ErrorKind of the same name")
    f = None
    for g in capi.fns:
        if g.name == "from" and g.params and g.params[0]["ty"] == "temporal_rs::error::TemporalError":
            f = g
    if f is None:
        run.anchor_missing(rule, "From<TemporalError>", "no From<temporal_rs::TemporalError> impl in temporal_capi")
        return
    kinds = ev.enum_values("temporal_rs::error::ErrorKind")
    kfn = fx["temporal_rs"].fn1("TemporalError::kind")
    if not kinds or kfn is None:
        run.anchor_missing(rule, "ErrorKind", "core ErrorKind / TemporalError::kind not found")
        return
    wrong = []
    for k in kinds:
        err = H.S("temporal_rs::error::TemporalError", (("kind", k), ("msg", H.Sym("msg", ()))))
        try:
            out = ev.call_fn(f, [err])
        except H.Panic as e:
            wrong.append("%s panics" % short(k.path))
            continue
        got = None
        for x in walk(out):
            if isinstance(x, H.V) and "ErrorKind" in x.path:
                got = x.path.rsplit("::", 1)[-1]
        if got != k.path.rsplit("::", 1)[-1]:
            wrong.append("%s -> %s" % (k.path.rsplit("::", 1)[-1], got))
    run.check(not wrong, rule, "ErrorKind", "all %d error kinds map by name" % len(kinds),
              "error kinds not mapped by name: %s" % wrong, f.loc)
    run.exhaustive_tables.append("ErrorKind")


def check_wide_integer_encoding(run, fx):
    """the one place where the FFI layer does arithmetic of its own on a value: the 128-bit epoch nanoseconds are split
    into two 64-bit halves.  `returns exactly what the core method returns` needs the split to lose nothing."""
    rule = "R1.ffi-wide-integer-encoding-injective"
    run.rule(rule, "Instant::epoch_nanoseconds of the FFI layer encodes different instants differently: folded on the sign "
                   "pairs (x, -x) for a magnitude below and one above the 64-bit boundary (the only case distinctions the "
                   "split makes: sign, `>> 64`, `& u64::MAX`), the two encodings of a pair must differ")
    capi = fx["temporal_capi"]
    enc = capi.fn1("instant::ffi::Instant::epoch_nanoseconds")
    if enc is None:
        run.anchor_missing(rule, "epoch_nanoseconds", "ffi Instant::epoch_nanoseconds not found")
        return

    def encode(x):
        ev = H.Evaluator(fx)
        ev.inline = lambda p: True
        me = H.V("temporal_capi::instant::ffi::Instant",
                 (H.V("temporal_rs::builtins::core::instant::Instant", (H.V("temporal_rs::epoch_nanoseconds::EpochNanoseconds", (x,)),)),))
        try:
            r = ev.call_fn(enc, [me])
        except (H.Panic, H.Budget):
            return None
        if isinstance(r, H.S) and all(isinstance(v, int) for _, v in r.fields):
            return tuple(r.fields)
        return None
    for name, x in (("below-2^64", 1), ("above-2^64", 2 ** 64 + 5)):
        a, b = encode(x), encode(-x)
        if a is None or b is None:
            run.ok(rule, name, "the encoder does not fold to constants: not decided", enc.loc, nontrivial=False)
            continue
        run.check(a != b, rule, name, "%d -> %s, %d -> %s" % (x, dict(a), -x, dict(b)),
                  "Instant::epoch_nanoseconds encodes %d ns and %d ns identically as %s: the sign is carried by the high half "
                  "only, which is zero for every instant within 2^64 ns (584 years) of the epoch, so every such instant before "
                  "1970 reads back as its mirror image after 1970" % (x, -x, dict(a)), enc.loc)
    run.exhaustive_tables.append("I128Nanoseconds split (2 signs x 2 magnitude classes)")


def run_checks(run, fx):
    check_wide_integer_encoding(run, fx)
    ev = H.Evaluator(fx)
    ev.inline = lambda p: False
    check_bridge(run, fx, ev)
    check_shims(run, fx, ev)
    check_compiled(run, fx, ev)
    check_enum_conversions(run, fx)
    check_record_conversions(run, fx)
    check_error_kind(run, fx)


EXPLANATION = (
    "Static forwarding analysis (R2/R3/R1) over the type-checked, macro-expanded HIR exported from /repo's current "
    "tree (workspace, --features compiled_data). Each wrapper body is normalised by copy propagation and constant "
    "folding into one expression tree; the core call is identified by its resolved callee path; parameters and the "
    "result are followed through a fixed whitelist of transparent operations (Into/From/TryInto+?, Option::map(Into), "
    "Result::map(|x| Box::new(W(x))), map_err(Into), .0, Box::new, adapters as_inner/as_i128/as_str). Enum and error "
    "conversions are folded over every variant (exhaustive). Decides thinness of the layers for all inputs; equality "
    "of behaviour additionally assumes the Into impls of dependencies (DiplomatOption, DiplomatResult) are faithful."
)


def main(tier):
    run = Run("C19", tier)
    fx = Facts("full")
    run.tree_hash = fx.hash
    run.configs.append({"config": "full", "crates": fx.summary()})
    if getattr(fx, "moved", None):
        run.analysed["moved_functions"] = dict(sorted(fx.moved.items()))
    _FX[0] = fx
    run_checks(run, fx)
    run.assumptions += ["Into/From impls of diplomat_runtime (DiplomatOption, DiplomatResult) are value-preserving",
                        "rustc's type checker resolved callees as exported (tfacts reads typeck results)"]
    return run.finish(EXPLANATION)
