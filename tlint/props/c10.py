"""C10 — option validation and defaults (tables folded exhaustively from the HIR)."""
from ..core import Run
from ..facts import Facts
from .. import hireval as H
from ..terms import show, walk
from ..rules.common import *
from ._std import check_must_call_on_success

INCS = [1, 2, 3, 4, 5, 6, 7, 8, 10, 12, 15, 20, 23, 24, 25, 30, 59, 60, 61, 100, 125, 250, 500, 999, 1000, 1001,
        720, 1440, 43200, 86400, 86_400_000, 10**9]
SPEC_MAX = {"Hour": 24, "Minute": 60, "Second": 60, "Millisecond": 1000, "Microsecond": 1000, "Nanosecond": 1000}
NEXT = {"Nanosecond": "Microsecond", "Microsecond": "Millisecond", "Millisecond": "Second", "Second": "Minute",
        "Minute": "Hour", "Hour": "Day"}
GROUPS = {"Date": DATE_UNITS, "Time": TIME_UNITS, "DateTime": DATE_UNITS + TIME_UNITS}
# GetDifferenceSettings arguments per type (unit group, smallestLargestDefaultUnit, fallbackSmallestUnit)
DIFF_SITES = {
    "PlainDate": ("Date", "Day", "Day"),
    "PlainDateTime": ("DateTime", "Day", "Nanosecond"),
    "PlainTime": ("Time", "Hour", "Nanosecond"),
    "Instant": ("Time", "Second", "Nanosecond"),
    "PlainYearMonth": ("Date", "Year", "Month"),
    "ZonedDateTime": ("DateTime", "Hour", "Nanosecond"),
}


def larger(a, b):
    return a if RANK[a] >= RANK[b] else b


def validate_inc(inc, maximum, inclusive):
    mx = maximum if inclusive else maximum - 1
    if inc > mx:
        return False
    return maximum % inc == 0


def oracle_diff(group, fl, fs, largest, smallest, inc):
    """GetDifferenceSettings: returns ('ok', largest, smallest) or ('err',)"""
    g = GROUPS[group]
    if largest is not None and largest != "Auto" and largest not in g:
        return ("err",)
    if smallest is not None and smallest not in g:      # auto is not a valid smallestUnit
        return ("err",)
    s = smallest if smallest is not None else fs
    dl = larger(fl, s)
    l = dl if largest in (None, "Auto") else largest
    if larger(l, s) != l:
        return ("err",)
    if s in SPEC_MAX and not validate_inc(inc, SPEC_MAX[s], False):
        return ("err",)
    return ("ok", l, s)


def oracle_duration_round(existing, largest, smallest, inc):
    if largest is None and smallest is None:
        return ("err",)
    if smallest == "Auto":
        return ("err",)
    s = smallest if smallest is not None else "Nanosecond"
    dl = larger(existing, s)
    l = dl if largest in (None, "Auto") else largest
    if larger(l, s) != l:
        return ("err",)
    if s in SPEC_MAX and not validate_inc(inc, SPEC_MAX[s], False):
        return ("err",)
    return ("ok", l, s)


def oracle_datetime_round(smallest, inc):
    if smallest is None or smallest not in TIME_UNITS + ["Day"]:
        return ("err",)
    if smallest == "Day":
        return ("ok", smallest) if validate_inc(inc, 1, True) else ("err",)
    return ("ok", smallest) if validate_inc(inc, SPEC_MAX[smallest], False) else ("err",)


def oracle_instant_round(smallest, inc):
    if smallest is None or smallest not in TIME_UNITS:
        return ("err",)
    mx = NS["Day"] // NS[smallest]
    return ("ok", smallest) if validate_inc(inc, mx, True) else ("err",)


def oracle_time_round(smallest, inc):
    if smallest not in TIME_UNITS:
        return ("err",)
    return ("ok", smallest) if validate_inc(inc, SPEC_MAX[smallest], False) else ("err",)


def rinc(k):
    return H.V(OPT + "increment::RoundingIncrement", (k,))


def settings(path, l, s, m, i):
    return H.S(OPT + path, (("largest_unit", opt(unit(l) if l else None)), ("smallest_unit", opt(unit(s) if s else None)),
                            ("rounding_mode", opt(m)), ("increment", opt(rinc(i) if i else None))))


def check_unit_tables(run, fx, ev):
    rs = fx["temporal_rs"]
    units = ev.enum_values(UNIT)
    names = [vname(u) for u in units] if units else []
    rule = "R1.unit-order"
    run.rule(rule, "Unit's variants are declared Auto < Nanosecond < ... < Year and Unit derives Ord (the "
                   "`largest < smallest` comparisons rely on it)")
    run.check(names == UNIT_NAMES, rule, "variant-order", "variants in Temporal order",
              "Unit variants are declared %s; the largest/smallest comparisons need %s" % (names, UNIT_NAMES))
    derived = [i for i in rs.impls if i["self_ty"] == UNIT and (i.get("trait") or "").endswith("cmp::Ord")]
    run.check(bool(derived) and derived[0]["derived"], rule, "derived-ord", "Ord for Unit is derived",
              "Unit has no derived Ord impl (a hand-written order must be re-checked)")
    if names != UNIT_NAMES:
        return
    fmax = rs.fn(UNIT + "::to_maximum_rounding_increment")
    fns = rs.fn(UNIT + "::as_nanoseconds")
    ftime, fdate, fcal = rs.fn(UNIT + "::is_time_unit"), rs.fn(UNIT + "::is_date_unit"), rs.fn(UNIT + "::is_calendar_unit")
    if not all([fmax, fns, ftime, fdate, fcal]):
        run.anchor_missing("R1.unit-tables", "Unit methods", "Unit::{to_maximum_rounding_increment, as_nanoseconds, "
                           "is_time_unit, is_date_unit, is_calendar_unit} not all found")
        return
    rule = "R1.max-increment-law"
    run.rule(rule, "to_maximum_rounding_increment(U) x as_nanoseconds(U) == as_nanoseconds(next larger unit) for the "
                   "six time units; date units have no maximum; no unit makes the table panic")
    ns = {}
    mx = {}
    for u in units:
        k, v = fold(ev, fns, [u])
        ns[vname(u)] = (v.args[0] if isinstance(v, H.V) and v.path == H.SOME else None) if k == "val" else "<%s>" % k
        k, v = fold(ev, fmax, [u])
        if k == "val":
            mx[vname(u)] = v.args[0] if isinstance(v, H.V) and v.path == H.SOME else None
        else:
            mx[vname(u)] = "<%s:%s>" % (k, v)
    for u in TIME_UNITS:
        ok = isinstance(mx[u], int) and isinstance(ns[u], int) and isinstance(ns[NEXT[u]], int) \
            and mx[u] * ns[u] == ns[NEXT[u]]
        run.check(ok, rule, u, "max(%s)=%s x ns(%s)=%s = ns(%s)=%s" % (u, mx[u], u, ns[u], NEXT[u], ns[NEXT[u]]),
                  "max(%s)=%s x ns(%s)=%s != ns(%s)=%s" % (u, mx[u], u, ns[u], NEXT[u], ns[NEXT[u]]), fmax.loc)
        run.check(ns[u] == NS[u], rule, u + "/ns", "as_nanoseconds(%s) = %s" % (u, ns[u]),
                  "as_nanoseconds(%s) = %s, expected %s" % (u, ns[u], NS[u]), fns.loc)
    run.check(ns["Day"] == NS["Day"], rule, "Day/ns", "as_nanoseconds(Day) = %s" % ns["Day"],
              "as_nanoseconds(Day) = %s, expected %s" % (ns["Day"], NS["Day"]), fns.loc)
    for u in DATE_UNITS:
        run.check(mx[u] is None, rule, u, "max(%s) is None" % u, "max(%s) = %s, expected None" % (u, mx[u]), fmax.loc)
    run.check(not (isinstance(mx["Auto"], str) and mx["Auto"].startswith("<panic")), "R8.unit-auto-panic",
              "to_maximum_rounding_increment(Auto)", "Auto does not panic",
              "Unit::Auto reaches a panic in to_maximum_rounding_increment: %s" % mx["Auto"], fmax.loc)
    run.rule("R8.unit-auto-panic", "no Unit variant (in particular Auto, which callers can pass) makes a unit table "
                                   "function panic")
    rule = "R1.unit-partition"
    run.rule(rule, "is_time_unit, is_date_unit and {Auto} partition Unit; is_calendar_unit is a subset of is_date_unit; "
                   "membership equals the Temporal unit groups")
    for u in units:
        n = vname(u)
        t = fold(ev, ftime, [u])[1]
        d = fold(ev, fdate, [u])[1]
        c = fold(ev, fcal, [u])[1]
        run.check(t is (n in TIME_UNITS) and d is (n in DATE_UNITS) and (not c or d) and c is (n in ("Year", "Month", "Week")),
                  rule, n, "time=%s date=%s calendar=%s" % (t, d, c),
                  "%s: is_time_unit=%s is_date_unit=%s is_calendar_unit=%s" % (n, t, d, c), ftime.loc)
    run.exhaustive_tables += ["Unit tables (11 variants x 5 functions)"]


def check_validate_unit(run, fx, ev):
    rs = fx["temporal_rs"]
    rule = "R1.unit-group-membership"
    run.rule(rule, "UnitGroup::validate_unit(group, unit, extra) accepts exactly: absent, the group's units, and the "
                   "extra unit")
    f = rs.fn1("UnitGroup::validate_unit")
    if f is None:
        run.anchor_missing(rule, "validate_unit", "UnitGroup::validate_unit not found")
        return
    for g, members in GROUPS.items():
        for extra in [None, "Auto", "Day"]:
            for u in [None] + UNIT_NAMES:
                k, v = fold(ev, f, [H.V(OPT + "UnitGroup::" + g, ()), opt(unit(u) if u else None),
                                    opt(unit(extra) if extra else None)])
                want = u is None or u in members or (extra is not None and u == extra)
                key = "%s/%s/extra=%s" % (g, u, extra)
                if u == "Auto" and extra != "Auto" and g != "Time":
                    # group Date/DateTime with Auto: decided by the callers' matrices below (largestUnit may be
                    # auto, smallestUnit may not); membership itself is reported there
                    run.ok(rule, key, "auto handled by the resolver matrices", f.loc, nontrivial=False)
                    continue
                run.check((k == "ok") == want and (k in ("ok", "err")) and (k != "err" or v == "Range"), rule, key,
                          "%s -> %s" % (u, k), "validate_unit(%s, %s, extra=%s) -> %s %s, expected %s" %
                          (g, u, extra, k, v if k != "ok" else "", "accept" if want else "RangeError"), f.loc)
    run.exhaustive_tables.append("validate_unit (3 groups x 12 units x 3 extras)")


def check_diff_sites(run, fx, ev):
    rs = fx["temporal_rs"]
    rule = "R2.diff-settings-constants"
    run.rule(rule, "each type's difference operation calls from_diff_settings with the unit group, default largest and "
                   "default smallest unit that GetDifferenceSettings prescribes for that type")
    found = {}
    for f in rs.fns:
        if f.hir is None or "::builtins::core::" not in f.path:
            continue
        for n in hir_walk(f.hir):
            if isinstance(n, dict) and n.get("k") == "call" and str(n.get("fn", "")).endswith("::from_diff_settings"):
                ty = (f.d.get("impl_self") or "").rsplit("::", 1)[-1]
                a = n["args"]

                def pv(x):
                    if x.get("k") == "path" and "def" in x.get("res", {}):
                        return x["res"]["def"].rsplit("::", 1)[-1]
                    return None
                found[ty] = (f, (pv(a[2]), pv(a[3]), pv(a[4])), node_line(n))
    for ty, want in DIFF_SITES.items():
        if ty not in found:
            run.anchor_missing(rule, ty, "%s has no call to from_diff_settings" % ty)
            continue
        f, got, line = found[ty]
        run.check(got == want, rule, ty, "%s: (group, default largest, default smallest) = %s" % (ty, got),
                  "%s passes %s to from_diff_settings, GetDifferenceSettings prescribes %s" % (ty, got, want),
                  "%s:%s" % (f.file, line))
    for ty in found:
        if ty not in DIFF_SITES:
            f, got, line = found[ty]
            run.bad(rule, ty, "unreviewed call site of from_diff_settings in %s with %s" % (f.path, got),
                    "%s:%s" % (f.file, line))
    return found


def check_diff_matrix(run, fx, ev):
    rs = fx["temporal_rs"]
    rule = "R1.diff-settings-matrix"
    run.rule(rule, "from_diff_settings folded over {6 call-site constant triples} x {until, since} x {largestUnit absent/"
                   "auto/10 units} x {smallestUnit absent/auto/10 units} x {increment covering set} accepts exactly the "
                   "cells GetDifferenceSettings accepts, rejects the others with a RangeError, and resolves largest/"
                   "smallest units as specified")
    f = rs.fn1("ResolvedRoundingOptions::from_diff_settings")
    if f is None:
        run.anchor_missing(rule, "from_diff_settings", "resolver not found")
        return
    cells = 0
    bad = {}
    for ty, (g, fl, fs) in DIFF_SITES.items():
        for op in ("Until", "Since"):
            for l in [None] + UNIT_NAMES:
                for s in [None] + UNIT_NAMES:
                    if ty == "PlainYearMonth" and (l in ("Week", "Day") or s in ("Week", "Day")):
                        continue    # refused before the resolver (checked separately)
                    for inc in INCS:
                        cells += 1
                        k, v = fold(ev, f, [settings("DifferenceSettings", l, s, None, inc),
                                            H.V(OPT + "DifferenceOperation::" + op, ()), H.V(OPT + "UnitGroup::" + g, ()),
                                            unit(fl), unit(fs)])
                        want = oracle_diff(g, fl, fs, l, s, inc)
                        if k == "ok" and isinstance(v, H.S):
                            got = ("ok", vname(H.sfield(v, "largest_unit")), vname(H.sfield(v, "smallest_unit")))
                        elif k == "err" and v == "Range":
                            got = ("err",)
                        else:
                            got = (k, str(v))
                        if got != want:
                            # group by (type, largest, smallest, outcome) so one defect is one finding
                            kk = "%s/largest=%s/smallest=%s" % (ty, l, s)
                            bad.setdefault(kk, []).append((op, inc, got, want))
    for kk, lst in sorted(bad.items()):
        op, inc, got, want = lst[0]
        panics = all(g[0] == "panic" for _, _, g, _ in lst)
        key = "%s/%s" % (kk, "panic" if panics else "mismatch")
        run.bad(rule, key, "from_diff_settings(%s, %s, increment=%s) gives %s, specification: %s (%d cells)" %
                (kk, op, inc, got, want, len(lst)), f.loc)
    run.ok(rule, "cells", "%d cells folded, %d disagree" % (cells, sum(len(v) for v in bad.values())), f.loc)
    run.analysed["diff_matrix_cells"] = cells
    run.exhaustive_tables.append("from_diff_settings matrix (%d cells)" % cells)


def check_round_resolvers(run, fx, ev):
    rs = fx["temporal_rs"]
    rule = "R1.round-options-matrix"
    run.rule(rule, "the round() resolvers (Duration, PlainDateTime, Instant, PlainTime) folded over {largestUnit} x "
                   "{smallestUnit} x {increment covering set} accept exactly what the specification accepts and reject "
                   "the rest with a RangeError")
    cells = 0
    bad = {}

    locs = {}

    def note(kk, got, want, extra, loc=None):
        locs.setdefault(kk, loc)
        if got != want:
            bad.setdefault(kk, []).append((extra, got, want))

    f = rs.fn1("ResolvedRoundingOptions::from_duration_options")
    if f is None:
        run.anchor_missing(rule, "from_duration_options", "resolver not found")
    else:
        for ex in ["Nanosecond", "Second", "Hour", "Day", "Month", "Year"]:
            for l in [None] + UNIT_NAMES:
                for s in [None] + UNIT_NAMES:
                    for inc in INCS:
                        cells += 1
                        k, v = fold(ev, f, [settings("RoundingOptions", l, s, None, inc), unit(ex)])
                        want = oracle_duration_round(ex, l, s, inc)
                        if k == "ok" and isinstance(v, H.S):
                            got = ("ok", vname(H.sfield(v, "largest_unit")), vname(H.sfield(v, "smallest_unit")))
                        elif k == "err" and v == "Range":
                            got = ("err",)
                        else:
                            got = (k, str(v))
                        note("Duration.round/largest=%s/smallest=%s" % (l, s), got, want, (ex, inc), f.loc)
    for name, orc, lbl in (("from_datetime_options", oracle_datetime_round, "PlainDateTime.round"),
                           ("from_instant_options", oracle_instant_round, "Instant.round")):
        f2 = rs.fn1("ResolvedRoundingOptions::" + name)
        if f2 is None:
            run.anchor_missing(rule, name, "resolver not found")
            continue
        for l in [None, "Auto", "Hour"]:
            for s in [None] + UNIT_NAMES:
                for inc in INCS:
                    cells += 1
                    k, v = fold(ev, f2, [settings("RoundingOptions", l, s, None, inc)])
                    want = orc(s, inc)
                    if k == "ok" and isinstance(v, H.S):
                        got = ("ok", vname(H.sfield(v, "smallest_unit")))
                    elif k == "err" and v == "Range":
                        got = ("err",)
                    else:
                        got = (k, str(v))
                    note("%s/smallest=%s" % (lbl, s), got, want, (l, inc), f2.loc)
    # PlainTime::round: options are resolved inline; fold the prefix up to the first use of the time kernel
    g = rs.fn1("PlainTime::round")
    if g is None:
        run.anchor_missing(rule, "PlainTime::round", "PlainTime::round not found")
    else:
        ev2 = H.Evaluator(fx)
        kernel = "temporal_rs::iso::IsoTime::round"
        ev2.inline = lambda p: p != kernel and not p.endswith("PlainTime::new_unchecked")
        for s in UNIT_NAMES:
            for inc in INCS:
                cells += 1
                try:
                    r = ev2.call_fn(g, [H.Sym("param", ("self",)), unit(s), some(float(inc)), H.NONE_V])
                    reached = any(c.parts[0] == kernel for c in ev2.trace)
                    if is_err(r) and not reached:
                        got = ("err",) if err_kind(r) == "Range" else ("err", err_kind(r))
                    elif reached:
                        got = ("ok", s)
                    else:
                        got = ("?", show(r)[:60])
                except H.Panic as p:
                    got = ("panic", p.what)
                note("PlainTime.round/smallest=%s" % s, got, oracle_time_round(s, inc), (inc,), g.loc)
    for kk, lst in sorted(bad.items()):
        extra, got, want = lst[0]
        panics = all(g2[0] == "panic" for _, g2, _ in lst)
        run.bad(rule, "%s/%s" % (kk, "panic" if panics else "mismatch"),
                "%s with %s gives %s, specification: %s (%d cells)" % (kk, extra, got, want, len(lst)), locs.get(kk))
    run.ok(rule, "cells", "%d cells folded, %d disagree" % (cells, sum(len(v) for v in bad.values())))
    run.analysed["round_matrix_cells"] = cells
    run.exhaustive_tables.append("round() resolver matrices (%d cells)" % cells)


def check_tostring(run, fx, ev):
    rs = fx["temporal_rs"]
    rule = "R1.tostring-precision"
    run.rule(rule, "ToStringRoundingOptions::resolve: for d = 0..9, increment(d) x ns(unit(d)) == 10^(9-d) and the "
                   "precision is exactly d digits; Digit(d>9) and smallestUnit outside minute..nanosecond are RangeErrors; "
                   "smallestUnit minute/second/ms/us/ns give precision minute/0/3/6/9 with increment 1")
    f = rs.fn1("ToStringRoundingOptions::resolve")
    if f is None:
        run.anchor_missing(rule, "resolve", "ToStringRoundingOptions::resolve not found")
        return
    P = "temporal_rs::parsers::Precision::"

    def o(prec, su):
        return H.S(OPT + "ToStringRoundingOptions", (("precision", prec), ("smallest_unit", opt(unit(su) if su else None)),
                                                       ("rounding_mode", H.NONE_V)))
    for d in range(0, 13):
        k, v = fold(ev, f, [o(H.V(P + "Digit", (d,)), None)])
        if d <= 9:
            okv = False
            desc = "%s %s" % (k, show(v) if k == "ok" else v)
            if k == "ok" and isinstance(v, H.S):
                su = vname(H.sfield(v, "smallest_unit"))
                inc = H.sfield(v, "increment")
                incv = inc.args[0] if isinstance(inc, H.V) and inc.args else None
                pr = H.sfield(v, "precision")
                prd = pr.args[0] if isinstance(pr, H.V) and pr.path == P + "Digit" else None
                okv = isinstance(incv, int) and su in NS and incv * NS[su] == 10 ** (9 - d) and prd == d
                desc = "unit=%s increment=%s precision=Digit(%s)" % (su, incv, prd)
            run.check(okv, rule, "digit/%d" % d, desc, "Digit(%d) resolves to %s; need increment x ns(unit) = 10^%d and "
                      "precision Digit(%d)" % (d, desc, 9 - d, d), f.loc)
        else:
            run.check(k == "err" and v == "Range", rule, "digit/%d" % d, "Digit(%d) -> RangeError" % d,
                      "Digit(%d) -> %s %s, expected RangeError" % (d, k, v), f.loc)
    k, v = fold(ev, f, [o(H.V(P + "Auto", ()), None)])
    okv = k == "ok" and vname(H.sfield(v, "precision")) == "Auto" and vname(H.sfield(v, "smallest_unit")) == "Nanosecond" \
        and H.sfield(v, "increment") == rinc(1)
    run.check(okv, rule, "auto", "auto -> nanosecond, increment 1", "Precision::Auto resolves to %s" % show(v), f.loc)
    want = {"Minute": "Minute", "Second": 0, "Millisecond": 3, "Microsecond": 6, "Nanosecond": 9}
    for su in UNIT_NAMES:
        k, v = fold(ev, f, [o(H.V(P + "Auto", ()), su)])
        if su in want:
            pr = H.sfield(v, "precision") if k == "ok" else None
            gotp = (pr.args[0] if pr.args else vname(pr)) if isinstance(pr, H.V) else None
            okv = k == "ok" and gotp == want[su] and vname(H.sfield(v, "smallest_unit")) == su \
                and H.sfield(v, "increment") == rinc(1)
            run.check(okv, rule, "unit/" + su, "%s -> precision %s" % (su, gotp),
                      "smallestUnit %s resolves to %s" % (su, show(v) if k == "ok" else (k, v)), f.loc)
        else:
            run.check(k == "err" and v == "Range", rule, "unit/" + su, "%s -> RangeError" % su,
                      "smallestUnit %s -> %s %s, expected RangeError" % (su, k, v), f.loc)
    run.exhaustive_tables.append("ToStringRoundingOptions::resolve (13 digits + auto + 11 units)")


def check_increment_type(run, fx, ev):
    rs = fx["temporal_rs"]
    rule = "R1.rounding-increment-range"
    run.rule(rule, "RoundingIncrement::try_new / TryFrom<f64> accept exactly 1..=10^9 (after truncation) and reject the "
                   "rest with a RangeError")
    f = rs.fn1("RoundingIncrement::try_new")
    g = find_trait_fn(rs, OPT + "increment::RoundingIncrement", "convert::TryFrom", "try_from")
    if f is None or g is None:
        run.anchor_missing(rule, "RoundingIncrement", "try_new / TryFrom<f64> not found")
        return
    for k0 in [0, 1, 2, 10**9 - 1, 10**9, 10**9 + 1, 2**32 - 1]:
        k, v = fold(ev, f, [k0])
        want = 1 <= k0 <= 10**9
        tri(run, rule, "try_new/%d" % k0, (k, v), (k == "ok") == want and (want or v == "Range"), "try_new(%d) -> %s" % (k0, k),
            "try_new(%d) -> %s %s" % (k0, k, str(v)[:60]), f.loc)
    # the f64 route, folded at the boundaries (truncation first, then the inclusive range)
    INC = OPT + "increment::RoundingIncrement"
    for x, want in ((0.0, None), (0.9, None), (1.0, 1), (1.9, 1), (2.5, 2), (1e9, 10**9), (1e9 + 0.5, 10**9), (1e9 + 1, None),
                    (float("inf"), None), (float("-inf"), None), (-5.0, None)):
        k, v = fold(H.Evaluator(fx), g, [x])
        ok = (k == "ok" and v == H.V(INC, (want,))) if want is not None else (k == "err" and v == "Range")
        tri(run, rule, "try_from_f64/%r" % x, (k, v), ok, "try_from(%r) -> %s" % (x, want if want is not None else "RangeError"),
            "RoundingIncrement::try_from(%r) -> %s %s, expected %s (truncate, then accept 1..=10^9)" %
            (x, k, show(v)[:60] if k != "err" else v, want if want is not None else "a RangeError"), g.loc)


def check_year_month_refusal(run, fx, ev):
    rs = fx["temporal_rs"]
    rule = "R11.year-month-week-day-refusal"
    run.rule(rule, "PlainYearMonth difference refuses week and day as largest or smallest unit with a RangeError before "
                   "the option resolver and the arithmetic run")
    f = rs.fn1("PlainYearMonth::diff")
    if f is None:
        run.anchor_missing(rule, "PlainYearMonth::diff", "internal difference operation of PlainYearMonth not found")
        return
    ev2 = H.Evaluator(fx)
    resolver = "temporal_rs::options::ResolvedRoundingOptions::from_diff_settings"
    ev2.inline = lambda p: p.startswith("temporal_rs::error::")
    sname = [p["name"] for p in f.params if "DifferenceSettings" in p["ty"]]
    if not sname:
        run.anchor_missing(rule, "settings-param", "diff has no DifferenceSettings parameter")
        return
    for l in [None] + UNIT_NAMES:
        for s in [None] + UNIT_NAMES:
            args = []
            for p in f.params:
                if p["name"] == sname[0]:
                    args.append(settings("DifferenceSettings", l, s, None, None))
                else:
                    args.append(H.Sym("param", (p["name"],)))
            # fork on the (opaque) calendar comparison: take the path where calendars are equal
            refused = None
            for dec, res, tr in ev2.paths(f, args, max_paths=64):
                if any(c.parts[0] == resolver for c in tr):
                    refused = False if refused is None else refused
                elif isinstance(res, H.V) and is_err(res) and err_kind(res) == "Range" and \
                        any("identifier" in c for c, ch in dec) and all(ch is False for c, ch in dec if "identifier" in c):
                    refused = True
            want = l in ("Week", "Day") or s in ("Week", "Day")
            run.check(refused == want, rule, "largest=%s/smallest=%s" % (l, s),
                      "refused before resolver: %s" % refused,
                      "largest=%s smallest=%s: refused before the resolver = %s, expected %s" % (l, s, refused, want),
                      f.loc)
    run.exhaustive_tables.append("PlainYearMonth week/day refusal (12 x 12)")


def run_checks(run, fx):
    ev = H.Evaluator(fx)
    check_unit_tables(run, fx, ev)
    check_validate_unit(run, fx, ev)
    check_diff_sites(run, fx, ev)
    check_diff_matrix(run, fx, ev)
    check_round_resolvers(run, fx, ev)
    check_tostring(run, fx, ev)
    check_increment_type(run, fx, ev)
    check_year_month_refusal(run, fx, ev)
    run.analysed["functions_folded"] = sorted(ev.calls_folded)


EXPLANATION = (
    "Static table extraction (R1) by constant folding of the loop-free option resolvers on the type-checked HIR "
    "exported from /repo's current tree: Unit tables and their cross-laws, UnitGroup::validate_unit, the constant "
    "arguments of the six from_diff_settings call sites, and the complete accept/reject/resolve matrices of "
    "from_diff_settings, from_duration_options, from_datetime_options, from_instant_options, PlainTime::round's inline "
    "validation and ToStringRoundingOptions::resolve, compared cell by cell with the specification's option algorithms "
    "(transcribed in tlint/props/c10.py). The folder interprets the exported syntax tree over finite enum domains and a "
    "covering set of increments; the repository's compiled code is never executed. Not decided: that every public "
    "operation actually calls its resolver before computing (see R11 in DESIGN), and the composition with the "
    "arithmetic that follows."
)


def main(tier):
    run = Run("C10", tier)
    fx = Facts("full")
    run.tree_hash = fx.hash
    run.configs.append({"config": "full", "crates": fx.summary()})
    run_checks(run, fx)
    run.assumptions += ["the option algorithms transcribed in tlint/props/c10.py (GetDifferenceSettings, Duration/"
                        "PlainDateTime/Instant/PlainTime round option steps, ToFractionalSecondDigits) restricted to the "
                        "three criteria the property names (unit group, largest>=smallest, increment within and dividing "
                        "the unit maximum)", "increments are sampled from a covering set (divisors, non-divisors, maxima, "
                        "maxima+-1, 1e9), not all 1e9 values"]
    # R11: the options are resolved (validated) on every path that returns a value
    rule = "R11.options-validated-before-success"
    run.rule(rule, "every success path of an operation that takes rounding / difference / to-string options passes through "
                   "the option resolver (ResolvedRoundingOptions::from_* / ToStringRoundingOptions::resolve): no fast path "
                   "returns a value for option combinations that are RangeErrors")
    CORE = "temporal_rs::builtins::core::"
    table = [("duration::Duration::round_with_provider", ["from_duration_options"]),
             ("duration::Duration::as_temporal_string", ["ToStringRoundingOptions::resolve"]),
             ("date::PlainDate::diff_date", ["from_diff_settings"]),
             ("datetime::PlainDateTime::diff", ["from_diff_settings"]),
             ("datetime::PlainDateTime::round", ["from_datetime_options"]),
             ("datetime::PlainDateTime::to_ixdtf_string", ["ToStringRoundingOptions::resolve"]),
             ("instant::Instant::diff_instant", ["from_diff_settings"]),
             ("instant::Instant::round", ["from_instant_options"]),
             ("instant::Instant::to_ixdtf_string_with_provider", ["ToStringRoundingOptions::resolve"]),
             ("time::PlainTime::diff_time", ["from_diff_settings"]),
             ("time::PlainTime::to_ixdtf_string", ["ToStringRoundingOptions::resolve"]),
             ("year_month::PlainYearMonth::diff", ["from_diff_settings"]),
             ("zoneddatetime::ZonedDateTime::diff_internal_with_provider", ["from_diff_settings"]),
             ("zoneddatetime::ZonedDateTime::to_ixdtf_string_with_provider", ["ToStringRoundingOptions::resolve"])]
    for suffix, parts in table:
        check_must_call_on_success(run, fx, fx["temporal_rs"].fn(CORE + suffix), parts, rule, suffix,
                                   "the option combination is never validated on that path")
    return run.finish(EXPLANATION)
