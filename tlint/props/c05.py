"""C05 — PlainDateTime arithmetic, difference and rounding (wiring, limit checks, unit hygiene)."""
from ._std import *
from ..rules import wiring, units
from ..rules.common import hir_walk, node_line, OPT, unit, vname, UNIT_NAMES, fold, tri, same_product

EXPLANATION = (
    "Static wiring (R2), dominance (R11), error-kind (R7b), table (R1) and unit (R4/R5) rules on the type-checked HIR "
    "exported from /repo's current tree: PlainDateTime subtract is add of the negated duration through the same kernel; "
    "until/since share a kernel and differ by the operation constant and one final negation; the time difference is "
    "other - self for each of the six fields and the date sign compares other with self; the result of AddDateTime is "
    "limit-checked before it is returned and an out-of-limit result is a RangeError; RoundISODateTime returns through the "
    "validating constructor; IsoTime::round places the rounded quantity in BalanceTime's slot of the rounded unit with "
    "the larger fields kept and the smaller zeroed, and builds the quantity with the right conversion constants; "
    "BalanceTime carries with 1000/1000/1000/60/60/24. NOT decided: day-borrow and carry values, rounding results."
)


def check_add_limit(run, fx, rs):
    rule = "R11.add-datetime-limit"
    run.rule(rule, "the result of AddDateTime is checked against the ISO date-time limits on every success path and a "
                   "result outside the limits is a RangeError (not an internal-assertion error)")
    f = rs.fn(wiring.CORE + "datetime::PlainDateTime::add_or_subtract_duration")
    if f is None:
        run.anchor_missing(rule, "add_or_subtract_duration", "kernel not found")
        return
    ev = H.Evaluator(fx)
    ev.inline = lambda p: p.startswith("temporal_rs::error::")
    oks = 0
    unchecked = 0
    kinds = set()
    for dec, res, tr in ev.paths(f, [H.Sym("param", (p["name"],)) for p in f.params]):
        lim = [ch for c, ch in dec if "is_within_limits" in c or "iso_dt_within_valid_limits" in c]
        via_ctor = any(str(c.parts[0]).endswith(("PlainDateTime::new", "IsoDateTime::new", "PlainDateTime::try_new"))
                       for c in tr)
        if isinstance(res, H.V) and res.path == H.OK:
            oks += 1
            if not lim and not via_ctor:
                unchecked += 1
        elif is_err(res) and lim:
            kinds.add(err_kind(res))
    run.check(oks > 0 and unchecked == 0, rule, "checked", "%d success path(s), all limit-checked" % oks,
              "AddDateTime returns a date-time that was not checked against the limits on %d of %d success paths" %
              (unchecked, oks), f.loc)
    run.check(kinds <= {"Range"} , rule, "error-kind", "out-of-limit result -> %s" % (sorted(kinds) or "validating ctor"),
              "an out-of-limit result of AddDateTime is reported as %s error; it must be a RangeError" % sorted(kinds),
              f.loc)


def check_round_slots(run, fx, rs):
    rule = "R1.round-time-slots"
    run.rule(rule, "IsoTime::round has a case for exactly day..nanosecond; for unit U the rounded quantity, divided by the unit "
                   "length, goes into BalanceTime's slot U, larger fields are passed through, smaller ones are zero; other units "
                   "are RangeErrors. Decided by folding the function on one time record with the rounding kernel replaced by "
                   "the identity (what comes out must be the record truncated to the unit)")
    f = rs.fn("temporal_rs::iso::IsoTime::round")
    if f is None:
        run.anchor_missing(rule, "IsoTime::round", "IsoTime::round not found")
        return
    slots = ["hour", "minute", "second", "millisecond", "microsecond", "nanosecond"]
    vals = (13, 24, 35, 46, 57, 68)
    me = H.S("temporal_rs::iso::IsoTime", tuple(zip(slots, vals)))
    for u in UNIT_NAMES:
        ev = H.Evaluator(fx)
        # the kernel is an identity here: from_signed_num(q, inc) -> q, round(mode) -> q
        ev.stubs["from_signed_num"] = lambda a: H.V(H.OK, (a[0],))
        ev.stubs["rounding::Round::round"] = lambda a: a[0]
        opts = H.S(OPT + "ResolvedRoundingOptions", (("largest_unit", unit("Auto")), ("smallest_unit", unit(u)),
                                                       ("increment", H.V(OPT + "increment::RoundingIncrement", (1,))),
                                                       ("rounding_mode", H.V(OPT + "RoundingMode::Trunc", ()))))
        got = fold(ev, f, [me, opts])
        unitname = u.lower()
        if unitname in slots or u == "Day":
            i = slots.index(unitname) if unitname in slots else -1
            want_time = H.S("temporal_rs::iso::IsoTime", tuple((n, vals[j] if j <= i else 0) for j, n in enumerate(slots)))
            ok = got[0] == "ok" and same_product(got[1], H.T((0, want_time)))
            tri(run, rule, u, got, ok, "rounding to %s keeps the larger fields, puts the rounded value in its slot, zeroes the rest" % u,
                "rounding 13:24:35.046057068 to %s with an identity kernel gives %s; expected (0 days, %s)" %
                (u, show(got[1])[:140] if got[0] != "err" else got, show(want_time)[:140]), f.loc)
        else:
            tri(run, rule, u, got, got == ("err", "Range"), "%s -> RangeError" % u,
                "IsoTime::round with unit %s gives %s %s, expected a RangeError" % (u, got[0], show(got[1])[:80] if got[0] != "err" else got[1]),
                f.loc)
    run.exhaustive_tables.append("IsoTime::round cases (11 units)")


def check_round_quantity(run, fx, rs):
    """RoundTime steps 1-6: the quantity handed to the rounding kernel is the time below the unit, in nanoseconds"""
    rule = "R5.round-time-quantity-weights"
    run.rule(rule, "IsoTime::round, for each smallest unit: the quantity handed to the rounding kernel weighs every time field at "
                   "or below the unit with its length in nanoseconds (3.6e12, 6e10, 1e9, 1e6, 1e3, 1) and ignores the fields "
                   "above it; decided by folding the function on the six unit vectors of the time record and on midnight "
                   "(a linear form is fixed by its values on a basis)")
    f = rs.fn("temporal_rs::iso::IsoTime::round")
    if f is None:
        run.anchor_missing(rule, "IsoTime::round", "not found")
        return
    slots = ["hour", "minute", "second", "millisecond", "microsecond", "nanosecond"]
    weights = [3_600_000_000_000, 60_000_000_000, 1_000_000_000, 1_000_000, 1_000, 1]
    first = {"Day": 0, "Hour": 0, "Minute": 1, "Second": 2, "Millisecond": 3, "Microsecond": 4, "Nanosecond": 5}
    decided = 0
    for u, lo in first.items():
        for j in range(-1, 6):
            ev = H.Evaluator(fx)
            ev.inline = lambda p: p.startswith("temporal_rs::") and not p.startswith("temporal_rs::rounding::") \
                and not p.endswith("IsoTime::balance")
            me = H.S("temporal_rs::iso::IsoTime", tuple((n, 1 if k == j else 0) for k, n in enumerate(slots)))
            opts = H.S(OPT + "ResolvedRoundingOptions", (("largest_unit", unit("Auto")), ("smallest_unit", unit(u)),
                                                           ("increment", H.V(OPT + "increment::RoundingIncrement", (1,))),
                                                           ("rounding_mode", H.V(OPT + "RoundingMode::Trunc", ()))))
            name = "%s/%s" % (u, slots[j] if j >= 0 else "midnight")
            try:
                ev.call_fn(f, [me, opts])
            except (H.Panic, H.Budget):
                run.ok(rule, name, "not foldable: not decided", f.loc, nontrivial=False)
                continue
            q = [c.parts[1][0] for c in ev.trace if str(c.parts[0]).startswith("temporal_rs::rounding::") and c.parts[1]]
            if not q or not isinstance(q[0], int) or isinstance(q[0], bool):
                run.ok(rule, name, "the quantity is not a folded integer: not decided", f.loc, nontrivial=False)
                continue
            decided += 1
            want = 0 if (j < 0 or j < lo) else weights[j]
            run.check(q[0] == want, rule, name, "quantity = %d" % want,
                      "rounding to %s: a time record with %s gives the quantity %d, expected %d ns: the field is %s" %
                      (u, ("only `%s` = 1" % slots[j]) if j >= 0 else "all fields 0", q[0], want,
                       "ignored" if q[0] == 0 else "weighted wrongly"), f.loc)
    if decided == 0:
        run.ok(rule, "quantity", "the quantity handed to the rounding kernel does not fold to a constant: not decided", f.loc,
               nontrivial=False)
    elif decided < 40:
        run.anchor_missing(rule, "quantity", "only %d of 49 quantity cells could be folded (the rounding kernel call was not found "
                                             "or its argument is not constant)" % decided, f.loc)
    run.exhaustive_tables.append("RoundTime quantity (7 units x 7 basis records)")


def main(tier):
    run, fx = start("C05", tier)
    rs = fx["temporal_rs"]
    T = "datetime::PlainDateTime"
    wiring.check_add_subtract(run, fx, rs, T, "add", "subtract")
    kernel = wiring.check_until_since(run, fx, rs, T, "until", "since")
    wiring.check_diff_kernel(run, fx, kernel)
    wiring.check_direction(run, fx, rs.fn("temporal_rs::iso::IsoTime::diff"), "other", "self", "IsoTime::diff")
    # IsoDateTime::diff: date_sign = other.date.cmp(&self.date)
    rule = "R2.diff-sign"
    run.rule(rule, "DifferenceISODateTime compares the other date with the receiver's date for the date sign")
    f = rs.fn("temporal_rs::iso::IsoDateTime::diff")
    if f is None:
        run.anchor_missing(rule, "IsoDateTime::diff", "not found")
    else:
        ok = False
        desc = "no date_sign binding"
        for n in hir_walk(f.hir):
            if isinstance(n, dict) and n.get("k") == "let" and n["pat"].get("k") == "bind" and n["pat"]["name"] == "date_sign":
                cmps = [x for x in hir_walk(n["init"]) if isinstance(x, dict) and x.get("k") == "mcall" and x["name"] == "cmp"]
                if len(cmps) == 1:
                    rl = [x["res"].get("local") for x in hir_walk(cmps[0]["recv"]) if isinstance(x, dict) and x.get("k") == "path"]
                    al = [x["res"].get("local") for x in hir_walk(cmps[0]["args"][0]) if isinstance(x, dict) and x.get("k") == "path"]
                    neg = n["init"].get("k") == "un" and n["init"]["op"] == "-"
                    ok = (rl == ["other"] and al == ["self"] and not neg) or (rl == ["self"] and al == ["other"] and neg)
                    desc = "date_sign = %s%s.cmp(%s)" % ("-" if neg else "", rl, al)
        run.check(ok, rule, "IsoDateTime::diff", desc, "DifferenceISODateTime: %s; expected other.cmp(self)" % desc, f.loc)
    check_add_limit(run, fx, rs)
    # RoundISODateTime returns through the validating constructor
    rule = "R11.validated-result"
    run.rule(rule, "RoundISODateTime returns through the limit-validating constructor IsoDateTime::new")
    g = rs.fn("temporal_rs::iso::IsoDateTime::round")
    if g is None:
        run.anchor_missing(rule, "IsoDateTime::round", "not found")
    else:
        leaves = [l for l in result_leaves(fx, g) if l[0] in ("call", "value")]
        bad = [l[1] for l in leaves if not (l[0] == "call" and l[1].endswith("IsoDateTime::new"))]
        run.check(leaves and not bad, rule, "IsoDateTime::round", "returns IsoDateTime::new(..)",
                  "RoundISODateTime returns %s without the limit check" % bad, g.loc)
    check_round_slots(run, fx, rs)
    check_round_quantity(run, fx, rs)
    units.report(run, fx, "C05")
    return run.finish(EXPLANATION)
