"""C07 — rounding picks the neighbouring multiple prescribed by the rounding mode (structural clauses)."""
from ..core import Run
from ..facts import Facts
from .. import hireval as H
from ..terms import show, walk
from ..rules.common import *
from ..rules import midpoint

MODES = ["Ceil", "Floor", "Expand", "Trunc", "HalfCeil", "HalfFloor", "HalfExpand", "HalfTrunc", "HalfEven"]
# ECMA-402/Temporal GetUnsignedRoundingMode (Table: rounding mode x sign)
SPEC_UNSIGNED = {
    ("Ceil", True): "Infinity", ("Ceil", False): "Zero",
    ("Floor", True): "Zero", ("Floor", False): "Infinity",
    ("Expand", True): "Infinity", ("Expand", False): "Infinity",
    ("Trunc", True): "Zero", ("Trunc", False): "Zero",
    ("HalfCeil", True): "HalfInfinity", ("HalfCeil", False): "HalfZero",
    ("HalfFloor", True): "HalfZero", ("HalfFloor", False): "HalfInfinity",
    ("HalfExpand", True): "HalfInfinity", ("HalfExpand", False): "HalfInfinity",
    ("HalfTrunc", True): "HalfZero", ("HalfTrunc", False): "HalfZero",
    ("HalfEven", True): "HalfEven", ("HalfEven", False): "HalfEven",
}
SPEC_NEGATE = {"Ceil": "Floor", "Floor": "Ceil", "HalfCeil": "HalfFloor", "HalfFloor": "HalfCeil", "Expand": "Expand",
               "Trunc": "Trunc", "HalfExpand": "HalfExpand", "HalfTrunc": "HalfTrunc", "HalfEven": "HalfEven"}


def spec_apply(mode, exact, cmp, even):
    """ApplyUnsignedRoundingMode: returns 'r1' or 'r2'"""
    if exact:
        return "r1"
    if mode == "Zero":
        return "r1"
    if mode == "Infinity":
        return "r2"
    if cmp == "Less":
        return "r1"
    if cmp == "Greater":
        return "r2"
    if mode == "HalfZero":
        return "r1"
    if mode == "HalfInfinity":
        return "r2"
    return "r1" if even else "r2"


def check_mode_tables(run, fx, ev):
    rs = fx["temporal_rs"]
    neg = rs.fn(RMODE + "::negate")
    uns = rs.fn(RMODE + "::get_unsigned_round_mode")
    modes = ev.enum_values(RMODE)
    if not neg or not uns or not modes:
        run.anchor_missing("R1.rounding-mode-tables", "RoundingMode", "RoundingMode::negate / get_unsigned_round_mode "
                           "/ enum RoundingMode not found")
        return
    names = [vname(m) for m in modes]
    run.rule("R1.negate", "RoundingMode::negate equals NegateRoundingMode for every mode and is an involution")
    run.rule("R1.unsigned-mode", "get_unsigned_round_mode(mode, sign) equals GetUnsignedRoundingMode for all 18 cells")
    run.rule("R1.negate-crosslaw", "unsigned(negate(m), s) == unsigned(m, not s) for all 18 cells (self-consistency, "
                                   "no oracle)")
    if sorted(names) != sorted(MODES):
        run.bad("R1.unsigned-mode", "variants", "RoundingMode variants are %s, the specification has %s" %
                (names, MODES), uns.loc)
    ntab = {}
    for m in modes:
        kind, v = fold(ev, neg, [m])
        ntab[vname(m)] = vname(v) if kind == "val" else "<%s>" % kind
    for m in names:
        run.check(ntab.get(m) == SPEC_NEGATE.get(m), "R1.negate", m, "negate(%s) = %s" % (m, ntab.get(m)),
                  "negate(%s) = %s, NegateRoundingMode gives %s" % (m, ntab.get(m), SPEC_NEGATE.get(m)), neg.loc)
        run.check(ntab.get(ntab.get(m)) == m, "R1.negate", m + "/involution", "negate(negate(%s)) = %s" % (m, m),
                  "negate is not an involution at %s" % m, neg.loc)
    utab = {}
    for m in modes:
        for s in (True, False):
            kind, v = fold(ev, uns, [m, s])
            utab[(vname(m), s)] = vname(v) if kind == "val" else "<%s>" % kind
    for (m, s), got in utab.items():
        run.check(got == SPEC_UNSIGNED.get((m, s)), "R1.unsigned-mode", "%s/%s" % (m, "pos" if s else "neg"),
                  "unsigned(%s, %s) = %s" % (m, s, got),
                  "unsigned(%s, positive=%s) = %s, GetUnsignedRoundingMode gives %s" % (m, s, got,
                                                                                       SPEC_UNSIGNED.get((m, s))),
                  uns.loc)
    for m in names:
        for s in (True, False):
            a = utab.get((ntab.get(m), s))
            b = utab.get((m, not s))
            run.check(a == b, "R1.negate-crosslaw", "%s/%s" % (m, "pos" if s else "neg"),
                      "unsigned(negate(%s), %s) = unsigned(%s, %s) = %s" % (m, s, m, not s, a),
                      "unsigned(negate(%s), %s) = %s but unsigned(%s, %s) = %s" % (m, s, a, m, not s, b), neg.loc)
    run.exhaustive_tables += ["negate (9)", "get_unsigned_round_mode (9x2)", "negate cross-law (9x2)"]


def leaf_of(res):
    if isinstance(res, H.Sym) and res.what == "call":
        n = res.parts[0].rsplit("::", 1)[-1]
        return {"result_floor": "r1", "result_ceil": "r2"}.get(n, n)
    if isinstance(res, H.Panic):
        return "panic"
    return show(res)


def check_apply(run, fx, ev):
    rs = fx["temporal_rs"]
    rule = "R12.apply-unsigned"
    run.rule(rule, "decision table of apply_unsigned_rounding_mode over the opaque atoms is_exact / compare_remainder / "
                   "is_even_cardinal equals ApplyUnsignedRoundingMode (exact->r1; zero->r1; infinity->r2; <->r1; >->r2; "
                   "tie: half-zero->r1, half-infinity->r2, half-even->r1 iff even cardinal)")
    f = rs.fn1("rounding::apply_unsigned_rounding_mode")
    if f is None:
        # fall back: any fn taking an UnsignedRoundingMode and returning an integer
        cands = [g for g in rs.fns if any(p["ty"] == URMODE for p in g.params) and g.ret in ("u128", "i128", "u64")]
        f = cands[0] if len(cands) == 1 else None
    umodes = ev.enum_values(URMODE)
    if f is None or not umodes:
        run.anchor_missing(rule, "apply_unsigned_rounding_mode", "decision procedure taking UnsignedRoundingMode not found")
        return
    ev2 = H.Evaluator(fx)
    ev2.inline = lambda p: False
    midx = [i for i, p in enumerate(f.params) if p["ty"] == URMODE]
    if len(midx) != 1:
        run.anchor_missing(rule, "mode-param", "apply function has no unique UnsignedRoundingMode parameter")
        return
    for um in umodes:
        args = [H.Sym("param", (p["name"],)) for p in f.params]
        args[midx[0]] = um
        try:
            paths = ev2.paths(f, args)
        except H.Budget:
            run.bad(rule, vname(um), "anchor-changed: apply_unsigned_rounding_mode is no longer a small loop-free "
                                     "decision procedure", f.loc)
            continue
        # turn paths into a function of the atoms
        for exact in (True, False):
            for cmp in ("Less", "Greater", "Equal"):
                for even in (True, False):
                    want = spec_apply(vname(um), exact, cmp, even)
                    got = None
                    foreign = None
                    for dec, res, _ in paths:
                        okp = True
                        for cond, choice in dec:
                            if cond.startswith("debug_assertion["):
                                okp &= (choice is False)        # the path on which the debug assertion holds
                                continue
                            if "is_exact" in cond:
                                okp &= (choice == exact)
                            elif "compare_remainder" in cond:
                                # the ordering may be decided in one step (`match cmp { Some(Less) => .. }`) or in two
                                # (`let Some(o) = cmp else {..}; match o { Less => .. }`)
                                if choice in ("Some(%s)" % cmp, cmp, "Ordering::" + cmp):
                                    pass
                                elif choice is True and (cond.startswith("let-else") or "is_some" in cond):
                                    pass
                                elif choice is False and "is_none" in cond:
                                    pass
                                elif choice in (True, False, "None") or str(choice).replace("Some(", "").rstrip(")").replace("Ordering::", "") in ("Less", "Greater", "Equal"):
                                    okp = False
                                else:
                                    okp = False
                                    foreign = cond
                            elif "is_even_cardinal" in cond:
                                okp &= (choice == even)
                            else:
                                okp = False
                                foreign = cond
                        if okp:
                            got = leaf_of(res)
                            break
                    key = "%s/exact=%s/cmp=%s/even=%s" % (vname(um), exact, cmp, even)
                    if got is None and foreign is not None:
                        # the procedure decides on something that is none of the three atoms this table knows by name (renamed
                        # trait methods, a restructured test): the table is not decided; the end-to-end value rule
                        # R12.round-number-to-increment does not depend on names
                        run.ok(rule, key, "decides on `%s`, not one of is_exact / compare_remainder / is_even_cardinal: not decided"
                               % foreign[:60], f.loc, nontrivial=False)
                        continue
                    run.check(got == want, rule, key, "-> %s" % got,
                              "apply(%s) with exact=%s cmp=%s even=%s returns %s, specification returns %s" %
                              (vname(um), exact, cmp, even, got, want), f.loc)
    run.exhaustive_tables.append("apply_unsigned_rounding_mode (5 modes x 12 atom valuations)")


def _spec_round(x, d, mode):
    """RoundNumberToIncrement(x, d, mode) in exact arithmetic (x, d Fractions or ints)"""
    from fractions import Fraction
    x, d = Fraction(x), Fraction(d)
    neg = x < 0
    q = abs(x) / d
    r1 = q.numerator // q.denominator
    frac = q - r1
    pos = {"Ceil": "inf", "Floor": "zero", "Expand": "inf", "Trunc": "zero", "HalfCeil": "half-inf", "HalfFloor": "half-zero",
           "HalfExpand": "half-inf", "HalfTrunc": "half-zero", "HalfEven": "half-even"}
    negm = dict(pos, Ceil="zero", Floor="inf", HalfCeil="half-zero", HalfFloor="half-inf")
    um = (negm if neg else pos)[mode]
    if frac == 0:
        r = r1
    elif um == "zero":
        r = r1
    elif um == "inf":
        r = r1 + 1
    elif frac * 2 < 1:
        r = r1
    elif frac * 2 > 1:
        r = r1 + 1
    elif um == "half-zero":
        r = r1
    elif um == "half-inf":
        r = r1 + 1
    else:
        r = r1 if r1 % 2 == 0 else r1 + 1
    out = (-r if neg else r) * d
    return out


def check_rounder(run, fx, ev):
    rs = fx["temporal_rs"]
    rule = "R12.round-number-to-increment"
    run.rule(rule, "IncrementRounder::from_signed_num(x, increment)?.round(mode) equals RoundNumberToIncrement(x, increment, mode): "
                   "folded end to end (sign handling, unsigned mode selection, the decision procedure, the Roundable arithmetic, "
                   "the final multiplication) for both instantiations, every rounding mode, both signs and every residue and "
                   "quotient parity of an even, an odd and the unit increment - the finite case structure of the algorithm")
    rnd = find_trait_fn(rs, "temporal_rs::rounding::IncrementRounder<T>", "rounding::Round", "round")
    mk = rs.fn1("IncrementRounder::<T>::from_signed_num")
    if rnd is None or mk is None:
        run.anchor_missing(rule, "IncrementRounder", "IncrementRounder::round / from_signed_num not found")
        return
    from fractions import Fraction
    modes = [vname(m) for m in (ev.enum_values(RMODE) or [])]
    if len(modes) != 9:
        run.anchor_missing(rule, "modes", "expected the 9 rounding modes, found %s" % modes)
        return
    cells = 0
    for tyname, conv, grid in (("i128", int, [(a, d) for d in (10, 3, 1) for a in range(0, 3 * d + 1)]),
                               ("f64", float, [(Fraction(k, 2) * d, d) for d in (1, 10) for k in range(0, 9)])):
        for mode in modes:
            bad, und = [], 0
            for a, d in grid:
                for sgn in ((1, -1) if a else (1,)):
                    x = sgn * a
                    r = fold(H.Evaluator(fx), mk, [conv(x), d])
                    if r[0] != "ok":
                        und += 1
                        continue
                    got = fold(H.Evaluator(fx), rnd, [r[1], H.V(RMODE + "::" + mode, ())])
                    if got[0] != "val" or not isinstance(got[1], (int, float)) or isinstance(got[1], bool):
                        und += 1
                        continue
                    cells += 1
                    want = _spec_round(x, d, mode)
                    if Fraction(got[1]) != want:
                        bad.append("round(%s, %s, %s) = %s, RoundNumberToIncrement gives %s" % (x, d, mode, got[1], want))
            key = "%s/%s" % (tyname, mode)
            if und and not bad:
                run.ok(rule, key, "%d cell(s) do not fold: not decided" % und, rnd.loc, nontrivial=False)
            else:
                run.check(not bad, rule, key, "%s: every residue / parity / sign cell equals the specification" % mode,
                          "IncrementRounder<%s>: %s" % (tyname, "; ".join(bad[:4])), rnd.loc)
    run.analysed["round_number_to_increment_cells"] = cells
    run.exhaustive_tables.append("RoundNumberToIncrement (9 modes x residues x quotient parity x sign, i128 and f64)")


def check_defaults(run, fx, ev):
    rs = fx["temporal_rs"]
    rule = "R1.rounding-mode-defaults"
    run.rule(rule, "differences default to trunc and negate the mode exactly for `since`; round() defaults to "
                   "halfExpand; toString defaults to trunc")
    f = rs.fn1("ResolvedRoundingOptions::from_diff_settings")
    if f is None:
        run.anchor_missing(rule, "from_diff_settings", "ResolvedRoundingOptions::from_diff_settings not found")
        return
    modes = [None] + ev.enum_values(RMODE)

    def ds(m):
        return H.S(OPT + "DifferenceSettings", (("largest_unit", H.NONE_V), ("smallest_unit", H.NONE_V),
                                                  ("rounding_mode", opt(m)), ("increment", H.NONE_V)))
    for op in ("Until", "Since"):
        for m in modes:
            kind, v = fold(ev, f, [ds(m), H.V(OPT + "DifferenceOperation::" + op, ()), H.V(OPT + "UnitGroup::Time", ()),
                                   unit("Hour"), unit("Nanosecond")])
            got = vname(H.sfield(v, "rounding_mode")) if kind == "ok" and isinstance(v, H.S) else "<%s>" % kind
            base = vname(m) if m is not None else "Trunc"
            want = SPEC_NEGATE[base] if op == "Since" else base
            run.check(got == want, rule, "diff/%s/%s" % (op, vname(m) if m else "absent"),
                      "%s with mode %s resolves to %s" % (op, vname(m) if m else "absent", got),
                      "%s with mode %s resolves to %s, specification: %s" % (op, vname(m) if m else "absent", got, want),
                      f.loc)
    # round() resolvers
    for name in ("from_duration_options", "from_datetime_options", "from_instant_options"):
        g = rs.fn1("ResolvedRoundingOptions::" + name)
        if g is None:
            run.anchor_missing(rule, name, "resolver %s not found" % name)
            continue
        ro = H.S(OPT + "RoundingOptions", (("largest_unit", H.NONE_V), ("smallest_unit", some(unit("Second"))),
                                             ("rounding_mode", H.NONE_V), ("increment", H.NONE_V)))
        args = [ro] + ([unit("Hour")] if name == "from_duration_options" else [])
        kind, v = fold(ev, g, args)
        got = vname(H.sfield(v, "rounding_mode")) if kind == "ok" and isinstance(v, H.S) else "<%s>" % kind
        run.check(got == "HalfExpand", rule, "round/" + name, "%s defaults to %s" % (name, got),
                  "%s defaults the rounding mode to %s, specification: halfExpand" % (name, got), g.loc)
    g = rs.fn1("PlainTime::round")
    if g is not None:
        ev2 = H.Evaluator(fx)
        ev2.inline = lambda p: False
        ev2.call_fn(g, [H.Sym("param", ("self",)), unit("Second"), H.NONE_V, H.NONE_V])
        recs = []
        for c in ev2.trace:
            for x in walk(c):
                if isinstance(x, H.S) and x.path.endswith("ResolvedRoundingOptions"):
                    recs.append(x)
        got = vname(H.sfield(recs[0], "rounding_mode")) if recs else None
        run.check(got == "HalfExpand", rule, "round/PlainTime::round", "PlainTime::round defaults to %s" % got,
                  "PlainTime::round defaults the rounding mode to %s, specification: halfExpand" % got, g.loc)
    else:
        run.anchor_missing(rule, "PlainTime::round", "PlainTime::round not found")
    g = rs.fn1("ToStringRoundingOptions::resolve")
    if g is not None:
        o = H.S(OPT + "ToStringRoundingOptions", (("precision", H.V("temporal_rs::parsers::Precision::Auto", ())),
                                                    ("smallest_unit", H.NONE_V), ("rounding_mode", H.NONE_V)))
        kind, v = fold(ev, g, [o])
        got = vname(H.sfield(v, "rounding_mode")) if kind == "ok" and isinstance(v, H.S) else "<%s>" % kind
        run.check(got == "Trunc", rule, "toString", "toString defaults to %s" % got,
                  "toString defaults the rounding mode to %s, specification: trunc" % got, g.loc)
    else:
        run.anchor_missing(rule, "resolve", "ToStringRoundingOptions::resolve not found")


def run_checks(run, fx):
    ev = H.Evaluator(fx)
    check_mode_tables(run, fx, ev)
    check_apply(run, fx, ev)
    check_rounder(run, fx, ev)
    check_defaults(run, fx, ev)
    midpoint.check(run, fx, ["temporal_rs"])
    run.analysed["functions_folded"] = len(ev.calls_folded)


EXPLANATION = (
    "Static table and decision extraction (R1/R12/R2) on the type-checked HIR exported from /repo's current tree. "
    "RoundingMode::negate and get_unsigned_round_mode are folded over all 9 modes x 2 signs and compared with the "
    "specification tables and with each other (cross-law); apply_unsigned_rounding_mode's CFG paths are enumerated "
    "with its three predicates kept opaque and the resulting decision table is compared with ApplyUnsignedRoundingMode "
    "for all 5 unsigned modes x 12 atom valuations; IncrementRounder's sign wiring and the default rounding modes of "
    "every resolver are read off the normalised bodies; a crate-wide syntactic rule forbids comparing a remainder with "
    "an integer-halved divisor (lossy midpoint). Decides the mode/selection logic for all values; does NOT decide the "
    "arithmetic of the i128/f64 Roundable instantiations beyond the midpoint rule (numerical adjacency is declined)."
)


def check_roundable_atoms(run, fx):
    """the atoms of the decision table (R12.apply-unsigned) mean what their names say"""
    rule = "R1.roundable-atoms"
    run.rule(rule, "for every Roundable implementation: is_exact, compare_remainder, is_even_cardinal, result_floor and result_ceil, "
                   "folded over every residue and both quotient parities of an even (10), an odd (3, 7) and the unit increment and "
                   "both signs, equal their definitions in exact arithmetic (r = |x| mod d: exact iff r = 0; the comparison is "
                   "that of 2r with d; the cardinal is floor(|x| / d); floor / ceil are that and that + 1)")
    rs = fx["temporal_rs"]
    impls = sorted({f.path.split(" as ")[0][1:] for f in rs.fns if " as temporal_rs::rounding::Roundable>::result_floor" in f.path})
    if len(impls) < 2:
        run.anchor_missing(rule, "impls", "expected the i128 and f64 Roundable implementations, found %s" % impls)
    ORD = "core::cmp::Ordering::"
    for ty in impls:
        conv = float if ty in ("f64", "f32") else int
        fns = {m: rs.fn("<%s as temporal_rs::rounding::Roundable>::%s" % (ty, m))
               for m in ("is_exact", "compare_remainder", "is_even_cardinal", "result_floor", "result_ceil")}
        if any(v is None for v in fns.values()):
            run.anchor_missing(rule, ty, "Roundable methods of %s not found" % ty)
            continue
        bad = {m: [] for m in fns}
        und = {m: 0 for m in fns}
        cells = 0
        for d in (10, 3, 7, 1):
            for a in range(0, 4 * d + 1):
                for sgn in ((1, -1) if a else (1,)):
                    x = sgn * a
                    r, q = a % d, a // d
                    want = {"is_exact": r == 0,
                            "compare_remainder": H.V(H.SOME, (H.V(ORD + ("Less" if 2 * r < d else "Greater" if 2 * r > d else "Equal"), ()),)),
                            "is_even_cardinal": q % 2 == 0, "result_floor": q, "result_ceil": q + 1}
                    for m, f in fns.items():
                        if r == 0 and m in ("compare_remainder", "is_even_cardinal", "result_ceil"):
                            continue        # never consulted for an exact value (step 1 of ApplyUnsignedRoundingMode)
                        cells += 1
                        got = fold(H.Evaluator(fx), f, [conv(x), conv(d)])
                        if got[0] == "opaque" or got[0] == "panic":
                            und[m] += 1
                        elif not (got[0] == "val" and got[1] == want[m]):
                            bad[m].append("%s(%d, %d) = %s, expected %s" % (m, x, d, show(got[1])[:40], show(want[m])[:40]))
        for m in fns:
            key = "%s/%s" % (ty, m)
            if und[m]:
                run.ok(rule, key, "%d cell(s) do not fold: not decided" % und[m], fns[m].loc, nontrivial=False)
            else:
                run.check(not bad[m], rule, key, "equals its definition on every residue class",
                          "<%s as Roundable>::%s differs from its definition: %s" % (ty, m, "; ".join(bad[m][:4])), fns[m].loc)
        run.analysed["roundable_cells_%s" % ty] = cells
    run.exhaustive_tables.append("Roundable atoms (residues x quotient parity x sign for d = 10, 3, 7, 1)")


def main(tier):
    run = Run("C07", tier)
    fx = Facts("full")
    run.tree_hash = fx.hash
    run.configs.append({"config": "full", "crates": fx.summary()})
    run_checks(run, fx)
    run.assumptions += ["the specification tables transcribed in tlint/props/c07.py (GetUnsignedRoundingMode, "
                        "NegateRoundingMode, ApplyUnsignedRoundingMode) are correct",
                        "is_exact / compare_remainder / result_floor / result_ceil / is_even_cardinal are decided on every "
                        "residue class of the increments 10, 3, 7 and 1 (R1.roundable-atoms), not for every increment"]
    # R11: to-string paths skip the rounding kernel only when rounding is the identity
    rule = "R11.rounding-skipped-only-when-identity"
    run.rule(rule, "a to-string operation returns without calling a rounding kernel only on paths that decided BOTH the resolved "
                   "unit == nanosecond AND the increment == 1 (rounding to 1 ns is the identity; 10 ns or 100 ns is not)")
    CORE = "temporal_rs::builtins::core::"
    for suffix in ("duration::Duration::as_temporal_string", "datetime::PlainDateTime::to_ixdtf_string",
                   "time::PlainTime::to_ixdtf_string", "instant::Instant::to_ixdtf_string_with_provider",
                   "zoneddatetime::ZonedDateTime::to_ixdtf_string_with_provider"):
        f = fx["temporal_rs"].fn(CORE + suffix)
        if f is None:
            run.anchor_missing(rule, suffix, "function not found")
            continue
        ev = H.Evaluator(fx)
        ev.inline = lambda p: p.startswith("temporal_rs::error::")
        try:
            paths = ev.paths(f, [H.Sym("param", (p["name"],)) for p in f.params], max_paths=300)
        except H.Budget:
            run.ok(rule, suffix, "too many paths: not decided", f.loc, nontrivial=False)
            continue
        succ = skipped = bad = 0
        why = None
        for dec, res, tr in paths:
            if isinstance(res, H.Panic) or is_err(res):
                continue
            succ += 1
            if any("::round" in str(c.parts[0]) for c in tr):
                continue
            skipped += 1
            held = [c for c, ch in dec if ch is True and not c.startswith("||[")]
            if not (any("Unit::Nanosecond" in c for c in held) and any(".increment, " in c and ("RoundingIncrement(1)" in c or "::ONE" in c) for c in held)):
                bad += 1
                why = why or [c[:80] for c in held][-2:]
        run.check(succ > 0 and bad == 0, rule, suffix, "%d success path(s), %d without rounding, all behind unit == ns && "
                  "increment == 1" % (succ, skipped),
                  "%s: %d success path(s) skip the rounding kernel without having decided `smallest_unit == Nanosecond && "
                  "increment == ONE` (decided only %s)" % (f.name, bad, why), f.loc)
    from ..rules import extra
    extra.check_to_string_prints_rounded(run, fx)
    check_roundable_atoms(run, fx)
    return run.finish(EXPLANATION)
