"""C16 — non-ISO calendars: era / identifier / kind tables agree with the calendrical library's own tables."""
import re
from ._std import *
from ..rules.common import hir_walk, node_line

EXPLANATION = (
    "Static table agreement (R1) between temporal_rs and the pinned icu_calendar, both read from the type-checked HIR "
    "of the same build: for every arm of Calendar::get_era_info and get_calendar_default_era, the era code handed to "
    "the library (EraInfo.name) is one that the library's date_from_codes for that calendar kind compares against, and "
    "is one of the arm's own aliases or the library's canonical code; the calendar identifiers matched in "
    "MonthCode::validate are possible values of Calendar::identifier(); Calendar::new maps every AnyCalendarKind "
    "variant to the AnyCalendar variant of the same name; from_utf8 lowercases before both comparisons; with_calendar "
    "passes the ISO year/month/day through unchanged. NOT decided: that the reported fields describe the same day (the "
    "library's calendrical arithmetic)."
)

KIND = "icu_calendar::any_calendar::AnyCalendarKind::"
ICU_TYPE = {
    "Buddhist": "buddhist::Buddhist", "Chinese": "chinese::Chinese", "Coptic": "coptic::Coptic", "Dangi": "dangi::Dangi",
    "Ethiopian": "ethiopian::Ethiopian", "EthiopianAmeteAlem": "ethiopian::Ethiopian", "Gregorian": "gregorian::Gregorian",
    "Hebrew": "hebrew::Hebrew", "Indian": "indian::Indian", "IslamicCivil": "islamic::IslamicCivil",
    "IslamicObservational": "islamic::IslamicObservational", "IslamicTabular": "islamic::IslamicTabular",
    "IslamicUmmAlQura": "islamic::IslamicUmmAlQura", "Iso": "iso::Iso", "Japanese": "japanese::Japanese",
    "JapaneseExtended": "japanese::JapaneseExtended", "Persian": "persian::Persian", "Roc": "roc::Roc",
}
NOT_ERAS = {"year", "month", "day", "era"}


def strs(node):
    out = []
    for n in hir_walk(node):
        if isinstance(n, dict) and n.get("k") == "path" and isinstance(n.get("val"), dict) and "tinystr" in n["val"]:
            out.append(n["val"]["tinystr"])
        if isinstance(n, dict) and n.get("k") == "lit" and "str" in n.get("v", {}):
            out.append(n["v"]["str"])
    return out


def icu_accepted(fx, kind):
    """era codes the library's date_from_codes of this calendar kind compares against (transitively, inside icu_calendar)"""
    icu = fx["icu_calendar"]
    root = icu.fn("<icu_calendar::%s as icu_calendar::calendar::Calendar>::date_from_codes" % ICU_TYPE[kind])
    if root is None:
        return None
    seen, work, out = set(), [root], set()
    while work:
        f = work.pop()
        if f.path in seen or f.hir is None:
            continue
        seen.add(f.path)
        for s in strs(f.hir):
            if re.fullmatch(r"[a-z][a-z0-9-]{0,15}", s) and s not in NOT_ERAS:
                out.add(s)
        for n in hir_walk(f.hir):
            if isinstance(n, dict) and n.get("k") in ("call", "mcall"):
                t = n.get("resolved") or n.get("fn")
                g = icu.fn(t) if isinstance(t, str) else None
                if g is not None and len(seen) < 40 and not g.path.endswith(("::to_calendar", "::try_new_iso")):
                    work.append(g)
    return out


def era_info(rs, const_path):
    f = rs.fn(const_path)
    if f is None or f.hir is None:
        return None
    v = f.hir["value"]
    if v.get("k") != "struct":
        return None
    d = dict((a, b) for a, b in v["fields"])
    nm = strs(d.get("name"))
    return nm[0] if nm else None


def main(tier):
    run, fx = start("C16", tier)
    rs = fx["temporal_rs"]
    icu = fx["icu_calendar"]
    r1 = "R1.era-code-accepted"
    r2 = "R1.era-alias-consistent"
    run.rule(r1, "the era code stored in the EraInfo selected for calendar kind K is one that icu_calendar's "
                 "date_from_codes for K compares against (otherwise every date built with that era is rejected)")
    run.rule(r2, "an alias arm of get_era_info selects an EraInfo whose name is one of that arm's own aliases (an era "
                 "must not silently resolve to a different era)")
    g = rs.fn1("Calendar::get_era_info")
    d = rs.fn1("Calendar::get_calendar_default_era")
    if g is None or d is None:
        run.anchor_missing(r1, "get_era_info", "Calendar::get_era_info / get_calendar_default_era not found")
        return run.finish(EXPLANATION)
    # both tables are folded over their finite domain: every calendar kind x every era string that occurs anywhere in the
    # era module, in the two functions, or among the codes the library accepts (values, not the arms of a `match`)
    accepted = {k: icu_accepted(fx, k) for k in ICU_TYPE}
    era_mod = "temporal_rs::builtins::core::calendar::era::"
    words = set()
    for fn in [g, d] + [f for f in rs.fns if f.path.startswith(era_mod)]:
        if fn.hir is not None:
            words |= {w for w in strs(fn.hir) if re.fullmatch(r"[a-z][a-z0-9-]{0,18}", w)}
    for acc in accepted.values():
        words |= set(acc or ())
    words -= NOT_ERAS

    def call(fn, kind, *args):
        ev = H.Evaluator(fx)
        ev.stubs["::kind"] = lambda a, kind=kind: H.V(KIND + kind, ())
        try:
            r = ev.call_fn(fn, [H.Sym("param", ("self",))] + list(args))
        except (H.Panic, H.Budget):
            return "opaque", None
        if isinstance(r, H.V) and r.path == H.NONE:
            return "none", None
        if isinstance(r, H.V) and r.path == H.SOME and isinstance(r.args[0], H.S) and isinstance(H.sfield(r.args[0], "name"), str):
            return "era", r.args[0]
        return "opaque", r
    hits = undecided = 0
    for kind in sorted(ICU_TYPE):
        acc = accepted[kind]
        k0, e0 = call(d, kind)
        key = "get_calendar_default_era/%s" % kind
        if k0 == "opaque":
            undecided += 1
            run.ok(r1, key, "does not fold: not decided", d.loc, nontrivial=False)
        elif k0 == "era":
            hits += 1
            nm = H.sfield(e0, "name")
            if acc is None:
                run.bad(r1, key, "no icu_calendar date_from_codes found for calendar kind %s" % kind, d.loc)
            else:
                run.check(nm in acc, r1, key, "%s: default era %r is accepted by the library" % (kind, nm),
                          "the default era of %s has the code %r, which is not among the codes icu_calendar accepts for it: %s" %
                          (kind, nm, sorted(acc)), d.loc)
        for w in sorted(words):
            k1, e1 = call(g, kind, w)
            if k1 == "opaque":
                undecided += 1
                continue
            if k1 != "era":
                continue
            hits += 1
            nm = H.sfield(e1, "name")
            key = "get_era_info/%s/%s" % (kind, w)
            if acc is None:
                run.bad(r1, key, "no icu_calendar date_from_codes found for calendar kind %s" % kind, g.loc)
            else:
                run.check(nm in acc, r1, key, "%s: %r -> era code %r, accepted by the library" % (kind, w, nm),
                          "for calendar %s the era %r resolves to the code %r, which is not among the codes icu_calendar accepts "
                          "for it: %s" % (kind, w, nm, sorted(acc)), g.loc)
            # the canonical code of the era an alias resolves to is itself a name of THAT era
            k2, e2 = call(g, kind, nm)
            if k2 == "opaque":
                continue
            run.check(k2 == "era" and e2 == e1, r2, key, "%r and its code %r name the same era" % (w, nm),
                      "for calendar %s the alias %r resolves to the era with code %r, but %r itself resolves to %s (a different "
                      "era or none): an era silently resolves to another one" %
                      (kind, w, nm, nm, ("the era " + repr(H.sfield(e2, "name"))) if k2 == "era" else "nothing"), g.loc)
    run.analysed["era_table_hits"] = hits
    run.analysed["era_table_cells_not_folded"] = undecided
    if hits < 30 and undecided == 0:
        run.anchor_missing(r1, "arms", "only %d (calendar, era) pairs resolve (expected >= 30)" % hits)
    run.exhaustive_tables.append("get_era_info + get_calendar_default_era (%d kinds x %d era strings, %d hits)" %
                                 (len(ICU_TYPE), len(words), hits))

    # MonthCode::validate identifiers
    r3 = "R1.monthcode-calendar-identifiers"
    run.rule(r3, "every calendar identifier matched in MonthCode::validate is a possible value of Calendar::identifier() "
                 "(AnyCalendarKind::as_bcp47_string or \"iso8601\")")
    v = rs.fn1("MonthCode::validate")
    bcp = icu.fn1("AnyCalendarKind::as_bcp47_string")
    if v is None or bcp is None:
        run.anchor_missing(r3, "validate", "MonthCode::validate / AnyCalendarKind::as_bcp47_string not found")
    else:
        possible = set(s for s in strs(bcp.hir)) | {"iso8601"}
        ms = [n for n in hir_walk(v.hir) if isinstance(n, dict) and n.get("k") == "match" and
              any(isinstance(x, dict) and x.get("k") == "mcall" and x.get("name") == "identifier" for x in hir_walk(n["scrut"]))]
        ids = []
        for m in ms:
            for arm in m["arms"]:
                for p in hir_walk(arm["pat"]):
                    if isinstance(p, dict) and p.get("k") == "lit" and "str" in p["v"]:
                        ids.append((p["v"]["str"], node_line(arm)))
        if not ids:
            run.anchor_missing(r3, "identifiers", "no calendar identifiers matched in MonthCode::validate")
        for s, line in ids:
            run.check(s in possible, r3, s, "%r is a calendar identifier" % s,
                      "MonthCode::validate matches the identifier %r, which Calendar::identifier() can never return "
                      "(possible: %s)" % (s, sorted(possible)), "%s:%s" % (v.file, line))

    # Calendar::new kind -> AnyCalendar variant
    r4 = "R1.calendar-kind-map"
    run.rule(r4, "Calendar::new maps every AnyCalendarKind variant to the AnyCalendar variant of the same name")
    cn = rs.fn1("Calendar::new")
    kinds = icu.adts.get("icu_calendar::any_calendar::AnyCalendarKind")
    if cn is None or kinds is None:
        run.anchor_missing(r4, "Calendar::new", "Calendar::new / AnyCalendarKind not found")
    else:
        m = [n for n in hir_walk(cn.hir) if isinstance(n, dict) and n.get("k") == "match"]
        seen = {}
        for arm in (m[0]["arms"] if m else []):
            pat = arm["pat"]
            if pat.get("k") == "path" and str(pat["path"].get("def", "")).startswith(KIND):
                k = pat["path"]["def"][len(KIND):]
                tv = [str(x.get("ctor") or x.get("res", {}).get("def") or "") for x in hir_walk(arm["body"]) if isinstance(x, dict)]
                tv = [t.replace("::{constructor#0}", "").rsplit("::", 1)[-1] for t in tv
                      if "any_calendar::AnyCalendar::" in t]
                seen[k] = tv[0] if tv else None
        # the library has no AnyCalendar variant of its own for the Amete Alem era style
        same_as = {"EthiopianAmeteAlem": "Ethiopian"}
        for vv in kinds["variants"]:
            k = vv["name"]
            run.check(seen.get(k) == same_as.get(k, k), r4, k, "%s -> AnyCalendar::%s" % (k, seen.get(k)),
                      "Calendar::new maps AnyCalendarKind::%s to AnyCalendar::%s" % (k, seen.get(k)), cn.loc)
        run.exhaustive_tables.append("Calendar::new (%d kinds)" % len(kinds["variants"]))

    # from_utf8 lowercases before both comparisons
    r5 = "R2.identifier-case"
    run.rule(r5, "Calendar::from_utf8 ASCII-lowercases its input before the iso8601 comparison and before the library "
                 "lookup; identifier() returns \"iso8601\" for the ISO calendar and the library's BCP-47 string otherwise")
    fu = rs.fn1("Calendar::from_utf8")
    if fu is None:
        run.anchor_missing(r5, "from_utf8", "not found")
    else:
        # dataflow on the folded terms: wherever the input reaches the "iso8601" comparison or the library lookup it does so
        # through to_ascii_lowercase (or a case-insensitive comparison); a use of the raw bytes there is the violation; if
        # neither use is recognisable the rule is not decided
        evu = H.Evaluator(fx)
        evu.inline = lambda p: p.startswith("temporal_rs::error::")
        pname = fu.params[0]["name"] if fu.params else "bytes"
        try:
            upaths = evu.paths(fu, [H.Sym("param", (pname,))], max_paths=64)
        except (H.Budget, H.Panic):
            upaths = None

        def raw_use(text):
            """None: the input does not occur; False: only under a case-folding call; True: raw"""
            if "$" + pname not in text:
                return None
            t = re.sub(r"(?:to_ascii_lowercase|to_lowercase|eq_ignore_ascii_case|make_ascii_lowercase)\((?:[^()]|\([^()]*\))*\)", "", text)
            return ("$" + pname) in t

        uses = {"cmp": [], "look": []}
        for dec, res, tr in (upaths or []):
            for cond, ch in dec:
                if "iso8601" in cond.lower() or "ISO_IDENTIFIER" in cond:
                    uses["cmp"].append(raw_use(cond))
            for c in tr:
                if str(c.parts[0]).endswith("get_for_bcp47_bytes") and c.parts[1]:
                    uses["look"].append(raw_use(show(c.parts[1][0])))
        if upaths is None or not [u for u in uses["cmp"] + uses["look"] if u is not None]:
            run.ok(r5, "from_utf8", "neither the iso8601 comparison nor the library lookup is recognisable on the folded paths: "
                   "not decided", fu.loc, nontrivial=False)
        else:
            bad_cmp, bad_look = any(u is True for u in uses["cmp"]), any(u is True for u in uses["look"])
            run.check(not bad_cmp and not bad_look, r5, "from_utf8", "the input reaches both comparisons lowercased only",
                      "from_utf8 compares without lowercasing (iso8601 comparison on the raw input: %s, library lookup on the "
                      "raw input: %s)" % (bad_cmp, bad_look), fu.loc)
    idf = rs.fn1("Calendar::identifier")
    if idf is not None:
        leaves = result_leaves(fx, idf)
        iso = [l for l in leaves if any("is_iso" in c and ch is True for c, ch in l[2])]
        non = [l for l in leaves if any("is_iso" in c and ch is False for c, ch in l[2])]
        ok = iso and all(l[1] == "'iso8601'" for l in iso) and non and all(l[1].endswith("as_bcp47_string") for l in non)
        outs = {l[1] for l in leaves}
        if not iso and not non and outs and all(o == "'iso8601'" or o.endswith("as_bcp47_string") for o in outs) and \
                "'iso8601'" in outs:
            # the ISO test is not an `is_iso()` decision (a match on kind()): both results are the right ones, which calendar
            # gets which is not decided by this rule
            run.ok(r5, "identifier", "returns \"iso8601\" or the library's BCP-47 string; the ISO test is not an is_iso() decision: "
                   "which calendar gets which is not decided", idf.loc, nontrivial=False)
            ok = None
        if ok is not None:
          run.check(ok, r5, "identifier", "iso -> \"iso8601\", otherwise kind().as_bcp47_string()",
                  "Calendar::identifier returns %s" % sorted({l[1] for l in leaves}), idf.loc)
    # with_calendar passes the ISO fields through
    r6 = "R2.with-calendar-iso-passthrough"
    run.rule(r6, "with_calendar rebuilds the value from the receiver's ISO year, month, day (in that order) and the new "
                 "calendar only")
    for ty in ("date::PlainDate", "datetime::PlainDateTime"):
        f = rs.fn("temporal_rs::builtins::core::%s::with_calendar" % ty)
        if f is None:
            run.anchor_missing(r6, ty, "with_calendar not found")
            continue
        ev = H.Evaluator(fx)
        ev.inline = lambda p: p.endswith(("::iso_year", "::iso_month", "::iso_day"))
        r = ev.call_fn(f, [H.Sym("param", (p["name"],)) for p in f.params])
        s = show(r)
        ok = "$calendar" in s and ("$self.iso" in s)
        order = [m for m in re.findall(r"\$self\.iso(?:\.date)?\.(year|month|day)", s)]
        if order:
            ok = ok and order[:3] == ["year", "month", "day"]
        run.check(ok, r6, ty.rsplit("::", 1)[-1], "with_calendar -> %s" % s[:100],
                  "%s::with_calendar does not rebuild from (iso year, month, day, calendar): %s" % (ty, s[:160]), f.loc)
    run.assumptions += ["icu_calendar %s as pinned in Cargo.lock is the oracle; a dependency bump changes the oracle" %
                        "2.0.0-beta2", "era codes are recognised as the lowercase string/tinystr literals reachable from "
                        "the library's date_from_codes"]
    # ISO month lengths are used for the ISO calendar only
    r8 = "R11.iso-month-lengths-only-under-is-iso"
    run.rule(r8, "in ResolvedCalendarFields::try_from_partial the ISO day-range helpers (constrain_iso_day, is_valid_iso_day, "
                 "iso_days_in_month) are reached only on paths that decided `calendar.is_iso()` true: other calendars have "
                 "other month lengths (a day that is valid there must not be clamped to the ISO month)")
    ftp = fx["temporal_rs"].fn("temporal_rs::builtins::core::calendar::types::ResolvedCalendarFields::try_from_partial")
    if ftp is None:
        run.anchor_missing(r8, "try_from_partial", "not found")
    else:
        ev = H.Evaluator(fx)
        ev.inline = lambda p: p.startswith("temporal_rs::error::")
        try:
            paths = ev.paths(ftp, [H.Sym("param", (p["name"],)) for p in ftp.params], max_paths=600)
        except H.Budget:
            paths = None
        if paths is None:
            run.ok(r8, "try_from_partial", "too many paths: not decided", ftp.loc, nontrivial=False)
        else:
            reach = bad = 0
            for dec, res, tr in paths:
                if any(str(c.parts[0]).endswith(("::constrain_iso_day", "::is_valid_iso_day", "::iso_days_in_month")) for c in tr):
                    reach += 1
                    g = [ch for c, ch in dec if "is_iso" in c]
                    if not g or g[0] is not True:
                        bad += 1
            run.check(reach > 0 and bad == 0, r8, "try_from_partial", "%d path(s) use ISO month lengths, all under is_iso()" % reach,
                      "%d of %d paths reach the ISO day-range helpers without `calendar.is_iso()` being true" % (bad, reach), ftp.loc)
    # era-year ranges cover every (era, eraYear) icu_calendar can report for the Japanese calendar
    r7 = "R1.japanese-era-ranges-cover-icu"
    run.rule(r7, "the accepted era-year range of each Japanese era covers every era year icu_calendar reports: era E lasts from "
                 "its start year to the next era's start year (inclusive), and dates of 1868 before the Meiji start are reported "
                 "in the `ce` era with year 1868 - start years are read from icu_calendar's own constants")
    icu, rs_ = fx["icu_calendar"], fx["temporal_rs"]

    def const_term(crate, suffix):
        g = next((f for f in crate.fns if f.path.endswith(suffix) and f.kind.startswith("Const") and f.hir is not None), None)
        if g is None:
            return None
        try:
            return H.Evaluator(fx).ev(g.hir["value"] if "value" in g.hir else g.hir, {})
        except Exception:
            return None

    def field(t, name):
        if isinstance(t, H.S):
            for k, v in t.fields:
                if k == name:
                    return v
        return None
    starts = {}
    for era, cname in (("meiji", "MEIJI_START"), ("taisho", "TAISHO_START"), ("showa", "SHOWA_START"), ("heisei", "HEISEI_START"),
                       ("reiwa", "REIWA_START")):
        y = field(const_term(icu, "japanese::" + cname), "year")
        if isinstance(y, int):
            starts[era] = y
    if len(starts) < 5:
        run.anchor_missing(r7, "icu-era-starts", "could not read the five era start years from icu_calendar (%s)" % starts)
    else:
        order = ["meiji", "taisho", "showa", "heisei", "reiwa"]
        need = {"japanese": starts["meiji"]}
        for a, b in zip(order, order[1:]):
            need[a] = starts[b] - starts[a] + 1
        tem = {"japanese": "JAPANESE_ERA", "meiji": "MEJEI_ERA", "taisho": "TAISHO_ERA", "showa": "SHOWA_ERA", "heisei": "HEISEI_ERA"}
        for era, want in need.items():
            t = const_term(rs_, "era::" + tem[era])
            rng = field(t, "range")
            hi = getattr(rng, "hi", None) if rng is not None else None
            if hi is None and rng is not None:
                import re as _re
                m = _re.search(r"\.\.=(-?\d+)", show(rng))
                hi = int(m.group(1)) if m else None
            run.check(hi is not None and hi >= want, r7, era, "era years up to %s accepted (icu reports up to %d)" % (hi, want),
                      "era `%s` accepts era years up to %s, but icu_calendar reports dates with era year %d in it (era start "
                      "years %s): such a date cannot be rebuilt from its own fields" % (era, hi, want, starts))
    return run.finish(EXPLANATION)
