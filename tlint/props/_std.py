"""Boilerplate shared by property modules."""
from ..core import Run
from ..facts import Facts
from .. import hireval as H
from ..terms import show, walk, params_in, calls
from ..rules.common import is_err, err_kind


def start(prop, tier):
    run = Run(prop, tier)
    fx = Facts("full")
    run.tree_hash = fx.hash
    run.configs.append({"config": "full", "crates": fx.summary()})
    if getattr(fx, "moved", None):
        run.analysed["moved_functions"] = dict(sorted(fx.moved.items()))
        run.notes.append("%d function(s) of the inventory were found moved/renamed with an unchanged body and are analysed under "
                         "their inventory path" % len(fx.moved))
    return run, fx


def check_guarded_call(run, fx, f, guard_substr, kernel_suffix, rule, key, kind="Range", guard_pass=False):
    """every path of `f` that reaches a call of `kernel_suffix` first decided `guard_substr` as `guard_pass`;
    the failing side of the guard returns an error of `kind`"""
    if f is None:
        run.anchor_missing(rule, key, "function not found")
        return
    ev = H.Evaluator(fx)
    ev.inline = lambda p: p.startswith("temporal_rs::error::")
    args = [H.Sym("param", (p["name"],)) for p in f.params]
    try:
        paths = ev.paths(f, args, max_paths=300)
    except H.Budget:
        run.bad(rule, key, "function too large for path enumeration", f.loc)
        return
    reach = unguarded = 0
    fail_kinds = set()
    for dec, res, tr in paths:
        g = [ch for c, ch in dec if guard_substr in c]
        hit = any(str(c.parts[0]).endswith(kernel_suffix) for c in tr)
        if hit:
            reach += 1
            if not g or g[0] is not guard_pass:
                unguarded += 1
        if g and g[0] is not guard_pass:
            fail_kinds.add(err_kind(res) if is_err(res) else "not-an-error")
    ok = reach > 0 and unguarded == 0 and fail_kinds == {kind}
    run.check(ok, rule, key, "%d path(s) reach %s, all behind the `%s` check; failing side -> %s error" %
              (reach, kernel_suffix, guard_substr, kind),
              "%s: %d of %d paths reach %s without passing the `%s` check; failing side returns %s (expected %s)" %
              (f.name, unguarded, reach, kernel_suffix, guard_substr, sorted(fail_kinds), kind), f.loc)


def result_leaves(fx, f, inline=None):
    """set of callee names that produce the Ok(..) results of f's paths"""
    ev = H.Evaluator(fx)
    ev.inline = inline or (lambda p: p.startswith("temporal_rs::error::"))
    args = [H.Sym("param", (p["name"],)) for p in f.params]
    out = []
    for dec, res, tr in ev.paths(f, args, max_paths=300):
        if isinstance(res, H.Panic):
            out.append(("panic", res.what, dec))
        elif is_err(res):
            out.append(("err", err_kind(res), dec))
        else:
            t = res
            while True:
                if isinstance(t, H.V) and t.path in (H.OK, H.SOME) and len(t.args) == 1:
                    t = t.args[0]
                elif isinstance(t, H.Sym) and t.what == "try":
                    t = t.parts[0]
                else:
                    break
            if isinstance(t, H.Sym) and t.what == "call":
                out.append(("call", str(t.parts[0]), dec))
            else:
                out.append(("value", show(t)[:80], dec))
    return out


def check_must_call_on_success(run, fx, f, callee_parts, rule, key, why):
    """every path of `f` that ends in a success value passed through a call whose path contains one of `callee_parts`
    (a must-pass-through rule decided by CFG-path extraction on the type-checked HIR)"""
    if f is None:
        run.anchor_missing(rule, key, "function not found")
        return
    ev = H.Evaluator(fx)
    ev.inline = lambda p: p.startswith("temporal_rs::error::")
    args = [H.Sym("param", (p["name"],)) for p in f.params]
    try:
        paths = ev.paths(f, args, max_paths=400)
    except H.Budget:
        run.ok(rule, key, "function too large for path enumeration: not decided", f.loc, nontrivial=False)
        return
    succ = missing = 0
    example = None
    for dec, res, tr in paths:
        if isinstance(res, H.Panic) or is_err(res):
            continue
        succ += 1
        if not any(any(part in str(c.parts[0]) for part in callee_parts) for c in tr):
            missing += 1
            example = example or [c for c, ch in dec][-3:]
    run.check(succ > 0 and missing == 0, rule, key, "%d success path(s), all through %s" % (succ, "/".join(callee_parts)),
              "%s: %d of %d success paths return without %s (%s); e.g. after deciding %s" %
              (f.name, missing, succ, "/".join(callee_parts), why, example), f.loc)
