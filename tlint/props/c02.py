"""C02 — every value produced is in range; out-of-range results are RangeErrors (structural clauses)."""
from ._std import *
from ..rules import intervals, typestate
from ..rules.common import hir_walk, node_line, fold, find_trait_fn
from ..facts import fixture_facts

EXPLANATION = (
    "Static typestate (R6), error-discipline (R7) and limit-table (R1) rules on the type-checked HIR exported from "
    "/repo's current tree: on every success path a function returning PlainDate / PlainDateTime / PlainYearMonth / "
    "ZonedDateTime / Instant / EpochNanoseconds returns a value that was validated (validating constructor, callee of "
    "the same type, value already of that type, or new_unchecked of a payload that is validated or limit-checked on that "
    "path); no safe new_unchecked is reachable from outside the crate; no Result<_, TemporalError> is swallowed "
    "(unwrap_or*, ok(), let _ =); the failing side of every limit validator is a RangeError; the limit constants and "
    "comparison operators fold to the specification's values (instant +-8.64e21 inclusive, date-time 1e8+1 days and "
    "+-(8.64e21 + 8.64e13) ns exclusive, time duration 2^53 x 1e9 - 1 ns with `>`, date value i32 range). NOT decided: "
    "exactness of each boundary through every arithmetic path (needs the values)."
)
SWALLOW_EXCEPTIONS = {
    "temporal_rs::parsers::timezone::parse_allowed_timezone_formats/ok": "alternative-format fallback: a record that is "
    "not a valid time-zone record selects None (the caller reports a RangeError)",
}


def check_swallowed(run, fx):
    rule = "R7a.result-not-swallowed"
    run.rule(rule, "no Result<_, TemporalError> is turned into a value by unwrap_or / unwrap_or_default / unwrap_or_else / "
                   "ok() or discarded by `let _ =` / `_ =`: a RangeError must reach the caller")
    n = 0
    for c in ("temporal_rs",):
        for f in fx[c].fns:
            if f.hir is None or f.kind == "Closure":
                continue
            seen = {}
            for x in hir_walk(f.hir):
                if not isinstance(x, dict):
                    continue
                hit = None
                if x.get("k") == "mcall" and x["name"] in ("unwrap_or_default", "unwrap_or", "ok", "unwrap_or_else"):
                    rt = str(x.get("recv_ty", "")).lstrip("&")
                    if rt.startswith("core::result::Result<") and "temporal_rs::error::TemporalError>" in rt:
                        hit = x["name"]
                elif x.get("k") == "let" and x["pat"].get("k") == "wild" and x.get("init") is not None and \
                        "temporal_rs::error::TemporalError>" in str(x["init"].get("ty", "")):
                    hit = "let_"
                elif x.get("k") == "assign" and x["a"].get("k") == "other" and \
                        "temporal_rs::error::TemporalError>" in str(x["b"].get("ty", "")):
                    hit = "assign_"
                if hit:
                    n += 1
                    seen[hit] = seen.get(hit, 0) + 1
                    key = "%s/%s" % (f.path, hit)
                    if key in SWALLOW_EXCEPTIONS:
                        run.ok(rule, key, "reviewed: " + SWALLOW_EXCEPTIONS[key], "%s:%s" % (f.file, node_line(x)), nontrivial=False)
                    else:
                        run.bad(rule, key + ("#%d" % seen[hit] if seen[hit] > 1 else ""),
                                "%s discards or defaults a TemporalResult with `%s`; a RangeError would become a different "
                                "value" % (f.name, hit), "%s:%s" % (f.file, node_line(x)))
    run.ok(rule, "scan", "%d candidate site(s) examined" % n, nontrivial=False)


def check_validator_errors(run, fx, rs):
    rule = "R7b.limit-failure-is-range"
    run.rule(rule, "the failing side of every limit validator returns a RangeError")
    names = ["temporal_rs::iso::IsoDateTime::new", "temporal_rs::iso::IsoDate::new_with_overflow",
             "temporal_rs::iso::IsoDate::is_valid_day_range",
             "temporal_rs::builtins::core::year_month::PlainYearMonth::new_with_overflow",
             "temporal_rs::builtins::core::duration::normalized::NormalizedTimeDuration::add_days",
             "temporal_rs::builtins::core::duration::normalized::NormalizedTimeDuration::from_nanosecond_difference",
             "temporal_rs::builtins::core::duration::date::DateDuration::new",
             "temporal_rs::builtins::core::duration::time::TimeDuration::new",
             "temporal_rs::builtins::core::duration::Duration::new",
             "temporal_rs::primitive::FiniteF64::as_date_value",
             "temporal_rs::options::increment::RoundingIncrement::try_new"]
    fns = [(p, rs.fn(p)) for p in names]
    for tyname in ("i128", "u128"):
        g = None
        for f in rs.fns:
            if f.name == "try_from" and (f.d.get("impl_self") or "").endswith("EpochNanoseconds") and f.params and f.params[0]["ty"] == tyname:
                g = f
        fns.append(("EpochNanoseconds::try_from<%s>" % tyname, g))
    for p, f in fns:
        key = p.replace("temporal_rs::", "")
        if f is None:
            run.anchor_missing(rule, key, "validator not found")
            continue
        ev = H.Evaluator(fx)
        ev.inline = lambda q: q.startswith("temporal_rs::error::")
        kinds = set()
        oks = 0
        try:
            for dec, res, tr in ev.paths(f, [H.Sym("param", (q["name"],)) for q in f.params], max_paths=200):
                if is_err(res) and not (isinstance(res.args[0], H.Sym)):
                    kinds.add(err_kind(res))
                elif not isinstance(res, H.Panic) and not is_err(res):
                    oks += 1
        except H.Budget:
            pass
        run.check(kinds == {"Range"} and oks > 0, rule, key, "failure -> RangeError",
                  "%s fails with %s errors (expected only Range) and has %d success path(s)" % (f.name, sorted(kinds), oks),
                  f.loc)


def check_limit_tables(run, fx, rs):
    rule = "R1.limit-constants"
    run.rule(rule, "the range limits fold to the specification's constants with the specified inclusive/exclusive "
                   "comparison")
    ev = H.Evaluator(fx)
    NSMAX = 8_640_000_000_000_000_000_000
    DAY = 86_400_000_000_000
    c = rs.consts.get("temporal_rs::NS_MAX_INSTANT")
    cmin = rs.consts.get("temporal_rs::NS_MIN_INSTANT")
    run.check(c is not None and c["val"] == NSMAX and cmin is not None and cmin["val"] == -NSMAX, rule, "NS_MAX_INSTANT",
              "NS_MAX/MIN_INSTANT = +-8.64e21", "NS_MAX_INSTANT/NS_MIN_INSTANT are %s / %s, expected +-%d" %
              (c and c["val"], cmin and cmin["val"], NSMAX))
    f = rs.fn("temporal_rs::epoch_nanoseconds::is_valid_epoch_nanos")
    if f is None:
        run.anchor_missing(rule, "is_valid_epoch_nanos", "not found")
    else:
        for v, want in ((NSMAX, True), (NSMAX + 1, False), (-NSMAX, True), (-NSMAX - 1, False), (0, True)):
            got = fold(ev, f, [v])
            run.check(got == ("val", want), rule, "epoch-nanos/%d" % v, "is_valid_epoch_nanos(%d) = %s" % (v, got[1]),
                      "is_valid_epoch_nanos(%d) = %s, expected %s" % (v, got, want), f.loc)
    for tyname, vals in (("i128", ((NSMAX, True), (NSMAX + 1, False), (-NSMAX, True), (-NSMAX - 1, False))),
                         ("u128", ((NSMAX, True), (NSMAX + 1, False), (0, True)))):
        g = None
        for h in rs.fns:
            if h.name == "try_from" and (h.d.get("impl_self") or "").endswith("EpochNanoseconds") and h.params and h.params[0]["ty"] == tyname:
                g = h
        if g is None:
            run.anchor_missing(rule, "try_from<%s>" % tyname, "not found")
            continue
        for v, want in vals:
            k, r = fold(ev, g, [v])
            run.check((k == "ok") == want and (want or r == "Range"), rule, "try_from<%s>/%d" % (tyname, v),
                      "try_from(%d) -> %s" % (v, k), "EpochNanoseconds::try_from::<%s>(%d) -> %s %s, expected %s" %
                      (tyname, v, k, r, "ok" if want else "RangeError"), g.loc)
    # date-time limits: constants and operators, read from the normalised body
    d = rs.fn("temporal_rs::iso::iso_dt_within_valid_limits")
    if d is None:
        run.anchor_missing(rule, "iso_dt_within_valid_limits", "not found")
    else:
        ev2 = H.Evaluator(fx)
        ev2.inline = lambda p: False
        paths = ev2.paths(d, [H.Sym("param", ("date",)), H.Sym("param", ("time",))])
        daycmp = None
        final = None
        for dec, res, tr in paths:
            for cnd, ch in dec:
                if "epoch_days_from_gregorian_date" in cnd or "to_epoch_days" in cnd:
                    daycmp = cnd
            if isinstance(res, H.Sym) and res.what == "&&":
                final = res
        okd = daycmp is not None and daycmp.startswith("bin>[") and daycmp.endswith(", 100000001]") and "abs[" in daycmp
        run.check(okd, rule, "datetime/day-bound", "abs(epoch days) > 100000001 rejects",
                  "the day bound of the date-time limit is `%s`; expected abs(epoch days) > 10^8 + 1" % daycmp, d.loc)
        okf = False
        desc = show(final) if final is not None else "none"
        if final is not None:
            a, b = final.parts
            okf = isinstance(a, H.Sym) and a.what == "bin<" and a.parts[0] == -(NSMAX + DAY) and \
                isinstance(b, H.Sym) and b.what == "bin>" and b.parts[0] == NSMAX + DAY and show(a.parts[1]) == show(b.parts[1])
        run.check(okf, rule, "datetime/ns-bounds", "-(8.64e21+8.64e13) < ns < 8.64e21+8.64e13 (exclusive)",
                  "the nanosecond bounds of the date-time limit are %s; expected %d < ns and %d > ns" %
                  (desc[:200], -(NSMAX + DAY), NSMAX + DAY), d.loc)
    # time duration cap
    mt = rs.consts.get("temporal_rs::builtins::core::duration::normalized::MAX_TIME_DURATION")
    run.check(mt is not None and mt["val"] == 2 ** 53 * 10 ** 9 - 1, rule, "MAX_TIME_DURATION", "2^53 x 10^9 - 1",
              "MAX_TIME_DURATION is %s, expected %d" % (mt and mt["val"], 2 ** 53 * 10 ** 9 - 1))
    n = 0
    for f2 in rs.fns:
        if f2.hir is None or f2.file != "src/builtins/core/duration/normalized.rs" or f2.kind == "Closure":
            continue
        for x in hir_walk(f2.hir):
            if isinstance(x, dict) and x.get("k") == "if" and x["cond"].get("k") == "bin":
                c2 = x["cond"]
                names2 = [str(y["res"].get("def", "")) for y in hir_walk(c2) if isinstance(y, dict) and y.get("k") == "path"]
                if any(nm.endswith("MAX_TIME_DURATION") for nm in names2):
                    n += 1
                    isabs = c2["a"].get("k") == "mcall" and c2["a"]["name"] == "abs"
                    run.check(c2["op"] == ">" and isabs, rule, "%s/max-time-duration#%d" % (f2.path, n),
                              "abs(x) > MAX_TIME_DURATION", "%s compares with MAX_TIME_DURATION using `%s`%s; the cap is "
                              "abs(x) > MAX_TIME_DURATION" % (f2.name, c2["op"], "" if isabs else " without abs()"),
                              "%s:%s" % (f2.file, node_line(c2)))
    if n < 5:
        run.anchor_missing(rule, "max-time-duration-sites", "only %d comparisons with MAX_TIME_DURATION found" % n)
    # as_date_value
    adv = rs.fn("temporal_rs::primitive::FiniteF64::as_date_value")
    if adv is not None:
        F = "temporal_rs::primitive::FiniteF64"
        for v, want in ((2147483647.0, True), (2147483648.0, False), (-2147483648.0, True), (-2147483649.0, False)):
            k, r = fold(ev, adv, [H.V(F, (v,))])
            run.check((k == "ok") == want and (want or r == "Range"), rule, "as_date_value/%d" % int(v),
                      "as_date_value(%d) -> %s" % (v, k), "as_date_value(%d) -> %s %s" % (v, k, r), adv.loc)
    else:
        run.anchor_missing(rule, "as_date_value", "not found")
    dr = rs.fn("temporal_rs::iso::IsoDate::is_valid_day_range")
    if dr is not None:
        lits = [y["v"].get("int") for y in hir_walk(dr.hir) if isinstance(y, dict) and y.get("k") == "lit" and "int" in y["v"]]
        ops = [y["op"] for y in hir_walk(dr.hir) if isinstance(y, dict) and y.get("k") == "bin" and y["op"] in (">", ">=")]
        run.check(lits == [100_000_000] and ops == [">"], rule, "day-range", "abs(epoch days) > 10^8 rejects",
                  "is_valid_day_range compares with %s using %s" % (lits, ops), dr.loc)


def narrowing(run, fx):
    rule = "R9.lossy-narrowing"
    run.rule(rule, "no numeric cast silently changes a caller-controlled value: a float->integer or integer->integer cast whose "
                   "operand is an exactly known caller-controlled range must be able to represent that whole range (otherwise "
                   "the value saturates or wraps and a different, in-range result is produced instead of a RangeError)")
    # controls: the carry narrowed with `as` in the fixture crate must be reported, its range-checked twin must not
    ceng = intervals.analyse(fixture_facts("r9_control"), ("r9_control",))
    flagged = {p.rsplit("::", 1)[-1] for (p, k) in ceng.alarms if k[0] == "narrowing"}
    run.control(rule, "bad_narrow" in flagged, "fixtures/r9_control: bad_narrow must be reported (got %s)" % sorted(flagged))
    run.check("good_narrow" not in flagged, rule, "negative-control", "the range-checked cast of the control crate is not reported",
              "the engine reports the guarded cast of the control crate")
    res = intervals.results(fx)
    sites = [x for x in res["sites"] if x["kind"] == "narrowing"]
    sites += [x for x in intervals.results(fx, "temporal_capi")["sites"] if x["kind"] == "narrowing"]
    run.analysed["narrowing_casts"] = len(sites)
    if len(sites) < 100:
        run.anchor_missing(rule, "coverage", "only %d numeric casts analysed (expected >= 100)" % len(sites))
    for x in sites:
        key = "%s/cast#%d" % (x["fn"].replace("temporal_rs::", ""), x["ordinal"])
        loc = "%s:%s" % (x["file"], x["fn_line"])
        if x["status"] == 2:
            chain = " > ".join(c.replace("temporal_rs::", "").replace("builtins::core::", "") for c in x["chain"])
            run.bad(rule, key, "%s  [reached through: %s]" % (x["text"], chain), loc)
        elif x["status"] == 0:
            run.ok(rule, key, "the target type represents every value of the operand", loc)
        else:
            run.ok(rule, key, "operand of unknown provenance: not reported", loc, nontrivial=False)


def main(tier):
    run, fx = start("C02", tier)
    rs = fx["temporal_rs"]
    typestate.check(run, fx)
    check_swallowed(run, fx)
    check_validator_errors(run, fx, rs)
    check_limit_tables(run, fx, rs)
    run.assumptions += ["the trusted-producer table in tlint/rules/typestate.py (from_epoch_nanos of a valid instant)",
                        "values that already have a guarded type satisfy its invariant (this is what the rule establishes "
                        "inductively for every producer)"]
    narrowing(run, fx)
    return run.finish(EXPLANATION)
