"""C02 — every value produced is in range; out-of-range results are RangeErrors (structural clauses)."""
from ._std import *
from ..rules import intervals, typestate
from ..rules.common import hir_walk, node_line, fold, find_trait_fn, tri
from ..facts import fixture_facts

EXPLANATION = (
    "Static typestate (R6), error-discipline (R7) and limit-table (R1) rules on the type-checked HIR exported from "
    "/repo's current tree: on every success path a function returning PlainDate / PlainDateTime / PlainYearMonth / "
    "ZonedDateTime / Instant / EpochNanoseconds returns a value that was validated (validating constructor, callee of "
    "the same type, value already of that type, or new_unchecked of a payload that is validated or limit-checked on that "
    "path); no safe new_unchecked is reachable from outside the crate; no Result<_, TemporalError> is swallowed "
    "(unwrap_or*, ok(), let _ =); the failing side of every limit validator is a RangeError; the limit constants and "
    "comparison operators fold to the specification's values (instant +-8.64e21 inclusive, date-time 1e8+1 days and "
    "+-(8.64e21 + 8.64e13) ns exclusive, time duration 2^53 x 1e9 - 1 ns with `>`, date value i32 range). NOT decided: "
    "exactness of each boundary through every arithmetic path (needs the values)."
)
SWALLOW_EXCEPTIONS = {
    "temporal_rs::parsers::timezone::parse_allowed_timezone_formats/ok": "alternative-format fallback: a record that is "
    "not a valid time-zone record selects None (the caller reports a RangeError)",
}


def check_swallowed(run, fx):
    rule = "R7a.result-not-swallowed"
    run.rule(rule, "no Result<_, TemporalError> is turned into a value by unwrap_or / unwrap_or_default / unwrap_or_else "
                   "(directly or after .ok()) or discarded by `let _ =` / `_ =`: a RangeError must reach the caller")
    n = 0
    for c in ("temporal_rs",):
        for f in fx[c].fns:
            if f.hir is None or f.kind == "Closure":
                continue
            seen = {}
            for x in hir_walk(f.hir):
                if not isinstance(x, dict):
                    continue
                hit = None
                if x.get("k") == "mcall" and x["name"] in ("unwrap_or_default", "unwrap_or", "unwrap_or_else"):
                    rt = str(x.get("recv_ty", "")).lstrip("&")
                    if rt.startswith("core::result::Result<") and "temporal_rs::error::TemporalError>" in rt:
                        hit = x["name"]
                    else:
                        # `.ok()` alone only changes the carrier (it is `if let Ok(..)` written as a method: trying the next
                        # alternative of a grammar, say); it swallows the error when a default value is substituted next
                        r = x.get("recv") or {}
                        while isinstance(r, dict) and r.get("k") == "mcall" and r.get("name") in ("map", "and_then", "filter", "copied", "cloned"):
                            r = r.get("recv") or {}
                        if isinstance(r, dict) and r.get("k") == "mcall" and r.get("name") == "ok":
                            rt = str(r.get("recv_ty", "")).lstrip("&")
                            if rt.startswith("core::result::Result<") and "temporal_rs::error::TemporalError>" in rt:
                                hit = "ok+" + x["name"]
                elif x.get("k") == "let" and x["pat"].get("k") == "wild" and x.get("init") is not None and \
                        "temporal_rs::error::TemporalError>" in str(x["init"].get("ty", "")):
                    hit = "let_"
                elif x.get("k") == "assign" and x["a"].get("k") == "other" and \
                        "temporal_rs::error::TemporalError>" in str(x["b"].get("ty", "")):
                    hit = "assign_"
                if hit:
                    n += 1
                    seen[hit] = seen.get(hit, 0) + 1
                    key = "%s/%s" % (f.path, hit)
                    if key in SWALLOW_EXCEPTIONS:
                        run.ok(rule, key, "reviewed: " + SWALLOW_EXCEPTIONS[key], "%s:%s" % (f.file, node_line(x)), nontrivial=False)
                    else:
                        run.bad(rule, key + ("#%d" % seen[hit] if seen[hit] > 1 else ""),
                                "%s discards or defaults a TemporalResult with `%s`; a RangeError would become a different "
                                "value" % (f.name, hit), "%s:%s" % (f.file, node_line(x)))
    run.ok(rule, "scan", "%d candidate site(s) examined" % n, nontrivial=False)


def check_validator_errors(run, fx, rs):
    rule = "R7b.limit-failure-is-range"
    run.rule(rule, "the failing side of every limit validator returns a RangeError")
    names = ["temporal_rs::iso::IsoDateTime::new", "temporal_rs::iso::IsoDate::new_with_overflow",
             "temporal_rs::iso::IsoDate::is_valid_day_range",
             "temporal_rs::builtins::core::year_month::PlainYearMonth::new_with_overflow",
             "temporal_rs::builtins::core::duration::normalized::NormalizedTimeDuration::add_days",
             "temporal_rs::builtins::core::duration::normalized::NormalizedTimeDuration::from_nanosecond_difference",
             "temporal_rs::builtins::core::duration::date::DateDuration::new",
             "temporal_rs::builtins::core::duration::time::TimeDuration::new",
             "temporal_rs::builtins::core::duration::Duration::new",
             "temporal_rs::primitive::FiniteF64::as_date_value",
             "temporal_rs::options::increment::RoundingIncrement::try_new"]
    fns = [(p, rs.fn(p)) for p in names]
    for tyname in ("i128", "u128"):
        g = None
        for f in rs.fns:
            if f.name == "try_from" and (f.d.get("impl_self") or "").endswith("EpochNanoseconds") and f.params and f.params[0]["ty"] == tyname:
                g = f
        fns.append(("EpochNanoseconds::try_from<%s>" % tyname, g))
    for p, f in fns:
        key = p.replace("temporal_rs::", "")
        if f is None:
            run.anchor_missing(rule, key, "validator not found")
            continue
        ev = H.Evaluator(fx)
        ev.inline = lambda q: q.startswith("temporal_rs::error::")
        kinds = set()
        oks = 0
        try:
            for dec, res, tr in ev.paths(f, [H.Sym("param", (q["name"],)) for q in f.params], max_paths=200):
                if is_err(res) and not (isinstance(res.args[0], H.Sym)):
                    kinds.add(err_kind(res))
                elif not isinstance(res, H.Panic) and not is_err(res):
                    oks += 1
        except H.Budget:
            pass
        if not kinds:
            # no failing path is visible in the function's own control flow (the failure comes out of a combinator or a
            # callee): which error it is, is decided by the value folds of R1.limit-constants, not here
            run.ok(rule, key, "no failing path visible in %s itself: not decided by this rule" % f.name, f.loc, nontrivial=False)
            continue
        run.check(kinds == {"Range"}, rule, key, "failure -> RangeError",
                  "%s fails with %s errors (expected only Range) and has %d success path(s)" % (f.name, sorted(kinds), oks),
                  f.loc)


def check_limit_tables(run, fx, rs):
    rule = "R1.limit-constants"
    run.rule(rule, "the range limits fold to the specification's constants with the specified inclusive/exclusive "
                   "comparison")
    ev = H.Evaluator(fx)
    NSMAX = 8_640_000_000_000_000_000_000
    DAY = 86_400_000_000_000
    c = rs.consts.get("temporal_rs::NS_MAX_INSTANT")
    cmin = rs.consts.get("temporal_rs::NS_MIN_INSTANT")
    run.check(c is not None and c["val"] == NSMAX and cmin is not None and cmin["val"] == -NSMAX, rule, "NS_MAX_INSTANT",
              "NS_MAX/MIN_INSTANT = +-8.64e21", "NS_MAX_INSTANT/NS_MIN_INSTANT are %s / %s, expected +-%d" %
              (c and c["val"], cmin and cmin["val"], NSMAX))
    f = rs.fn("temporal_rs::epoch_nanoseconds::is_valid_epoch_nanos")
    if f is None:
        run.anchor_missing(rule, "is_valid_epoch_nanos", "not found")
    else:
        for v, want in ((NSMAX, True), (NSMAX + 1, False), (-NSMAX, True), (-NSMAX - 1, False), (0, True)):
            got = fold(ev, f, [v])
            tri(run, rule, "epoch-nanos/%d" % v, got, got == ("val", want), "is_valid_epoch_nanos(%d) = %s" % (v, got[1]),
                "is_valid_epoch_nanos(%d) = %s, expected %s" % (v, got, want), f.loc)
    for tyname, vals in (("i128", ((NSMAX, True), (NSMAX + 1, False), (-NSMAX, True), (-NSMAX - 1, False))),
                         ("u128", ((NSMAX, True), (NSMAX + 1, False), (0, True)))):
        g = None
        for h in rs.fns:
            if h.name == "try_from" and (h.d.get("impl_self") or "").endswith("EpochNanoseconds") and h.params and h.params[0]["ty"] == tyname:
                g = h
        if g is None:
            run.anchor_missing(rule, "try_from<%s>" % tyname, "not found")
            continue
        for v, want in vals:
            k, r = fold(ev, g, [v])
            tri(run, rule, "try_from<%s>/%d" % (tyname, v), (k, r), (k == "ok") == want and (want or r == "Range"),
                "try_from(%d) -> %s" % (v, k), "EpochNanoseconds::try_from::<%s>(%d) -> %s %s, expected %s" %
                (tyname, v, k, str(r)[:80], "ok" if want else "RangeError"), g.loc)
    # date-time limits: the limit function folded (everything inlined, kernels included) on the boundary records
    d = rs.fn("temporal_rs::iso::iso_dt_within_valid_limits")
    if d is None:
        run.anchor_missing(rule, "iso_dt_within_valid_limits", "not found")
    else:
        def date(y, m, dd):
            return H.S("temporal_rs::iso::IsoDate", (("year", y), ("month", m), ("day", dd)))

        def time(h=0, mi=0, sec=0, ms=0, us=0, ns=0):
            return H.S("temporal_rs::iso::IsoTime", (("hour", h), ("minute", mi), ("second", sec), ("millisecond", ms),
                                                     ("microsecond", us), ("nanosecond", ns)))
        table = (("-271821-04-19T00:00:00", date(-271821, 4, 19), time(), False),
                 ("-271821-04-19T00:00:00.000000001", date(-271821, 4, 19), time(ns=1), True),
                 ("-271821-04-18T23:59:59.999999999", date(-271821, 4, 18), time(23, 59, 59, 999, 999, 999), False),
                 ("+275760-09-13T23:59:59.999999999", date(275760, 9, 13), time(23, 59, 59, 999, 999, 999), True),
                 ("+275760-09-14T00:00:00", date(275760, 9, 14), time(), False),
                 ("+275761-01-01T00:00:00", date(275761, 1, 1), time(), False),
                 ("-271822-12-31T00:00:00", date(-271822, 12, 31), time(), False),
                 ("1970-01-01T00:00:00", date(1970, 1, 1), time(), True))
        for name, dt, tm, want in table:
            got = fold(H.Evaluator(fx), d, [dt, tm])
            tri(run, rule, "datetime/" + name, got, got == ("val", want), "within limits(%s) = %s" % (name, want),
                "iso_dt_within_valid_limits(%s) = %s, the date-time limits (exclusive, one day beyond the instant range) give %s" %
                (name, got[1], want), d.loc)
        run.exhaustive_tables.append("date-time limit boundary records (8)")
    # time duration cap: every checked producer folded at the cap and one nanosecond beyond
    MAXTD = 2 ** 53 * 10 ** 9 - 1
    mt = rs.consts.get("temporal_rs::builtins::core::duration::normalized::MAX_TIME_DURATION")
    if mt is not None:
        run.check(mt["val"] == MAXTD, rule, "MAX_TIME_DURATION", "2^53 x 10^9 - 1",
                  "MAX_TIME_DURATION is %s, expected %d" % (mt["val"], MAXTD))
    N = "temporal_rs::builtins::core::duration::normalized::NormalizedTimeDuration"
    nv = lambda x: H.V(N, (x,))
    DAYNS = 86_400_000_000_000
    producers = (
        ("from_nanosecond_difference", rs.fn1("NormalizedTimeDuration::from_nanosecond_difference"),
         ([MAXTD, 0], [MAXTD + 1, 0], [-MAXTD, 0], [-MAXTD - 1, 0])),
        ("add_days", rs.fn1("NormalizedTimeDuration::add_days"),
         ([nv(MAXTD % DAYNS), MAXTD // DAYNS], [nv(MAXTD % DAYNS + 1), MAXTD // DAYNS],
          [nv(-(MAXTD % DAYNS)), -(MAXTD // DAYNS)], [nv(-(MAXTD % DAYNS) - 1), -(MAXTD // DAYNS)])),
        ("checked_add", rs.fn1("NormalizedTimeDuration::checked_add"),
         ([nv(MAXTD - 1), 1], [nv(MAXTD), 1], [nv(-MAXTD + 1), -1], [nv(-MAXTD), -1])),
        ("checked_sub", rs.fn1("NormalizedTimeDuration::checked_sub"),
         ([nv(MAXTD - 1), nv(-1)], [nv(MAXTD), nv(-1)], [nv(-MAXTD + 1), nv(1)], [nv(-MAXTD), nv(1)])),
        ("Add::add", find_trait_fn(rs, N, "ops::arith::Add<temporal_rs::builtins::core::duration::normalized::NormalizedTimeDuration>", "add")
         or find_trait_fn(rs, N, "Add", "add") or next((g for g in rs.fns if g.name == "add" and (g.d.get("impl_self") or "") == N), None),
         ([nv(MAXTD - 1), nv(1)], [nv(MAXTD), nv(1)], [nv(-MAXTD + 1), nv(-1)], [nv(-MAXTD), nv(-1)])),
    )
    decided = 0
    for pname, pf, cases in producers:
        if pf is None:
            run.anchor_missing(rule, "max-time-duration/" + pname, "NormalizedTimeDuration::%s not found" % pname)
            continue
        for i, args in enumerate(cases):
            want_ok = i % 2 == 0
            got = fold(H.Evaluator(fx), pf, list(args))
            r = tri(run, rule, "max-time-duration/%s#%d" % (pname, i), got,
                    (got[0] == "ok") if want_ok else (got == ("err", "Range")),
                    "%s %s the cap" % (pname, "accepts a total at" if want_ok else "rejects a total one nanosecond beyond"),
                    "NormalizedTimeDuration::%s %s: got %s %s (the cap is abs(total) > 2^53 x 10^9 - 1 -> RangeError)" %
                    (pname, "rejects a total exactly at the cap" if want_ok else "accepts a total one nanosecond beyond the cap",
                     got[0], str(got[1])[:60]), pf.loc)
            decided += r is not None
    run.analysed["max_time_duration_cells_decided"] = decided
    # as_date_value
    adv = rs.fn("temporal_rs::primitive::FiniteF64::as_date_value")
    if adv is not None:
        F = "temporal_rs::primitive::FiniteF64"
        for v, want in ((2147483647.0, True), (2147483648.0, False), (-2147483648.0, True), (-2147483649.0, False)):
            k, r = fold(ev, adv, [H.V(F, (v,))])
            tri(run, rule, "as_date_value/%d" % int(v), (k, r), (k == "ok") == want and (want or r == "Range"),
                "as_date_value(%d) -> %s" % (v, k), "as_date_value(%d) -> %s %s" % (v, k, str(r)[:80]), adv.loc)
    else:
        run.anchor_missing(rule, "as_date_value", "not found")
    dr = rs.fn("temporal_rs::iso::IsoDate::is_valid_day_range")
    if dr is not None:
        # folded at +-10^8 days from the epoch and one day beyond
        for name, (y, m, dd), want in (("+275760-09-13", (275760, 9, 13), True), ("+275760-09-14", (275760, 9, 14), False),
                                       ("-271821-04-20", (-271821, 4, 20), True), ("-271821-04-19", (-271821, 4, 19), False)):
            got = fold(H.Evaluator(fx), dr, [H.S("temporal_rs::iso::IsoDate", (("year", y), ("month", m), ("day", dd)))])
            tri(run, rule, "day-range/" + name, got, (got[0] == "ok") if want else (got == ("err", "Range")),
                "is_valid_day_range(%s) %s" % (name, "accepts" if want else "is a RangeError"),
                "is_valid_day_range(%s) gives %s %s; the range is abs(epoch days) <= 10^8" % (name, got[0], str(got[1])[:60]), dr.loc)


def narrowing(run, fx):
    rule = "R9.lossy-narrowing"
    run.rule(rule, "no numeric cast silently changes a caller-controlled value: a float->integer or integer->integer cast whose "
                   "operand is an exactly known caller-controlled range must be able to represent that whole range (otherwise "
                   "the value saturates or wraps and a different, in-range result is produced instead of a RangeError)")
    # controls: the carry narrowed with `as` in the fixture crate must be reported, its range-checked twin must not
    ceng = intervals.analyse(fixture_facts("r9_control"), ("r9_control",))
    flagged = {p.rsplit("::", 1)[-1] for (p, k) in ceng.alarms if k[0] == "narrowing"}
    run.control(rule, "bad_narrow" in flagged, "fixtures/r9_control: bad_narrow must be reported (got %s)" % sorted(flagged))
    run.check(not ({"good_narrow", "good_flag"} & flagged), rule, "negative-control", "the range-checked casts of the control crate are not reported",
              "the engine reports the guarded cast of the control crate")
    res = intervals.results(fx)
    sites = [x for x in res["sites"] if x["kind"] == "narrowing"]
    sites += [x for x in intervals.results(fx, "temporal_capi")["sites"] if x["kind"] == "narrowing"]
    run.analysed["narrowing_casts"] = len(sites)
    if len(sites) < 100:
        run.anchor_missing(rule, "coverage", "only %d numeric casts analysed (expected >= 100)" % len(sites))
    for x in sites:
        key = "%s/cast#%d" % (x["fn"].replace("temporal_rs::", ""), x["ordinal"])
        loc = "%s:%s" % (x["file"], x["fn_line"])
        if x["status"] == 2:
            chain = " > ".join(c.replace("temporal_rs::", "").replace("builtins::core::", "") for c in x["chain"])
            run.bad(rule, key, "%s  [reached through: %s]" % (x["text"], chain), loc)
        elif x["status"] == 0:
            run.ok(rule, key, "the target type represents every value of the operand", loc)
        else:
            run.ok(rule, key, "operand of unknown provenance: not reported", loc, nontrivial=False)


def main(tier):
    run, fx = start("C02", tier)
    rs = fx["temporal_rs"]
    typestate.check(run, fx)
    check_swallowed(run, fx)
    check_validator_errors(run, fx, rs)
    check_limit_tables(run, fx, rs)
    run.assumptions += ["the trusted-producer table in tlint/rules/typestate.py (from_epoch_nanos of a valid instant)",
                        "values that already have a guarded type satisfy its invariant (this is what the rule establishes "
                        "inductively for every producer)"]
    narrowing(run, fx)
    return run.finish(EXPLANATION)
