"""C04 — PlainDate arithmetic (wiring, direction, defaults, validating constructors)."""
from ._std import *
from ..rules import wiring, units
from ..rules.common import hir_walk, node_line, OPT

EXPLANATION = (
    "Static wiring rules (R2/R11) on the type-checked HIR exported from /repo's current tree: subtract is add of the "
    "negated duration through the same kernel; until/since reach one kernel and differ only by the operation constant; "
    "inside the kernel the operation only feeds the option resolver and one final negation; the day distance is other - "
    "self and DifferenceISODate's sign is the negated comparison self vs other; the default overflow is constrain and "
    "the intermediate regulate of DifferenceISODate uses constrain; every success return of AddDate/CalendarDateAdd "
    "passes through the limit-validating constructor; weeks are converted to days by 7 (unit inference). These are "
    "necessary conditions of start.add(start.until(end)) == end, since == -until and subtract(d) == add(-d) for all "
    "inputs. NOT decided: the values computed by AddISODate / DifferenceISODate (month-end constrain, candidate loops)."
)


def main(tier):
    run, fx = start("C04", tier)
    rs = fx["temporal_rs"]
    T = "date::PlainDate"
    wiring.check_add_subtract(run, fx, rs, T, "add", "subtract")
    kernel = wiring.check_until_since(run, fx, rs, T, "until", "since")
    wiring.check_diff_kernel(run, fx, kernel)
    wiring.check_direction(run, fx, rs.fn(wiring.CORE + T + "::days_until"), "other", "self", "PlainDate::days_until")
    # DifferenceISODate: sign = -(self.cmp(other))
    rule = "R2.diff-sign"
    run.rule(rule, "DifferenceISODate's sign is the negated comparison of the receiver with the other date")
    f = rs.fn("temporal_rs::iso::IsoDate::diff_iso_date")
    if f is None:
        run.anchor_missing(rule, "diff_iso_date", "IsoDate::diff_iso_date not found")
    else:
        found = None
        for n in hir_walk(f.hir):
            if isinstance(n, dict) and n.get("k") == "let" and n["pat"].get("k") == "bind" and n["pat"]["name"] == "sign":
                found = n
                break
        ok = False
        desc = "no `sign` binding"
        if found:
            init = found["init"]
            neg = init.get("k") == "un" and init["op"] == "-"
            cmps = [x for x in hir_walk(init) if isinstance(x, dict) and x.get("k") == "mcall" and x["name"] == "cmp"]
            if neg and len(cmps) == 1:
                r, a = cmps[0]["recv"], cmps[0]["args"][0]
                rl = [x["res"].get("local") for x in hir_walk(r) if isinstance(x, dict) and x.get("k") == "path"]
                al = [x["res"].get("local") for x in hir_walk(a) if isinstance(x, dict) and x.get("k") == "path"]
                ok = rl == ["self"] and al == ["other"]
                desc = "sign = -(%s.cmp(%s))" % (rl, al)
            else:
                desc = "sign is not a negated single comparison"
        run.check(ok, rule, "IsoDate::diff_iso_date", desc, "DifferenceISODate: %s; expected -(self.cmp(other))" % desc,
                  f.loc)
        # intermediate regulate uses Constrain
        rule2 = "R2.constant-overflow"
        run.rule(rule2, "DifferenceISODate regulates its intermediate date with the constant constrain; AddDate defaults "
                        "the overflow option to constrain")
        calls = [x for x in hir_walk(f.hir) if isinstance(x, dict) and x.get("k") == "call"
                 and str(x.get("fn", "")).endswith("IsoDate::new_with_overflow")]
        okc = bool(calls) and all(c["args"][3].get("k") == "path" and
                                  str(c["args"][3]["res"].get("def", "")).endswith("ArithmeticOverflow::Constrain")
                                  for c in calls)
        run.check(okc, rule2, "diff_iso_date/regulate", "%d regulate call(s) with constant Constrain" % len(calls),
                  "DifferenceISODate's intermediate date is not regulated with the constant ArithmeticOverflow::Constrain",
                  f.loc)
    g = rs.fn(wiring.CORE + T + "::add_date")
    if g is None:
        run.anchor_missing("R2.constant-overflow", "add_date", "PlainDate::add_date not found")
    else:
        ev = H.Evaluator(fx)
        ev.inline = lambda p: False
        seen = set()
        for dec, res, tr in ev.paths(g, [H.Sym("param", ("self",)), H.Sym("param", ("duration",)), H.NONE_V]):
            for c in tr:
                nm = str(c.parts[0]).rsplit("::", 1)[-1]
                if nm in ("date_add", "add_date_duration"):
                    seen.add((nm, show(c.parts[1][-1])))
        run.check(seen and all(v == "ArithmeticOverflow::Constrain" for _, v in seen), "R2.constant-overflow",
                  "add_date/default", "absent overflow -> %s" % sorted(seen),
                  "AddDate with no overflow option passes %s to the kernels; the default is constrain" % sorted(seen), g.loc)
        # validating constructor on every success return
        rule3 = "R11.validated-result"
        run.rule(rule3, "every success return of AddDate / CalendarDateAdd is produced by a limit-validating constructor "
                        "(try_new / new_with_overflow) or by the calendar's date_add")
        allowed = ("PlainDate::try_new", "PlainDate::new_with_overflow", "Calendar::date_add")
        for fn, label in ((g, "PlainDate::add_date"), (rs.fn1("Calendar::date_add"), "Calendar::date_add")):
            if fn is None:
                run.anchor_missing(rule3, label, "function not found")
                continue
            leaves = result_leaves(fx, fn)
            oks = [l for l in leaves if l[0] in ("call", "value")]
            bad = [l[1] for l in oks if not (l[0] == "call" and l[1].endswith(allowed))]
            run.check(oks and not bad, rule3, label, "%d success path(s), all through %s" %
                      (len(oks), sorted({l[1].rsplit('::', 2)[-2] + '::' + l[1].rsplit('::', 1)[-1] for l in oks})),
                      "%s returns a date that did not pass the limit check: %s" % (label, bad), fn.loc)
    units.report(run, fx, "C04")
    run.assumptions += ["Duration::negated negates every field (checked under C09)"]
    return run.finish(EXPLANATION)
