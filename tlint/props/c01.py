"""C01 — ISO dates and the day timeline (order, floor decomposition, month/leap tables, kernel shift agreement)."""
from ._std import *
from ..rules import units
from ..rules.common import tri, opaque, hir_walk, node_line, fold

EXPLANATION = (
    "Static item, table and constant-agreement rules on the facts exported from /repo's current tree: the comparable "
    "value types derive Ord with their fields declared most-significant first, and compare_iso / compare_instant "
    "forward (self, other) unswapped to Ord::cmp; iso_days_in_month is the Gregorian month-length table (31/30/28+leap) "
    "and mathematical_days_in_year is the leap rule over all feasible valuations of y mod 4 / 100 / 400 (both signs); "
    "the additive day shift of the forward kernel (date -> epoch days) equals that of the inverse kernel, the two year "
    "shifts are equal, and year_shift / 400 x 146097 + 719468 equals the day shift (folded constants, not spellings); "
    "the epoch <-> fields path uses floor division only and its carry constants convert between the units of the fields "
    "they connect (unit inference). NOT decided: that the magic-constant Neri-Schneider kernel is the Gregorian "
    "bijection on all 2e8 days, day-of-week / week-of-year (delegated to icu_calendar), add-N-days-then-measure."
)
ORDERED = {
    "temporal_rs::iso::IsoDate": ["year", "month", "day"],
    "temporal_rs::iso::IsoTime": ["hour", "minute", "second", "millisecond", "microsecond", "nanosecond"],
    "temporal_rs::iso::IsoDateTime": ["date", "time"],
    "temporal_rs::epoch_nanoseconds::EpochNanoseconds": ["0"],
    "temporal_rs::builtins::core::instant::Instant": ["0"],
    "temporal_rs::builtins::core::time::PlainTime": ["iso"],
}


def check_order(run, fx, rs):
    rule = "R1.timeline-order"
    run.rule(rule, "IsoDate, IsoTime, IsoDateTime, EpochNanoseconds, Instant and PlainTime derive PartialOrd and Ord and "
                   "declare their fields most-significant first, so the derived lexicographic order is the timeline order")
    for ty, want in ORDERED.items():
        a = rs.adts.get(ty)
        short = ty.rsplit("::", 1)[-1]
        if a is None:
            run.anchor_missing(rule, short, "type not found")
            continue
        fields = [f["name"] for f in a["variants"][0]["fields"]]
        run.check(fields == want, rule, short + "/field-order", "fields %s" % fields,
                  "%s declares its fields as %s; the derived order needs %s" % (short, fields, want),
                  "%s:%s" % (a["span"]["f"], a["span"]["l"]))
        for tr in ("core::cmp::Ord", "core::cmp::PartialOrd"):
            imp = [i for i in rs.impls if i["self_ty"] == ty and i.get("trait") == tr]
            run.check(bool(imp) and all(i["derived"] for i in imp), rule, "%s/%s" % (short, tr.rsplit("::", 1)[-1]),
                      "%s is derived" % tr.rsplit("::", 1)[-1],
                      "%s has %s %s impl; a hand-written order must be shown to be the timeline order" %
                      (short, "a hand-written" if imp else "no", tr), "%s:%s" % (a["span"]["f"], a["span"]["l"]))
    rule2 = "R2.compare-forwarding"
    run.rule(rule2, "compare_iso / compare_instant return Ord::cmp of the receiver's ISO (or instant) field with the "
                    "other's, in that order")
    n = 0
    for f in rs.fns:
        if f.name in ("compare_iso", "compare_instant") and f.hir is not None:
            n += 1
            ev = H.Evaluator(fx)
            ev.inline = lambda p: False
            r = ev.call_fn(f, [H.Sym("param", (p["name"],)) for p in f.params])
            s = show(r)
            fld = "instant" if f.name == "compare_instant" else "iso"
            ok = s == "cmp[$self.%s, $other.%s]" % (fld, fld)
            run.check(ok, rule2, f.path.replace("temporal_rs::builtins::core::", ""), s,
                      "%s computes %s; expected cmp(self.%s, other.%s)" % (f.name, s, fld, fld), f.loc)
    if n < 4:
        run.anchor_missing(rule2, "compare-fns", "only %d compare_iso/compare_instant functions found" % n)


def check_month_leap(run, fx, rs):
    rule = "R1.month-length-table"
    run.rule(rule, "iso_days_in_month is 31 for months 1,3,5,7,8,10,12, 30 for 4,6,9,11 and 28 + leap-year flag for 2")
    f = rs.fn("temporal_rs::utils::iso_days_in_month")
    if f is None:
        run.anchor_missing(rule, "iso_days_in_month", "not found")
    else:
        ev = H.Evaluator(fx)
        ev.inline = lambda p: False
        for m in range(1, 13):
            try:
                r = ev.call_fn(f, [H.Sym("param", ("year",)), m])
            except H.Panic as p:
                r = "panic"
            if m == 2:
                # February: folded with everything inlined for one year per feasible valuation of the divisibility atoms
                # (4 | y, 100 | y, 400 | y) and both signs - the value, not the shape of the expression, is compared
                ev2 = H.Evaluator(fx)
                bad = []
                for y in (1, 2, 3, 4, 8, 100, 200, 300, 400, 800, 1900, 2000, 2023, 2024, 0, -1, -4, -100, -400, -271820, 275760):
                    want = 29 if (y % 4 == 0 and (y % 100 != 0 or y % 400 == 0)) else 28
                    k, v = fold(ev2, f, [y, 2])
                    if not (k == "val" and v == want):
                        bad.append("%d -> %s %s (expected %d)" % (y, k, v, want))
                und = [b for b in bad if "-> opaque" in b]
                if und:
                    run.ok(rule, "2", "February does not fold to a value: not decided", f.loc, nontrivial=False)
                else:
                    run.check(not bad, rule, "2", "February = 28 + leap flag of the same year (21 years folded)",
                              "February length is wrong: %s" % "; ".join(bad[:4]), f.loc)
            else:
                want = 31 if m in (1, 3, 5, 7, 8, 10, 12) else 30
                if H.has_sym(r):
                    # not a constant for a symbolic year: fold for two concrete years instead
                    rr = [fold(H.Evaluator(fx), f, [y, m]) for y in (2023, 2024)]
                    tri(run, rule, str(m), rr, all(x == ("val", want) for x in rr), "month %d = %d" % (m, want),
                        "month %d has %s days, expected %d" % (m, [x[1] for x in rr], want), f.loc)
                else:
                    run.check(r == want, rule, str(m), "month %d = %s" % (m, r), "month %d has %s days, expected %d" % (m, r, want),
                              f.loc)
        run.exhaustive_tables.append("iso_days_in_month (12 months)")
    rule2 = "R12.leap-year-rule"
    run.rule(rule2, "mathematical_days_in_year is 366 iff the year is divisible by 4 and (not by 100 or by 400), for every "
                    "feasible combination of the three divisibility atoms and both signs; mathematical_in_leap_year is "
                    "days_in_year - 365")
    g = rs.fn("temporal_rs::utils::mathematical_days_in_year")
    if g is None:
        run.anchor_missing(rule2, "mathematical_days_in_year", "not found")
    else:
        ev = H.Evaluator(fx)
        for y in (1, 2, 3, 4, 8, 100, 200, 300, 400, 800, 1900, 2000, 2023, 2024, 0, -1, -4, -100, -400, -271820, 275760):
            want = 366 if (y % 4 == 0 and (y % 100 != 0 or y % 400 == 0)) else 365
            k, v = fold(ev, g, [y])
            tri(run, rule2, "year/%d" % y, (k, v), k == "val" and v == want, "days_in_year(%d) = %s" % (y, v),
                "mathematical_days_in_year(%d) = %s %s, Gregorian rule gives %d" % (y, k, v, want), g.loc)
        run.exhaustive_tables.append("leap rule (4 atom valuations x 2 signs)")
    h = rs.fn("temporal_rs::utils::mathematical_in_leap_year")
    if h is not None:
        # folded at the first millisecond of one year per valuation of the divisibility atoms (values, not shapes)
        import datetime
        for y in (1970, 1972, 1900, 2000, 2023, 2024, 2100, 2400, 1600, 1, 4, 100, 400):
            t = (datetime.date(y, 1, 1) - datetime.date(1970, 1, 1)).days * 86_400_000
            want = 1 if (y % 4 == 0 and (y % 100 != 0 or y % 400 == 0)) else 0
            k, v = fold(H.Evaluator(fx), h, [float(t)])
            if k == "opaque":
                k, v = fold(H.Evaluator(fx), h, [t])
            tri(run, rule2, "in_leap_year/%d" % y, (k, v), k == "val" and v == want, "in_leap_year(start of %d) = %s" % (y, v),
                "mathematical_in_leap_year at the start of year %d is %s %s, the Gregorian rule gives %d" % (y, k, v, want), h.loc)


def addends(t):
    """(symbolic parts, integer sum) of a +/- chain"""
    if isinstance(t, int) and not isinstance(t, bool):
        return [], t
    if isinstance(t, H.Sym) and t.what in ("bin+", "bin-"):
        ls, lk = addends(t.parts[0])
        rs_, rk = addends(t.parts[1])
        if t.what == "bin-":
            return ls + [("neg", x) for x in rs_], lk - rk
        return ls + rs_, lk + rk
    if isinstance(t, H.Sym) and t.what == "cast":
        return addends(t.parts[0])
    return [t], 0


def check_kernel_shifts(run, fx, rs):
    rule = "R1.kernel-shift-agreement"
    run.rule(rule, "the additive day shift folded from epoch_days_from_gregorian_date equals the one folded from "
                   "rata_die_for_epoch_days, the year shift added in rata_die_first_equations equals the one returned by "
                   "rata_die_for_epoch_days, and year_shift / 400 x 146097 + 719468 == day_shift")
    N = "temporal_rs::utils::neri_schneider::"
    fwd, inv, first = rs.fn(N + "epoch_days_from_gregorian_date"), rs.fn(N + "rata_die_for_epoch_days"), \
        rs.fn(N + "rata_die_first_equations")
    if not all([fwd, inv, first]):
        run.anchor_missing(rule, "kernels", "Neri-Schneider kernel functions not found (fall back: functions reachable "
                           "from IsoDate::to_epoch_days / IsoDate::balance)")
        return
    ev = H.Evaluator(fx)
    ev.inline = lambda p: False
    r = ev.call_fn(fwd, [H.Sym("param", (p["name"],)) for p in fwd.params])
    _, k1 = addends(r)
    k1 = -k1
    r2 = ev.call_fn(inv, [H.Sym("param", ("epoch_days",))])
    k2 = c = None
    if isinstance(r2, H.T) and len(r2.items) == 2:
        _, k2 = addends(r2.items[0])
        c = r2.items[1] if isinstance(r2.items[1], int) else None
    r3 = ev.call_fn(first, [H.Sym("param", (p["name"],)) for p in first.params])
    y1 = None
    if isinstance(r3, H.T):
        _, y1 = addends(r3.items[0])
    ok = all(isinstance(x, int) and x != 0 for x in (k1, k2, c, y1))
    if not ok:
        run.bad(rule, "fold", "anchor-changed: the kernel shifts no longer fold to constants (day shifts %s / %s, year "
                              "shifts %s / %s)" % (k1, k2, y1, c), fwd.loc)
        return
    run.check(k1 == k2, rule, "day-shift", "forward and inverse day shift = %d" % k1,
              "forward kernel subtracts %d but the inverse kernel adds %d" % (k1, k2), fwd.loc)
    run.check(y1 == c, rule, "year-shift", "forward and inverse year shift = %d" % y1,
              "forward kernel adds %d to the year but the inverse kernel subtracts %d" % (y1, c), inv.loc)
    run.check(y1 % 400 == 0 and y1 // 400 * 146097 + 719468 == k1, rule, "shift-consistency",
              "%d/400 x 146097 + 719468 = %d" % (y1, k1),
              "year shift %d and day shift %d are inconsistent (expected %d)" % (y1, k1, y1 // 400 * 146097 + 719468), fwd.loc)


def check_floor_path(run, fx, rs):
    rule = "R5.epoch-decomposition-floor"
    run.rule(rule, "the functions on the epoch <-> fields path contain no truncating `/` or `%` on signed operands "
                   "(div_euclid / rem_euclid only); BalanceTime's div_mod is floor div/mod")
    names = ["temporal_rs::iso::IsoDateTime::from_epoch_nanos", "temporal_rs::iso::IsoDate::balance",
             "temporal_rs::iso::iso_date_to_epoch_days", "temporal_rs::iso::balance_iso_year_month",
             "temporal_rs::iso::IsoTime::balance", "temporal_rs::iso::div_mod", "temporal_rs::utils::epoch_ms_to_epoch_days",
             "temporal_rs::utils::epoch_days_for_year", "temporal_rs::builtins::core::instant::Instant::epoch_milliseconds"]
    for p in names:
        f = rs.fn(p)
        if f is None:
            run.anchor_missing(rule, p.rsplit("::", 1)[-1], "%s not found" % p)
            continue
        bad = [node_line(n) for n in hir_walk(f.hir) if isinstance(n, dict) and n.get("k") == "bin" and n["op"] in ("/", "%")
               and str(n.get("ty", "")).startswith("i")]
        run.check(not bad, rule, p.replace("temporal_rs::", ""), "no truncating division",
                  "%s uses truncating `/` or `%%` on a signed value at line(s) %s" % (f.name, bad), f.loc)
    dm = rs.fn("temporal_rs::iso::div_mod")
    if dm is not None:
        ev = H.Evaluator(fx)
        ev.inline = lambda p: False
        r = ev.call_fn(dm, [H.Sym("param", ("dividend",)), H.Sym("param", ("divisor",))])
        run.check(show(r) == "(div_euclid[$dividend, $divisor], rem_euclid[$dividend, $divisor])", rule, "div_mod/shape",
                  show(r), "div_mod computes %s; expected (div_euclid, rem_euclid)" % show(r), dm.loc)


def main(tier):
    run, fx = start("C01", tier)
    rs = fx["temporal_rs"]
    check_order(run, fx, rs)
    check_month_leap(run, fx, rs)
    check_kernel_shifts(run, fx, rs)
    check_floor_path(run, fx, rs)
    units.report(run, fx, "C01")
    run.assumptions += ["the constants 146097 (days per 400 years) and 719468 (computational rata die of 1970-01-01) of "
                        "the Neri-Schneider paper"]
    from ..rules import extra
    extra.check_iso_week_calculator(run, fx)
    return run.finish(EXPLANATION)
