"""C01 — ISO dates and the day timeline (order, floor decomposition, month/leap tables, kernel shift agreement)."""
from ._std import *
from ..rules import units
from ..rules.common import tri, opaque, hir_walk, node_line, fold, same_product

EXPLANATION = (
    "Static item, table and constant-agreement rules on the facts exported from /repo's current tree: the comparable "
    "value types derive Ord with their fields declared most-significant first, and compare_iso / compare_instant "
    "forward (self, other) unswapped to Ord::cmp; iso_days_in_month is the Gregorian month-length table (31/30/28+leap) "
    "and mathematical_days_in_year is the leap rule over all feasible valuations of y mod 4 / 100 / 400 (both signs); "
    "the additive day shift of the forward kernel (date -> epoch days) equals that of the inverse kernel, the two year "
    "shifts are equal, and year_shift / 400 x 146097 + 719468 equals the day shift (folded constants, not spellings); "
    "the epoch <-> fields path uses floor division only and its carry constants convert between the units of the fields "
    "they connect (unit inference). NOT decided: that the magic-constant Neri-Schneider kernel is the Gregorian "
    "bijection on all 2e8 days, day-of-week / week-of-year (delegated to icu_calendar), add-N-days-then-measure."
)
ORDERED = {
    "temporal_rs::iso::IsoDate": ["year", "month", "day"],
    "temporal_rs::iso::IsoTime": ["hour", "minute", "second", "millisecond", "microsecond", "nanosecond"],
    "temporal_rs::iso::IsoDateTime": ["date", "time"],
    "temporal_rs::epoch_nanoseconds::EpochNanoseconds": ["0"],
    "temporal_rs::builtins::core::instant::Instant": ["0"],
    "temporal_rs::builtins::core::time::PlainTime": ["iso"],
}


def check_order(run, fx, rs):
    rule = "R1.timeline-order"
    run.rule(rule, "IsoDate, IsoTime, IsoDateTime, EpochNanoseconds, Instant and PlainTime derive PartialOrd and Ord and "
                   "declare their fields most-significant first, so the derived lexicographic order is the timeline order")
    for ty, want in ORDERED.items():
        a = rs.adts.get(ty)
        short = ty.rsplit("::", 1)[-1]
        if a is None:
            run.anchor_missing(rule, short, "type not found")
            continue
        fields = [f["name"] for f in a["variants"][0]["fields"]]
        run.check(fields == want, rule, short + "/field-order", "fields %s" % fields,
                  "%s declares its fields as %s; the derived order needs %s" % (short, fields, want),
                  "%s:%s" % (a["span"]["f"], a["span"]["l"]))
        for tr in ("core::cmp::Ord", "core::cmp::PartialOrd"):
            imp = [i for i in rs.impls if i["self_ty"] == ty and i.get("trait") == tr]
            run.check(bool(imp) and all(i["derived"] for i in imp), rule, "%s/%s" % (short, tr.rsplit("::", 1)[-1]),
                      "%s is derived" % tr.rsplit("::", 1)[-1],
                      "%s has %s %s impl; a hand-written order must be shown to be the timeline order" %
                      (short, "a hand-written" if imp else "no", tr), "%s:%s" % (a["span"]["f"], a["span"]["l"]))
    rule2 = "R2.compare-forwarding"
    run.rule(rule2, "compare_iso / compare_instant return Ord::cmp of the receiver's ISO (or instant) field with the "
                    "other's, in that order")
    n = 0
    for f in rs.fns:
        if f.name in ("compare_iso", "compare_instant") and f.hir is not None:
            n += 1
            ev = H.Evaluator(fx)
            ev.inline = lambda p: False
            r = ev.call_fn(f, [H.Sym("param", (p["name"],)) for p in f.params])
            s = show(r)
            fld = "instant" if f.name == "compare_instant" else "iso"
            ok = s == "cmp[$self.%s, $other.%s]" % (fld, fld)
            run.check(ok, rule2, f.path.replace("temporal_rs::builtins::core::", ""), s,
                      "%s computes %s; expected cmp(self.%s, other.%s)" % (f.name, s, fld, fld), f.loc)
    if n < 4:
        run.anchor_missing(rule2, "compare-fns", "only %d compare_iso/compare_instant functions found" % n)


def check_month_leap(run, fx, rs):
    rule = "R1.month-length-table"
    run.rule(rule, "iso_days_in_month is 31 for months 1,3,5,7,8,10,12, 30 for 4,6,9,11 and 28 + leap-year flag for 2")
    f = rs.fn("temporal_rs::utils::iso_days_in_month")
    if f is None:
        run.anchor_missing(rule, "iso_days_in_month", "not found")
    else:
        ev = H.Evaluator(fx)
        ev.inline = lambda p: False
        for m in range(1, 13):
            try:
                r = ev.call_fn(f, [H.Sym("param", ("year",)), m])
            except H.Panic as p:
                r = "panic"
            if m == 2:
                # February: folded with everything inlined for one year per feasible valuation of the divisibility atoms
                # (4 | y, 100 | y, 400 | y) and both signs - the value, not the shape of the expression, is compared
                ev2 = H.Evaluator(fx)
                bad = []
                for y in (1, 2, 3, 4, 8, 100, 200, 300, 400, 800, 1900, 2000, 2023, 2024, 0, -1, -4, -100, -400, -271820, 275760):
                    want = 29 if (y % 4 == 0 and (y % 100 != 0 or y % 400 == 0)) else 28
                    k, v = fold(ev2, f, [y, 2])
                    if not (k == "val" and v == want):
                        bad.append("%d -> %s %s (expected %d)" % (y, k, v, want))
                und = [b for b in bad if "-> opaque" in b]
                if und:
                    run.ok(rule, "2", "February does not fold to a value: not decided", f.loc, nontrivial=False)
                else:
                    run.check(not bad, rule, "2", "February = 28 + leap flag of the same year (21 years folded)",
                              "February length is wrong: %s" % "; ".join(bad[:4]), f.loc)
            else:
                want = 31 if m in (1, 3, 5, 7, 8, 10, 12) else 30
                if H.has_sym(r):
                    # not a constant for a symbolic year: fold for two concrete years instead
                    rr = [fold(H.Evaluator(fx), f, [y, m]) for y in (2023, 2024)]
                    tri(run, rule, str(m), rr, all(x == ("val", want) for x in rr), "month %d = %d" % (m, want),
                        "month %d has %s days, expected %d" % (m, [x[1] for x in rr], want), f.loc)
                else:
                    run.check(r == want, rule, str(m), "month %d = %s" % (m, r), "month %d has %s days, expected %d" % (m, r, want),
                              f.loc)
        run.exhaustive_tables.append("iso_days_in_month (12 months)")
    rule2 = "R12.leap-year-rule"
    run.rule(rule2, "mathematical_days_in_year is 366 iff the year is divisible by 4 and (not by 100 or by 400), for every "
                    "feasible combination of the three divisibility atoms and both signs; mathematical_in_leap_year is "
                    "days_in_year - 365")
    g = rs.fn("temporal_rs::utils::mathematical_days_in_year")
    if g is None:
        run.anchor_missing(rule2, "mathematical_days_in_year", "not found")
    else:
        ev = H.Evaluator(fx)
        for y in (1, 2, 3, 4, 8, 100, 200, 300, 400, 800, 1900, 2000, 2023, 2024, 0, -1, -4, -100, -400, -271820, 275760):
            want = 366 if (y % 4 == 0 and (y % 100 != 0 or y % 400 == 0)) else 365
            k, v = fold(ev, g, [y])
            tri(run, rule2, "year/%d" % y, (k, v), k == "val" and v == want, "days_in_year(%d) = %s" % (y, v),
                "mathematical_days_in_year(%d) = %s %s, Gregorian rule gives %d" % (y, k, v, want), g.loc)
        run.exhaustive_tables.append("leap rule (4 atom valuations x 2 signs)")
    h = rs.fn("temporal_rs::utils::mathematical_in_leap_year")
    if h is not None:
        # folded at the first millisecond of one year per valuation of the divisibility atoms (values, not shapes)
        import datetime
        for y in (1970, 1972, 1900, 2000, 2023, 2024, 2100, 2400, 1600, 1, 4, 100, 400):
            t = (datetime.date(y, 1, 1) - datetime.date(1970, 1, 1)).days * 86_400_000
            want = 1 if (y % 4 == 0 and (y % 100 != 0 or y % 400 == 0)) else 0
            k, v = fold(H.Evaluator(fx), h, [float(t)])
            if k == "opaque":
                k, v = fold(H.Evaluator(fx), h, [t])
            tri(run, rule2, "in_leap_year/%d" % y, (k, v), k == "val" and v == want, "in_leap_year(start of %d) = %s" % (y, v),
                "mathematical_in_leap_year at the start of year %d is %s %s, the Gregorian rule gives %d" % (y, k, v, want), h.loc)


def addends(t):
    """(symbolic parts, integer sum) of a +/- chain"""
    if isinstance(t, int) and not isinstance(t, bool):
        return [], t
    if isinstance(t, H.Sym) and t.what in ("bin+", "bin-"):
        ls, lk = addends(t.parts[0])
        rs_, rk = addends(t.parts[1])
        if t.what == "bin-":
            return ls + [("neg", x) for x in rs_], lk - rk
        return ls + rs_, lk + rk
    if isinstance(t, H.Sym) and t.what == "cast":
        return addends(t.parts[0])
    return [t], 0


def check_kernel_shifts(run, fx, rs):
    rule = "R1.kernel-shift-agreement"
    run.rule(rule, "the additive day shift folded from epoch_days_from_gregorian_date equals the one folded from "
                   "rata_die_for_epoch_days, the year shift added in rata_die_first_equations equals the one returned by "
                   "rata_die_for_epoch_days, and year_shift / 400 x 146097 + 719468 == day_shift")
    N = "temporal_rs::utils::neri_schneider::"
    fwd, inv, first = rs.fn(N + "epoch_days_from_gregorian_date"), rs.fn(N + "rata_die_for_epoch_days"), \
        rs.fn(N + "rata_die_first_equations")
    if not all([fwd, inv, first]):
        run.anchor_missing(rule, "kernels", "Neri-Schneider kernel functions not found (fall back: functions reachable "
                           "from IsoDate::to_epoch_days / IsoDate::balance)")
        return
    ev = H.Evaluator(fx)
    ev.inline = lambda p: False
    r = ev.call_fn(fwd, [H.Sym("param", (p["name"],)) for p in fwd.params])
    _, k1 = addends(r)
    k1 = -k1
    r2 = ev.call_fn(inv, [H.Sym("param", ("epoch_days",))])
    k2 = c = None
    if isinstance(r2, H.T) and len(r2.items) == 2:
        _, k2 = addends(r2.items[0])
        c = r2.items[1] if isinstance(r2.items[1], int) else None
    r3 = ev.call_fn(first, [H.Sym("param", (p["name"],)) for p in first.params])
    y1 = None
    if isinstance(r3, H.T):
        _, y1 = addends(r3.items[0])
    ok = all(isinstance(x, int) and x != 0 for x in (k1, k2, c, y1))
    if not ok:
        run.bad(rule, "fold", "anchor-changed: the kernel shifts no longer fold to constants (day shifts %s / %s, year "
                              "shifts %s / %s)" % (k1, k2, y1, c), fwd.loc)
        return
    run.check(k1 == k2, rule, "day-shift", "forward and inverse day shift = %d" % k1,
              "forward kernel subtracts %d but the inverse kernel adds %d" % (k1, k2), fwd.loc)
    run.check(y1 == c, rule, "year-shift", "forward and inverse year shift = %d" % y1,
              "forward kernel adds %d to the year but the inverse kernel subtracts %d" % (y1, c), inv.loc)
    run.check(y1 % 400 == 0 and y1 // 400 * 146097 + 719468 == k1, rule, "shift-consistency",
              "%d/400 x 146097 + 719468 = %d" % (y1, k1),
              "year shift %d and day shift %d are inconsistent (expected %d)" % (y1, k1, y1 // 400 * 146097 + 719468), fwd.loc)


def check_floor_path(run, fx, rs):
    rule = "R5.epoch-decomposition-floor"
    run.rule(rule, "the functions on the epoch <-> fields path round towards minus infinity (floor division / Euclidean "
                   "remainder), not towards zero: each is folded on negative and positive representatives and compared with "
                   "floor arithmetic (a truncating `/` or `%` differs exactly on the negative non-multiples used here)")
    import datetime

    def days_from_civil(y, m, d):
        # proleptic Gregorian day number relative to 1970-01-01 (exact integer arithmetic; python's floor division)
        y -= m <= 2
        era = y // 400
        yoe = y - era * 400
        doy = (153 * (m + (-3 if m > 2 else 9)) + 2) // 5 + d - 1
        doe = yoe * 365 + yoe // 4 - yoe // 100 + doy
        return era * 146097 + doe - 719468
    IT = "temporal_rs::iso::IsoTime"

    def itime(h, mi, sec, ms, us, ns):
        return H.S(IT, (("hour", h), ("minute", mi), ("second", sec), ("millisecond", ms), ("microsecond", us), ("nanosecond", ns)))
    cases = []
    dm = rs.fn("temporal_rs::iso::div_mod")
    if dm is not None:
        for a in (-1, -999, -1000, -1001, 0, 999, 1000, 1999):
            cases.append(("div_mod(%d, 1000)" % a, dm, [a, 1000], H.T((a // 1000, a % 1000))))
    bal = rs.fn("temporal_rs::iso::IsoTime::balance")
    if bal is None:
        run.anchor_missing(rule, "IsoTime::balance", "not found")
    else:
        for args, (dd, tm) in (((0, 0, 0, 0, 0, -1), (-1, (23, 59, 59, 999, 999, 999))), ((0, 0, 0, 0, -1, 0), (-1, (23, 59, 59, 999, 999, 0))),
                               ((0, 0, 0, -1, 0, 0), (-1, (23, 59, 59, 999, 0, 0))), ((0, 0, -1, 0, 0, 0), (-1, (23, 59, 59, 0, 0, 0))),
                               ((0, -1, 0, 0, 0, 0), (-1, (23, 59, 0, 0, 0, 0))), ((-1, 0, 0, 0, 0, 0), (-1, (23, 0, 0, 0, 0, 0))),
                               ((-25, 0, 0, 0, 0, 0), (-2, (23, 0, 0, 0, 0, 0))), ((24, 0, 0, 0, 0, 1000), (1, (0, 0, 0, 0, 1, 0))),
                               ((0, 0, 0, 0, 0, -1000), (-1, (23, 59, 59, 999, 999, 0)))):
            cases.append(("BalanceTime%s" % (args,), bal, list(args), H.T((dd, itime(*tm)))))
    f = rs.fn("temporal_rs::utils::epoch_ms_to_epoch_days")
    if f is not None:
        for ms in (-1, -86_400_000, -86_400_001, 0, 86_399_999, 86_400_000):
            cases.append(("epoch_ms_to_epoch_days(%d)" % ms, f, [ms], ms // 86_400_000))
    f = rs.fn("temporal_rs::iso::balance_iso_year_month")
    if f is not None:
        for y, m in ((2000, 0), (2000, -11), (2000, -12), (2000, 13), (2000, 12), (2000, 1), (-1, -1)):
            cases.append(("BalanceISOYearMonth(%d, %d)" % (y, m), f, [y, m], H.T((y + (m - 1) // 12, (m - 1) % 12 + 1))))
    f = rs.fn("temporal_rs::utils::epoch_days_for_year")
    if f is not None:
        for y in (1970, 1969, 1968, 1901, 1900, 1601, 1600, 1, 0, -1, -3, -4, -100, -400, -271821, 275760):
            cases.append(("epoch_days_for_year(%d)" % y, f, [y], days_from_civil(y, 1, 1)))
    f = rs.fn("temporal_rs::iso::iso_date_to_epoch_days")
    if f is not None:
        # the month argument is an index that may be out of 0..12: moving it by a year's worth must be the same day
        for y, m, d in ((1970, -1, 1), (1970, -12, 15), (1970, 13, 1), (2000, -25, 29), (-1, -1, 1)):
            k = fold(H.Evaluator(fx), f, [y, m, d])
            k2 = fold(H.Evaluator(fx), f, [y + m // 12, m % 12, d])
            tri(run, rule, "iso_date_to_epoch_days(%d, %d, %d)" % (y, m, d), [k, k2], k == k2 and k[0] == "val",
                "= iso_date_to_epoch_days(%d, %d, %d)" % (y + m // 12, m % 12, d),
                "iso_date_to_epoch_days(%d, %d, %d) = %s but (%d, %d, %d) = %s: the month overflow must carry with floor division" %
                (y, m, d, k[1], y + m // 12, m % 12, d, k2[1]), f.loc)
    f = rs.fn("temporal_rs::builtins::core::instant::Instant::epoch_milliseconds")
    if f is not None:
        I = "temporal_rs::builtins::core::instant::Instant"
        E = "temporal_rs::epoch_nanoseconds::EpochNanoseconds"
        for ns in (-1, -999_999, -1_000_000, -1_000_001, 0, 999_999, 1_000_000):
            cases.append(("Instant(%d ns).epoch_milliseconds()" % ns, f, [H.V(I, (H.V(E, (ns,)),))], ns // 1_000_000))
    f = rs.fn("temporal_rs::iso::IsoDateTime::from_epoch_nanos")
    decided = 0
    for name, fn, args, want in cases:
        got = fold(H.Evaluator(fx), fn, args)
        r = tri(run, rule, name, got, got[0] in ("val", "ok") and same_product(got[1], want), "%s = %s" % (name, show(want)[:60]),
                "%s = %s, floor arithmetic gives %s" % (name, show(got[1])[:80] if got[0] != "err" else got, show(want)[:80]), fn.loc)
        decided += r is not None
    run.analysed["floor_path_cells_decided"] = decided
    if len(cases) < 30:
        run.anchor_missing(rule, "functions", "only %d floor-path cases could be set up (functions missing)" % len(cases))
    run.exhaustive_tables.append("floor-path representatives (negative non-multiples, multiples, positives)")


def main(tier):
    run, fx = start("C01", tier)
    rs = fx["temporal_rs"]
    check_order(run, fx, rs)
    check_month_leap(run, fx, rs)
    check_kernel_shifts(run, fx, rs)
    check_floor_path(run, fx, rs)
    from ..rules import extra as _x
    _x.check_from_epoch_nanos(run, fx)
    units.report(run, fx, "C01")
    run.assumptions += ["the constants 146097 (days per 400 years) and 719468 (computational rata die of 1970-01-01) of "
                        "the Neri-Schneider paper"]
    from ..rules import extra
    extra.check_iso_week_calculator(run, fx)
    return run.finish(EXPLANATION)
