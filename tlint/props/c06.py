"""C06 — times mod 24 h, instants on the epoch line (wiring, guards, floor, units)."""
from ._std import *
from ..rules import ranges, wiring, units
from ..rules.common import hir_walk, node_line, fold, tri

EXPLANATION = (
    "Static wiring (R2), dominance (R11), typestate (R6) and unit/floor (R4/R5) rules on the type-checked HIR exported "
    "from /repo's current tree: PlainTime and Instant subtract are add of the negated time duration through the same "
    "kernel; until/since share a kernel, differ by the operation constant and one final negation; the instant difference "
    "is other - self; Instant::add/subtract and PlainTime::add/subtract reach their kernels only behind the "
    "is_time_duration check whose failing side is a RangeError; AddInstant re-validates its sum through "
    "EpochNanoseconds::try_from; the six fields of a time duration are each scaled by the ratio of their own unit to "
    "nanoseconds; epoch milliseconds and the epoch-nanosecond decomposition use floor (div_euclid/rem_euclid), never "
    "truncating division. NOT decided: equality with exact big-integer arithmetic for all values (e.g. saturation of "
    "float fields in AddTime), balancing results."
)


def main(tier):
    run, fx = start("C06", tier)
    rs = fx["temporal_rs"]
    for T in ("time::PlainTime", "instant::Instant"):
        wiring.check_add_subtract(run, fx, rs, T, "add", "subtract")
        k = wiring.check_until_since(run, fx, rs, T, "until", "since")
        wiring.check_diff_kernel(run, fx, k)
        for m, kern in (("add", "add_time_duration"), ("subtract", "subtract_time_duration")):
            check_guarded_call(run, fx, rs.fn(wiring.CORE + T + "::" + m), "is_time_duration", "::" + kern,
                               "R11.time-duration-guard", "%s::%s" % (T.rsplit("::", 1)[-1], m), kind="Range",
                               guard_pass=True)       # the positive atom (negations are normalised by the path extractor)
    run.rule("R11.time-duration-guard", "Instant/PlainTime add and subtract reach the arithmetic only when "
                                        "`!duration.is_time_duration()` was decided false; otherwise a RangeError")
    # direction of the instant difference
    f = rs.fn(wiring.CORE + "instant::Instant::diff_instant_internal")
    rule = "R2.difference-direction"
    run.rule(rule, "a difference is computed as other - self (until semantics), never swapped")
    if f is None:
        run.anchor_missing(rule, "diff_instant_internal", "not found")
    else:
        t, tr = wiring.norm(fx, f)
        calls = [c for c in tr if str(c.parts[0]).endswith("from_nanosecond_difference")]
        ok = len(calls) == 1 and [sorted({x.parts[0] for x in walk(a) if isinstance(x, H.Sym) and x.what == "param"})
                                   for a in calls[0].parts[1]] == [["other"], ["self"]]
        run.check(ok, rule, "Instant::diff_instant_internal", "from_nanosecond_difference(other, self)",
                  "DifferenceInstant passes %s to from_nanosecond_difference; expected (other, self)" %
                  [show(a) for c in calls for a in c.parts[1]], f.loc)
    wiring.check_direction(run, fx, rs.fn1("NormalizedTimeDuration::from_nanosecond_difference"), "one", "two",
                           "from_nanosecond_difference")
    wiring.check_direction(run, fx, rs.fn("temporal_rs::iso::IsoTime::diff"), "other", "self", "IsoTime::diff")
    # AddInstant re-validates
    rule = "R6.add-instant-validated"
    run.rule(rule, "AddInstant returns its sum through EpochNanoseconds::try_from (range check) on every success path")
    g = rs.fn(wiring.CORE + "instant::Instant::add_to_instant")
    if g is None:
        run.anchor_missing(rule, "add_to_instant", "not found")
    else:
        t, tr = wiring.norm(fx, g)
        tf = [c for c in tr if "try_from" in str(c.parts[0]) and "EpochNanoseconds" in str(c.parts[0])]
        inside = any(isinstance(x, H.Sym) and x.what == "call" and x in tf for x in walk(t))
        sums = [x for c in tf for x in walk(c) if isinstance(x, H.Sym) and x.what == "bin+"]
        run.check(bool(tf) and inside and bool(sums), rule, "Instant::add_to_instant",
                  "result = try_from(epoch + duration)", "AddInstant's result %s does not pass through "
                  "EpochNanoseconds::try_from" % show(t)[:120], g.loc)
    # epoch milliseconds: floor
    rule = "R5.epoch-ms-floor"
    run.rule(rule, "Instant::epoch_milliseconds divides epoch nanoseconds by 10^6 with floor semantics")
    h = rs.fn(wiring.CORE + "instant::Instant::epoch_milliseconds")
    if h is None:
        run.anchor_missing(rule, "epoch_milliseconds", "not found")
    else:
        # folded on negative non-multiples, multiples and positives of 10^6 ns (values, not the shape of the division)
        I = "temporal_rs::builtins::core::instant::Instant"
        E = "temporal_rs::epoch_nanoseconds::EpochNanoseconds"
        for ns in (-1, -999_999, -1_000_000, -1_000_001, 0, 1, 999_999, 1_000_000, 1_000_001, -8_640_000_000_000_000_000_000):
            got = fold(H.Evaluator(fx), h, [H.V(I, (H.V(E, (ns,)),))])
            tri(run, rule, "Instant(%d ns)" % ns, got, got == ("val", ns // 1_000_000), "epoch_milliseconds = %d" % (ns // 1_000_000),
                "Instant(%d ns).epoch_milliseconds() = %s, floor(ns / 10^6) = %d" % (ns, got[1], ns // 1_000_000), h.loc)
    from ..rules import extra as _extra
    _extra.check_duration_field_tables(run, fx)
    _extra.check_seconds_subseconds(run, fx)
    units.report(run, fx, "C06")
    ranges.check_balance(run, fx)
    return run.finish(EXPLANATION)
