"""C13 — wall-clock <-> instant conversion (decision tables, unit hygiene, candidate-list guards)."""
from ..core import Run
from ..facts import Facts
from .. import hireval as H
from ..terms import show, walk
from ..rules import units, indexguard
from ..rules.common import OPT, vname, err_kind, is_err, hir_walk, node_line

D = OPT + "Disambiguation::"
OD = OPT + "OffsetDisambiguation::"

EXPLANATION = (
    "Static decision extraction (R12), unit inference (R4/R5), record totality (R3) and index-guard (R8) rules on the "
    "type-checked HIR exported from /repo's current tree. DisambiguatePossibleEpochNanoseconds' selection logic is "
    "enumerated path by path (list length tests and provider calls stay opaque) for all 4 disambiguation options x "
    "{one, several, no} candidates and compared with the specification table, including the direction of the gap shift "
    "(offsetAfter - offsetBefore, negated only for earlier); InterpretISODateTimeOffset's branch table over (start-of-day, "
    "exact/Z, offset present, 4 offset options) is compared with the specification; every UTC-offset-record to "
    "nanoseconds conversion reads hour, minute, second, fraction and sign with the right factors; every index into a "
    "candidate list is dominated by a length/emptiness guard. NOT decided: that the +-3 h probe finds the neighbouring "
    "valid times for arbitrary rule sets, nor any value computed from provider data."
)


def check_disambiguation(run, fx):
    rs = fx["temporal_rs"]
    rule = "R12.disambiguation-table"
    run.rule(rule, "DisambiguatePossibleEpochNanoseconds: one candidate -> it; several: compatible/earlier -> first, later "
                   "-> last, reject -> RangeError; none: reject -> RangeError, earlier -> wall time shifted by -(offsetAfter "
                   "- offsetBefore) and the first candidate, compatible/later -> shifted by +(offsetAfter - offsetBefore) "
                   "and the last candidate")
    f = rs.fn1("TimeZone::disambiguate_possible_epoch_nanos")
    if f is None:
        run.anchor_missing(rule, "disambiguate", "TimeZone::disambiguate_possible_epoch_nanos not found")
        return
    ev = H.Evaluator(fx)
    ev.inline = lambda p: p.startswith("temporal_rs::error::")
    lst = next((p["name"] for p in f.params if p["ty"].startswith("alloc::vec::Vec<") or p["ty"].lstrip("&").startswith("[")), None)
    dpi = next((i for i, p in enumerate(f.params) if p["ty"].endswith("options::Disambiguation")), None)
    if lst is None or dpi is None:
        run.anchor_missing(rule, "params", "candidate list / disambiguation parameters not found")
        return
    # the candidate list is given a concrete LENGTH (0, 1, 2 symbolic elements): length tests, indexing, first()/last(),
    # slice patterns all fold, whatever idiom the function uses to look at the list
    shapes = {"none": (), "one": (H.Sym("param", ("c0",)),), "several": (H.Sym("param", ("c0",)), H.Sym("param", ("c1",)))}
    for d in ("Compatible", "Earlier", "Later", "Reject"):
        want = {
            "one": {"first(given)"},
            "several": {"Compatible": {"first(given)"}, "Earlier": {"first(given)"}, "Later": {"last(given)"},
                        "Reject": {"Err(Range)"}}[d],
            "none": {"Compatible": {"last(shift +)", "Err(Range)"}, "Earlier": {"first(shift -)", "Err(Range)"},
                     "Later": {"last(shift +)", "Err(Range)"}, "Reject": {"Err(Range)"}}[d],
        }
        for case, items in shapes.items():
            args = [H.Sym("param", (p["name"],)) for p in f.params]
            args[dpi] = H.V(D + d, ())
            args[[p["name"] for p in f.params].index(lst)] = H.T(items)
            try:
                paths = ev.paths(f, args, max_paths=200)
            except H.Budget:
                run.ok(rule, "%s/%s" % (d, case), "too many paths: not decided", f.loc, nontrivial=False)
                continue
            g = set()
            for dec, res, tr in paths:
                if any(c.startswith("debug_assertion[") and ch is True for c, ch in dec):
                    continue            # a failing debug assertion: not a release path
                if isinstance(res, H.Panic):
                    g.add("panic")
                elif is_err(res):
                    g.add("Err(%s)" % err_kind(res))
                else:
                    g.add(classify_pick(res, lst, items))
            core_g = {x for x in g if x != "Err(Range)"} if case == "none" and d != "Reject" else g
            core_w = {x for x in want[case] if x != "Err(Range)"} if case == "none" and d != "Reject" else want[case]
            if any(x.startswith("?") or x.endswith("(shift ?)") for x in core_g):
                run.ok(rule, "%s/%s" % (d, case), "the selected candidate is not recognisable in %s: not decided" % sorted(g),
                       f.loc, nontrivial=False)
                continue
            run.check(core_g == core_w, rule, "%s/%s" % (d, case), "%s, %s candidate(s) -> %s" % (d, case, sorted(g)),
                      "%s with %s candidate(s) selects %s, specification: %s" % (d, case, sorted(g), sorted(want[case])),
                      f.loc)
    run.exhaustive_tables.append("DisambiguatePossibleEpochNanoseconds (4 options x 3 list shapes)")


def classify_pick(res, lst, items=()):
    """describe which candidate an Ok(..) result selects"""
    t = res.args[0] if isinstance(res, H.V) and res.path == H.OK else res
    if items:
        if t == items[0]:
            return "first(given)"
        if t == items[-1]:
            return "last(given)"
    # unwrap first()/last()/copied()/ok_or_else/try wrappers
    pick = None
    base = None
    for x in walk(t):
        if isinstance(x, H.Sym) and x.what == "index":
            base, idx = x.parts
            pick = "first" if idx == 0 else "last" if isinstance(idx, H.Sym) and idx.what == "bin-" else "idx?"
            break
        if isinstance(x, H.Sym) and x.what == "call" and isinstance(x.parts[0], str):
            nm = x.parts[0].rsplit("::", 1)[-1]
            if nm in ("first", "last") and x.parts[1]:
                pick, base = nm, x.parts[1][0]
                break
    if pick is None:
        return "?" + show(t)[:60]
    if show(base) == "$" + lst:
        return "%s(given)" % pick
    # a shifted probe: find NormalizedTimeDuration(+-(after - before))
    sign = None
    for x in walk(base):
        a = _ntd_payload(x)
        if a is not None:
            neg = isinstance(a, H.Sym) and a.what == "un-"
            inner = a.parts[0] if neg else a
            if isinstance(inner, H.Sym) and inner.what == "bin-":
                l, r = inner.parts
                dirn = direction(l), direction(r)
                if dirn == ("after", "before"):
                    sign = "-" if neg else "+"
                elif dirn == ("before", "after"):
                    sign = "+" if neg else "-"
    return "%s(shift %s)" % (pick, sign or "?")


def _ntd_payload(x):
    """the nanoseconds a NormalizedTimeDuration is built from, whether it is a tuple struct or has one named field"""
    if isinstance(x, H.V) and x.path.endswith("NormalizedTimeDuration") and len(x.args) == 1:
        return x.args[0]
    if isinstance(x, H.S) and x.path.endswith("NormalizedTimeDuration") and len(x.fields) == 1:
        return x.fields[0][1]
    return None


def direction(t):
    """does the offset term come from the probe 3 h after or before?"""
    for x in walk(t):
        a = _ntd_payload(x)
        if a is not None:
            v = None
            if isinstance(a, int):
                v = a
            elif isinstance(a, H.Sym) and a.what.startswith("bin*") and isinstance(a.parts[0], int):
                v = a.parts[0]
            if v is not None:
                return "after" if v > 0 else "before"
    return "?"


def check_interpret(run, fx):
    rs = fx["temporal_rs"]
    rule = "R12.offset-option-table"
    run.rule(rule, "InterpretISODateTimeOffset: no time -> start of day; exact (Z) or option=use -> the UTC instant of the "
                   "wall time minus the offset; no offset or option=ignore -> wall-clock resolution; prefer/reject -> "
                   "candidate matching")
    f = rs.fn1("zoneddatetime::interpret_isodatetime_offset")
    if f is None:
        run.anchor_missing(rule, "interpret_isodatetime_offset", "function not found")
        return
    ev = H.Evaluator(fx)
    ev.inline = lambda p: p.startswith("temporal_rs::error::")
    names = [p["name"] for p in f.params]
    need = ["time", "is_exact", "offset_nanos", "offset_option"]
    if any(n not in names for n in need):
        if not f.reachable:
            # a crate-private function whose parameters were re-modelled (a flag and an option merged into an enum): the
            # table is driven through those parameters, so it is not decided on this signature
            run.undecided.append({"rule": rule, "key": "params", "why": "the private function interpret_isodatetime_offset no "
                                  "longer takes %s (it takes %s): its decision table is not decided" % (need, names)})
            run.ok(rule, "not-decided/params", "private function with a re-modelled signature: not decided", f.loc, nontrivial=False)
            return
        run.anchor_missing(rule, "params", "parameters %s not all present" % need)
        return

    def leaf(res, tr):
        if isinstance(res, H.Panic):
            return "panic"
        calls = [c.parts[0].rsplit("::", 1)[-1] for c in tr if isinstance(c.parts[0], str)]
        t = res
        if is_err(res):
            if "get_possible_epoch_ns_for" in calls:
                return "match"
            return "Err(%s)" % err_kind(res)
        s = show(res)
        if "get_start_of_day" in s:
            return "start-of-day"
        if "IsoDateTime::balance" in s and "as_nanoseconds" in s:
            return "exact"
        if "disambiguate_possible_epoch_nanos" in s or "get_possible_epoch_ns_for" in " ".join(calls):
            return "match"
        if "get_epoch_nanoseconds_for" in s:
            return "wall"
        return s[:50]
    for has_time in (True, False):
        for exact in (True, False):
            for has_off in (True, False):
                for oo in ("Use", "Prefer", "Ignore", "Reject"):
                    if exact and has_off:
                        continue    # callers never pass both (Z carries no numeric offset)
                    if not has_time and has_off:
                        continue    # an offset without a time is refused by the callers' grammar
                    args = []
                    for p in f.params:
                        n = p["name"]
                        if n == "time":
                            args.append(H.some(H.Sym("param", ("time",))) if has_time else H.NONE_V)
                        elif n == "is_exact":
                            args.append(exact)
                        elif n == "offset_nanos":
                            args.append(H.some(H.Sym("param", ("offset",))) if has_off else H.NONE_V)
                        elif n == "offset_option":
                            args.append(H.V(OD + oo, ()))
                        else:
                            args.append(H.Sym("param", (n,)))
                    leaves = set()
                    try:
                        for dec, res, tr in ev.paths(f, args, max_paths=100):
                            lf = leaf(res, tr)
                            if lf.startswith("Err("):
                                continue
                            leaves.add(lf)
                    except H.Budget:
                        leaves = {"budget"}
                    if not has_time:
                        want = "start-of-day"
                    elif exact or (has_off and oo == "Use"):
                        want = "exact"
                    elif not has_off or oo == "Ignore":
                        want = "wall"
                    else:
                        want = "match"
                    key = "time=%s/exact=%s/offset=%s/%s" % (has_time, exact, has_off, oo)
                    run.check(leaves == {want}, rule, key, "-> %s" % sorted(leaves),
                              "time=%s Z=%s explicit-offset=%s option=%s takes the %s path, specification: %s" %
                              (has_time, exact, has_off, oo, sorted(leaves), want), f.loc)
    run.exhaustive_tables.append("InterpretISODateTimeOffset (2 x 3 x 4 cells)")


def check_offset_records(run, fx):
    rs = fx["temporal_rs"]
    rule = "R3.offset-record-totality"
    run.rule(rule, "every conversion of a parsed UtcOffsetRecord to nanoseconds reads hour, minute, second, fraction and "
                   "sign")
    n = 0
    for f in rs.fns:
        if f.hir is None:
            continue
        reads = {}
        for x in hir_walk(f.hir):
            if isinstance(x, dict) and x.get("k") == "field" and str(x.get("of", "")).lstrip("&").endswith(
                    "records::UtcOffsetRecord"):
                reads.setdefault(x["name"], node_line(x))
        if len(reads) < 2:
            continue
        if "fraction" not in reads and "second" not in reads:
            run.ok(rule, f.path, "minute-precision use of an offset record (reads %s)" % sorted(reads), f.loc,
                   nontrivial=False)
            continue
        n += 1
        missing = [k for k in ("hour", "minute", "second", "fraction", "sign") if k not in reads]
        run.check(not missing, rule, f.path, "reads %s" % sorted(reads), "UtcOffsetRecord conversion in %s never reads %s" %
                  (f.name, missing), "%s:%s" % (f.file, min(reads.values())))
    run.analysed["offset_record_conversions"] = n
    if n == 0:
        run.anchor_missing(rule, "sites", "no UtcOffsetRecord conversion found (3 on the inventory tree)")
    elif n < 3:
        # duplicates merged into one helper - or a conversion written in a form this rule does not see: every conversion it
        # does see is checked, the rest is not decided
        run.undecided.append({"rule": rule, "key": "sites", "why": "%d UtcOffsetRecord conversion site(s) found, 3 on the "
                              "inventory tree: the ones found read every field; a conversion in another form is not seen" % n})


def check_index_guards(run, fx):
    rs = fx["temporal_rs"]
    run.rule(indexguard.RULE, "every index into a candidate list obtained from the provider is dominated by a length or "
                              "emptiness check on the same list (debug assertions do not count)")
    n = 0
    for name in ("TimeZone::disambiguate_possible_epoch_nanos", "TimeZone::get_start_of_day",
                 "TimeZone::get_possible_epoch_ns_for", "TimeZone::get_epoch_nanoseconds_for"):
        f = rs.fn1(name)
        if f is None:
            run.anchor_missing(indexguard.RULE, name, "function not found")
            continue
        n += indexguard.check_fn(run, fx, f)
    # any other function of timezone.rs / zoneddatetime.rs that indexes a Vec<EpochNanoseconds>
    for f in rs.fns:
        if f.hir is None or f.file not in ("src/builtins/core/timezone.rs", "src/builtins/core/zoneddatetime.rs"):
            continue
        if f.path.endswith(("disambiguate_possible_epoch_nanos", "get_start_of_day")):
            continue
        if any(isinstance(x, dict) and x.get("k") == "index" and "EpochNanoseconds" in str(x.get("of", ""))
               for x in hir_walk(f.hir)):
            n += indexguard.check_fn(run, fx, f)
    run.analysed["index_sites"] = n


def main(tier):
    run = Run("C13", tier)
    fx = Facts("full")
    run.tree_hash = fx.hash
    run.configs.append({"config": "full", "crates": fx.summary()})
    check_disambiguation(run, fx)
    check_interpret(run, fx)
    check_offset_records(run, fx)
    check_index_guards(run, fx)
    units.report(run, fx, "C13")
    run.assumptions += ["the specification tables transcribed in tlint/props/c13.py",
                        "names state units (R4 seeds)"]
    from ..rules import siblings
    siblings.check_offset_rounding(run, fx)
    from ..rules import extra as _x
    _x.check_from_epoch_nanos(run, fx)
    siblings.check_offset_minutes_by_value(run, fx)
    siblings.check_day_carry(run, fx)
    siblings.check_offset_sign(run, fx)
    from ..rules import extra
    extra.check_candidates_sorted(run, fx)
    return run.finish(EXPLANATION)
