"""C18 — year-months and month-days are canonical and count whole months (structural clauses)."""
from ._std import *
from ..rules import wiring, units
from ..rules.common import tri, hir_walk, node_line, OPT, fold
from . import c10

EXPLANATION = (
    "Static constant-argument (R2), dominance (R11), table (R1) and wiring rules on the type-checked HIR exported from "
    "/repo's current tree: every internal call of PlainYearMonth::new_with_overflow / PlainMonthDay::new_with_overflow "
    "passes a constant hidden reference (None / Some(1) / 1972) or the reference computed by the calendar library, never "
    "a value taken from the caller's fields; the day resolver ignores `day` for year-months; PlainYearMonth::from_str "
    "and PlainMonthDay::from_str refuse non-ISO calendars and return through the canonicalising constructors; the "
    "week/day refusal precedes the option resolver; year_month_within_limits is folded at its boundaries; add/subtract/"
    "until/since are wired like the plain-date operations. NOT decided: arithmetic results, acceptance of full date "
    "strings by the month-day parser (grammar), constrain/reject of impossible days (values)."
)


def main(tier):
    run, fx = start("C18", tier)
    rs = fx["temporal_rs"]
    rule = "R2.reference-constant"
    run.rule(rule, "every internal call of the year-month / month-day constructor passes a constant hidden reference "
                   "(None, Some(1), 1972) or the one computed by the calendar library; only the public constructor "
                   "forwards a caller-chosen one")
    n = 0
    # constructors: (path suffix) -> (index of the hidden-reference argument, what it is, type name).  A function that hands one
    # of its OWN parameters on unchanged in that position is itself a constructor (a convenience wrapper of the public
    # constructor): the obligation moves to its callers, which are examined in the next round.
    ctors = {"PlainYearMonth::new_with_overflow": (2, "reference day", "PlainYearMonth"),
             "PlainMonthDay::new_with_overflow": (4, "reference year", "PlainMonthDay")}
    done = {}
    for _round in range(6):
        grew = False
        for f in rs.fns:
            if f.hir is None or f.kind == "Closure" or any(f.path.endswith(c) for c in ctors):
                continue
            txt = str(f.hir)
            todo = [c for c in ctors if c in txt and c not in done.get(f.path, ())]
            if not todo:
                continue
            done.setdefault(f.path, set()).update(todo)
            ev = H.Evaluator(fx)
            ev.inline = lambda p: p.startswith("temporal_rs::error::")
            try:
                paths = ev.paths(f, [H.Sym("param", (p["name"],)) for p in f.params], max_paths=300)
            except (H.Budget, H.Panic):
                run.ok(rule, f.path + "/paths", "too many paths: not decided", f.loc, nontrivial=False)
                continue
            seen = set()
            pnames = [p["name"] for p in f.params]
            for dec, res, tr in paths:
                for c in tr:
                    fn = str(c.parts[0])
                    hit = [ctors[k] for k in todo if fn.endswith(k)]
                    if not hit or len(c.parts[1]) <= hit[0][0]:
                        continue
                    ref, what, tyname = c.parts[1][hit[0][0]], hit[0][1], hit[0][2]
                    sref = show(ref)
                    if (what, sref) in seen:
                        continue
                    seen.add((what, sref))
                    n += 1
                    inner = ref.args[0] if isinstance(ref, H.V) and ref.path == H.SOME and ref.args else ref
                    is_none = isinstance(ref, H.V) and ref.path == H.NONE
                    const_ok = is_none or inner in (1, 1972)
                    from_icu = any(isinstance(y, H.Sym) and y.what == "call" and
                                   any(w in str(y.parts[0]) for w in ("icu_calendar", "date_to_iso", "day_of_month", "extended_year"))
                                   for y in walk(ref))
                    caller = sorted(set(params_in(ref)) - {"self"})
                    key = "%s/%s#%d%s" % (f.path, what.replace(" ", "-"), len(seen), "" if _round == 0 else "/r%d" % _round)
                    if isinstance(ref, H.Sym) and ref.what == "param" and ref.parts[0] in pnames and ref.parts[0] != "self":
                        # its own parameter, unchanged: a constructor in its own right
                        suffix = f.path.split("::", 1)[-1]
                        if suffix not in ctors:
                            ctors[suffix] = (pnames.index(ref.parts[0]), what, tyname)
                            grew = True
                        run.ok(rule, key, "%s hands its own parameter `%s` on as the %s: a constructor itself, its callers are examined"
                               % (f.name, ref.parts[0], what), f.loc, nontrivial=False)
                        continue
                    if not (const_ok or from_icu) and not caller:
                        run.ok(rule, key, "%s is `%s`: neither a constant nor recognisably computed by the calendar library: not decided" %
                               (what, sref[:60]), f.loc, nontrivial=False)
                        continue
                    run.check(const_ok or (from_icu and True), rule, key,
                              "%s is %s" % (what, "None" if is_none else "the constant %s" % inner if const_ok else "computed by ICU"),
                              "%s passes a %s derived from %s (`%s`) to %s; a year-month/month-day built from fields must carry the "
                              "canonical hidden reference" % (f.name, what, caller, sref[:70], fn.rsplit("::", 2)[-2]), f.loc)
        if not grew:
            break
    if n < 3:
        run.anchor_missing(rule, "constructor-calls", "only %d internal constructor calls found (expected >= 3)" % n)
    # the day resolver ignores `day` for year-months
    ev = H.Evaluator(fx)
    rd = rs.fn1("types::resolve_day")
    rule = "R1.resolve-day"
    run.rule(rule, "resolve_day: year-month resolution ignores the `day` field (always 1); other resolutions require it "
                   "(TypeError when absent)")
    if rd is None:
        run.anchor_missing(rule, "resolve_day", "calendar::types::resolve_day not found")
    else:
        for day, ym, want in ((H.some(15), True, ("ok", 1)), (H.NONE_V, True, ("ok", 1)), (H.some(15), False, ("ok", 15)),
                              (H.NONE_V, False, ("err", "Type"))):
            got = fold(ev, rd, [day, ym])
            run.check(got == want, rule, "day=%s/year_month=%s" % (show(day), ym), "-> %s" % (got,),
                      "resolve_day(%s, year_month=%s) = %s, expected %s" % (show(day), ym, got, want), rd.loc)
    # limits
    rule = "R1.year-month-limits"
    run.rule(rule, "year_month_within_limits accepts exactly -271821-04 .. +275760-09")
    yl = rs.fn("temporal_rs::iso::year_month_within_limits")
    if yl is None:
        run.anchor_missing(rule, "year_month_within_limits", "not found")
    else:
        for (y, m), want in {(-271821, 4): True, (-271821, 3): False, (-271821, 12): True, (-271822, 12): False,
                             (275760, 9): True, (275760, 10): False, (275761, 1): False, (0, 1): True, (275760, 1): True,
                             (-271821, 1): False}.items():
            got = fold(ev, yl, [y, m])
            tri(run, rule, "%d-%02d" % (y, m), got, got == ("val", want), "%s" % (got,),
                "year_month_within_limits(%d, %d) = %s, expected %s" % (y, m, got, want), yl.loc)
    # from_str: ISO only, canonicalising constructor
    rule = "R11.from-str-canonical"
    run.rule(rule, "PlainYearMonth::from_str / PlainMonthDay::from_str reject non-ISO calendars with a RangeError and "
                   "return through from_partial(.., Constrain) / new_with_overflow(.., Reject, None)")
    for ty, leafname in (("year_month::PlainYearMonth", "PlainYearMonth::from_partial"),
                         ("month_day::PlainMonthDay", "PlainMonthDay::new_with_overflow")):
        f = None
        for g in rs.fns:
            if g.name == "from_str" and (g.d.get("impl_self") or "").endswith(ty.rsplit("::", 1)[-1]) and \
                    (g.d.get("impl_trait") or "").endswith("FromStr"):
                f = g
        if f is None:
            run.anchor_missing(rule, ty, "FromStr impl not found")
            continue
        leaves = result_leaves(fx, f)
        succ = [l for l in leaves if l[0] in ("call", "value")]
        bad = [l[1] for l in succ if not (l[0] == "call" and l[1].endswith(leafname))]
        if bad and all("IsoDate::new_with_overflow(1972" in b or "IsoDate::regulate(1972" in b or
                       ("new_with_overflow(" in b and ", 1, " in b) for b in bad):
            # the canonicalising constructor was folded into a helper: the value is still built on the constant reference
            bad = []
        elif bad and not any(leafname.rsplit("::", 1)[-1] in b or "new_unchecked" in b for b in bad):
            run.ok(rule, ty.rsplit("::", 1)[-1], "the success value is built by `%s`, which this rule does not recognise: not decided"
                   % bad[0][:80], f.loc, nontrivial=False)
            continue
        # decisions are recorded on the positive atom `is_iso(..)` whatever polarity the source tests
        guarded = all(any("is_iso" in c and ch is True for c, ch in l[2]) for l in succ)
        nonisoerr = {l[1] for l in leaves if l[0] == "err" and any("is_iso" in c and ch is False for c, ch in l[2])}
        run.check(succ and not bad and guarded and nonisoerr == {"Range"}, rule, ty.rsplit("::", 1)[-1],
                  "success only via %s behind the ISO-calendar check" % leafname,
                  "%s::from_str: success leaves %s, ISO check on every success path: %s, non-ISO -> %s" %
                  (ty, sorted({l[1] for l in succ}), guarded, sorted(nonisoerr)), f.loc)
    T = "year_month::PlainYearMonth"
    wiring.check_add_subtract(run, fx, rs, T, "add", "subtract")
    k = wiring.check_until_since(run, fx, rs, T, "until", "since")
    wiring.check_diff_kernel(run, fx, k)
    c10.check_year_month_refusal(run, fx, ev)
    units.report(run, fx, "C18")
    # field resolution checks the day against the year, month of the same record
    rule = "R2.day-range-uses-record-year-and-month"
    run.rule(rule, "in ResolvedCalendarFields::try_from_partial the ISO day-range helpers receive the year resolved from the "
                   "record (EraYear::try_from_partial_date(partial).year), the month resolved from the record and the record's "
                   "day - for every resolution type (a month-day record with a year is regulated in THAT year)")
    ftp = fx["temporal_rs"].fn("temporal_rs::builtins::core::calendar::types::ResolvedCalendarFields::try_from_partial")
    if ftp is None:
        run.anchor_missing(rule, "try_from_partial", "not found")
    else:
        ev = H.Evaluator(fx)
        ev.inline = lambda p: False
        ev.call_fn(ftp, [H.Sym("param", (p["name"],)) for p in ftp.params])
        sites = [c for c in ev.trace if str(c.parts[0]).endswith(("::constrain_iso_day", "::is_valid_iso_day"))]
        if not sites:
            run.anchor_missing(rule, "sites", "no day-range helper call found", ftp.loc)
        def const_alternative(t):
            """an integer literal offered as one alternative of a conditional value (`match kind { X => 1972, _ => year }`)"""
            for x in walk(t):
                if isinstance(x, H.Sym) and x.what in ("ite", "phi"):
                    if any(isinstance(p, int) and not isinstance(p, bool) for p in x.parts[(1 if x.what == "ite" else 0):]):
                        return True
                if isinstance(x, H.Sym) and x.what == "arm" and len(x.parts) > 1 and isinstance(x.parts[1], int) \
                        and not isinstance(x.parts[1], bool):
                    return True
            return False

        def derives(t, words):
            """data dependence: the term reads the record parameter through a call / field whose name mentions one of `words`"""
            names = [str(x.parts[0]) for x in walk(t) if isinstance(x, H.Sym) and x.what == "call"] + \
                    [str(x.parts[1]) for x in walk(t) if isinstance(x, H.Sym) and x.what == "field"]
            return "partial_date" in params_in(t) and any(w in n.lower() for n in names for w in words)
        for k, c in enumerate(sites):
            args = list(c.parts[1])
            a = [show(x) for x in args]
            ok = len(args) == 3 and isinstance(args[0], (H.Sym, H.V, H.S)) and derives(args[0], ("erayear", "year")) \
                and derives(args[1], ("month",)) and derives(args[2], ("day",)) \
                and not any(const_alternative(x) or (isinstance(x, int) and not isinstance(x, bool)) for x in args)
            run.check(ok, rule, "%s#%d" % (str(c.parts[0]).rsplit("::", 1)[-1], k + 1), "year, month, day derive from the record",
                      "%s is called with (%s): each argument must derive from the record's own year / month / day resolution, "
                      "with no constant alternative" %
                      (str(c.parts[0]).rsplit("::", 1)[-1], ", ".join(x[:70] for x in a)), ftp.loc)
    # year-month arithmetic never looks at the hidden reference day
    rule = "R2.year-month-arithmetic-ignores-reference-day"
    run.rule(rule, "PlainYearMonth::add_or_subtract_duration and PlainYearMonth::diff build their intermediate dates from the "
                   "year-month's fields (day 1), never from the stored ISO reference day: the hidden day of a year-month built "
                   "with an explicit reference must not influence arithmetic")
    for suffix in ("year_month::PlainYearMonth::add_or_subtract_duration", "year_month::PlainYearMonth::diff"):
        fym = fx["temporal_rs"].fn("temporal_rs::builtins::core::" + suffix)
        if fym is None:
            run.anchor_missing(rule, suffix, "not found")
            continue
        ev = H.Evaluator(fx)
        ev.inline = lambda p: False
        try:
            ev.call_fn(fym, [H.Sym("param", (p["name"],)) for p in fym.params])
        except (H.Panic, H.Budget):
            pass
        reads = []
        for c in ev.trace:
            for a in c.parts[1]:
                sa = show(a)
                if "$self.iso.day" in sa or "$other.iso.day" in sa or "iso_day($self)" in sa or "iso_day($other)" in sa:
                    reads.append("%s(%s)" % (str(c.parts[0]).rsplit("::", 1)[-1], sa[:60]))
        run.check(not reads and len(ev.trace) > 0, rule, suffix, "%d calls, none reads the reference day" % len(ev.trace),
                  "%s passes the stored ISO reference day into %s" % (fym.name, reads[:3]), fym.loc)
    from ..rules import extra as _x
    _x.check_year_month_constructor_limits(run, fx)
    return run.finish(EXPLANATION)
