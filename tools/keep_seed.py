#!/usr/bin/env python3
"""usage: tools/keep_seed.py <seed-out-dir>...  — copy a confirmed seeded change (verified.json says confirmed) to
/verif/seeded/<property>/<n>/ with patch.diff, demo.rs and a meta.json that records what was run to confirm it."""
import json, os, shutil, sys
VERIF = os.path.dirname(os.path.dirname(os.path.abspath(__file__)))
OFFSET = 0
ARGS = sys.argv[1:]
if '--offset' in ARGS:
    i = ARGS.index('--offset')
    OFFSET = int(ARGS[i + 1])
    del ARGS[i:i + 2]
for sd in ARGS:
    sd = sd.rstrip("/")
    v = json.load(open(os.path.join(sd, "verified.json")))
    if not v.get("confirmed"):
        print("NOT confirmed, skipped:", sd)
        continue
    meta = json.load(open(os.path.join(sd, "meta.json")))
    pid, n = meta["property"], str(int(os.path.basename(sd)) + OFFSET)
    dest = os.path.join(VERIF, "seeded", pid, n)
    os.makedirs(dest, exist_ok=True)
    shutil.copy(os.path.join(sd, "patch.diff"), dest)
    shutil.copy(os.path.join(sd, "demo.rs"), dest)
    out = {"property": pid, "summary": meta.get("summary"), "needs": meta.get("needs"),
           "demo_file": "%stests/%s.rs (copy demo.rs there)" % ("temporal_capi/" if "-p temporal_capi" in v["demo_cmd"] else "",
                                                                  v["demo_cmd"].split("--test ")[1].split()[0]),
           "demo_cmd": v["demo_cmd"], "round": (1 if not OFFSET else 2 if OFFSET == 3 else 3), "author": "fresh sub-agent given only the property text and a scratch worktree",
           "confirmed_by_me": {"base_commit": v["head"], "scratch_worktree": "/tmp/seedv (removed afterwards)",
                               "ran": ["git apply patch.diff", "cargo build --workspace --offline",
                                       "cargo build --offline --features compiled_data", v["demo_cmd"] + "  (with patch: fails)",
                                       "cargo test --workspace --no-fail-fast --offline  (with patch: passes)",
                                       v["demo_cmd"] + "  (without patch: passes)"],
                               "demo_with_patch": v["demo_with_patch"], "demo_without_patch": v["demo_without_patch"],
                               "demo_failure": v.get("demo_failure"), "suite_with_patch": v["suite_with_patch"]}}
    json.dump(out, open(os.path.join(dest, "meta.json"), "w"), indent=1)
    print("kept", pid, n)
