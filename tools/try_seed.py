#!/usr/bin/env python3
"""usage: tools/try_seed.py <patch.diff> [--props C01,C02] — apply a change to a scratch copy of /repo's working tree (system
temporary directory, removed afterwards), run the quick checks against the copy and print which properties report a
violation.  /repo itself is not touched."""
import concurrent.futures as cf
import json, os, shutil, subprocess, sys, tempfile
VERIF = os.path.dirname(os.path.dirname(os.path.abspath(__file__)))
sys.path.insert(0, os.path.join(VERIF, "tools"))
from seed_matrix import run_check, REPO


def main():
    patch = os.path.abspath(sys.argv[1])
    man = json.load(open(os.path.join(VERIF, "MANIFEST.json")))
    props = [c["property_id"] for c in man["checks"]]
    if "--props" in sys.argv:
        props = sys.argv[sys.argv.index("--props") + 1].split(",")
    root = tempfile.mkdtemp(prefix="verif-tryseed.")
    work = os.path.join(root, "w")
    try:
        subprocess.run(["rsync", "-a", "--exclude", "/target", "--exclude", ".git", REPO + "/", work + "/"], check=True)
        a = subprocess.run(["git", "apply", "--whitespace=nowarn", patch], cwd=work, capture_output=True, text=True)
        if a.returncode != 0:
            print("patch does not apply:", a.stderr[:300])
            return 2
        first = run_check(props[0], work)
        res = [first]
        with cf.ThreadPoolExecutor(max_workers=6) as ex:
            res += list(ex.map(lambda p: run_check(p, work), props[1:]))
        caught = []
        for pid, rc, viol, dt in res:
            if rc == 1:
                caught.append(pid)
                for v in viol[:4]:
                    print("  %s %s" % (pid, v[:300]))
            elif rc != 0:
                print("  %s BROKEN (exit %s)" % (pid, rc))
        print("CAUGHT-BY:", ",".join(caught) or "-")
        return 0
    finally:
        shutil.rmtree(root, ignore_errors=True)


if __name__ == "__main__":
    sys.exit(main())
