#!/usr/bin/env python3
"""usage: tools/try_seed.py <patch.diff> [--props C01,C02] — apply a seeded change to /repo, run the quick checks,
report which properties raise a violation, and undo the change (always)."""
import concurrent.futures as cf
import json
import os
import subprocess
import sys

VERIF = os.path.dirname(os.path.dirname(os.path.abspath(__file__)))
REPO = "/repo"


def run_check(pid):
    p = subprocess.run([os.path.join(VERIF, "checks", "run"), pid, "quick"], capture_output=True, text=True, cwd=VERIF)
    viol = [l for l in p.stdout.splitlines() if l.startswith("  at ") or l.startswith("VIOLATION")]
    return pid, p.returncode, viol, p.stdout[-400:] + p.stderr[-400:]


def main():
    patch = sys.argv[1]
    props = None
    if "--props" in sys.argv:
        props = sys.argv[sys.argv.index("--props") + 1].split(",")
    man = json.load(open(os.path.join(VERIF, "MANIFEST.json")))
    allp = [c["property_id"] for c in man["checks"]]
    props = props or allp
    st = subprocess.run(["git", "-C", REPO, "status", "--porcelain"], capture_output=True, text=True).stdout.strip()
    if st:
        print("refusing: /repo has local changes:\n" + st)
        return 2
    a = subprocess.run(["git", "-C", REPO, "apply", "--whitespace=nowarn", patch], capture_output=True, text=True)
    if a.returncode != 0:
        print("patch does not apply:", a.stderr)
        return 2
    out = {}
    try:
        # first one exports the facts, the rest reuse them
        first = run_check(props[0])
        out[first[0]] = first
        with cf.ThreadPoolExecutor(max_workers=6) as ex:
            for r in ex.map(run_check, props[1:]):
                out[r[0]] = r
    finally:
        subprocess.run(["git", "-C", REPO, "checkout", "--", "."], check=True)
        subprocess.run(["git", "-C", REPO, "clean", "-fdq", "tests"], check=False)
    caught = [p for p in props if out[p][1] == 1]
    broken = [p for p in props if out[p][1] not in (0, 1)]
    print("CAUGHT-BY:", ",".join(caught) or "-")
    if broken:
        print("CHECK-BROKEN:", ",".join(broken))
        for p in broken:
            print(out[p][3])
    for p in caught:
        for l in out[p][2][:6]:
            if l.startswith("  at "):
                print("  [%s]%s" % (p, l[:260]))
    return 0


if __name__ == "__main__":
    sys.exit(main())
