#!/usr/bin/env python3
"""Regenerates /verif/MANIFEST.json from tools/claims.json (the per-property claim texts)."""
import json
import os

HERE = os.path.dirname(os.path.abspath(__file__))
VERIF = os.path.dirname(HERE)
claims = json.load(open(os.path.join(HERE, "claims.json")))
props = [json.loads(l) for l in open(os.path.join(VERIF, "properties.jsonl")) if l.strip()]

checks = []
na = []
for p in props:
    pid = p["id"]
    c = claims.get(pid)
    if not c or c.get("not_applicable"):
        na.append({"property_id": pid, "reason": (c or {}).get("not_applicable", "no static rule built for this property yet")})
        continue
    checks.append({
        "property_id": pid,
        "quick_cmd": "./checks/run %s quick" % pid,
        "thorough_cmd": "./checks/run %s thorough" % pid,
        "evidence_file": "/verif/evidence/%s.json" % pid,
        "replay_cmd_template": "./checks/explain {path}",
        "engine": "tlint",
        "level_claimed": {"category": "other", "text": c["text"], "design_ref": c.get("design_ref", "DESIGN.md §4 " + pid)},
        "level_note": c["note"],
        "technique": c["technique"],
    })

m = {
    "version": 1,
    "setup_cmd": "cd /verif/tfacts && CARGO_NET_OFFLINE=true cargo build --release --offline",
    "hooks": {
        "guard": "temporal_verif",
        "enable": "none needed: the exporter reads the unmodified sources through rustc (RUSTC_WRAPPER=tfacts); the guard name is reserved and unused",
        "baseline_off_cmd": "cd /repo && cargo test --workspace --no-fail-fast --offline",
        "source_commits": [],
        "add_only": True,
    },
    "engines": [
        {"name": "tfacts", "path": "/verif/tfacts", "serves_properties": [c["property_id"] for c in checks],
         "kind_free_text": "rustc_private driver (nightly) exporting items, type-checked HIR trees and MIR of the real build as JSON"},
        {"name": "tlint", "path": "/verif/tlint", "serves_properties": [c["property_id"] for c in checks],
         "kind_free_text": "Python rule library over the exported facts: table folding, forwarding/wiring, record totality, lock discipline, dominance, unit inference"},
    ],
    "checks": checks,
    "not_applicable": na,
    "notes": "Static analysis only. Every check hashes /repo's working tree, re-exports facts with the tfacts rustc driver when the tree changed, and decides the named structural clauses of its property; declined clauses are listed in each level_note and in DESIGN.md.",
}
json.dump(m, open(os.path.join(VERIF, "MANIFEST.json"), "w"), indent=1)
print("MANIFEST.json: %d checks, %d not_applicable" % (len(checks), len(na)))
