#!/usr/bin/env python3
"""usage: tools/neutral_matrix.py [-j N] [w1/3/2 ...] — apply each behaviour-preserving patch kept under /verif/neutral
(eight waves written by sub-agents acting as maintainers; the .md beside each patch is its equivalence argument) to a scratch
copy of /repo's working tree and run every quick check against the copy.  Every patch must come out `CAUGHT-BY: -`: a check
that reports one of them raises a false alarm.  Patches that no longer apply (the code they touch was repaired since) are
skipped.  /repo itself is not touched."""
import concurrent.futures as cf, glob, json, os, subprocess, sys
VERIF = os.path.dirname(os.path.dirname(os.path.abspath(__file__)))


def one(p):
    r = subprocess.run([sys.executable, os.path.join(VERIF, "tools", "try_seed.py"), p], capture_output=True, text=True)
    return p, r.stdout


def main():
    args = sys.argv[1:]
    jobs = 3
    if args[:1] == ["-j"]:
        jobs = int(args[1])
        args = args[2:]
    pats = sorted(glob.glob(os.path.join(VERIF, "neutral", "*", "*", "*.diff")))
    if args:
        pats = [p for p in pats if any(p.endswith("/" + a + ".diff") or ("/" + a + "/") in p for a in args)]
    try:
        expected = json.load(open(os.path.join(VERIF, "neutral", "EXPECTED.json")))
    except OSError:
        expected = {}
    bad = 0
    with cf.ThreadPoolExecutor(max_workers=jobs) as ex:
        for p, out in ex.map(one, pats):
            name = os.path.relpath(p, os.path.join(VERIF, "neutral"))[:-5]
            last = [l for l in out.splitlines() if l.startswith("CAUGHT-BY") or "does not apply" in l]
            verdict = last[-1] if last else "?"
            if verdict.startswith("CAUGHT-BY: -"):
                print("%s silent" % name)
            elif "does not apply" in verdict:
                print("%s skipped (no longer applies)" % name)
            elif name in expected and verdict.split(":", 1)[-1].strip().split(",") == expected[name]["reported_by"]:
                # a patch that turned out NOT to be neutral for one property (neutral/EXPECTED.json says why): the report
                # is right, and it must stay exactly that report
                print("%s reported by %s as expected (not neutral for that property)" % (name, ",".join(expected[name]["reported_by"])))
            else:
                bad += 1
                print("%s FALSE ALARM: %s" % (name, verdict))
                for l in out.splitlines():
                    if l.startswith("  C"):
                        print("   " + l[:300])
            sys.stdout.flush()
    print("%d patches, %d false alarm(s)" % (len(pats), bad))
    return 1 if bad else 0


if __name__ == "__main__":
    sys.exit(main())
