#!/usr/bin/env python3
"""Writes tlint/data/baseline_fns.json: the functions of the repository's crates on the tree the rules were written against
(path -> externally reachable?).  The rules treat a function that is NOT in this inventory as a helper extracted later: it
is transparent (folded into its callers) instead of being an unknown callee; a private function of the inventory that has
disappeared was folded into its callers, and a rule anchored on it reports `not decided` instead of a violation."""
import json, os, sys
VERIF = os.path.dirname(os.path.dirname(os.path.abspath(__file__)))
sys.path.insert(0, VERIF)
from tlint import facts, baseline
fx = facts.Facts("full")
out = {}
for name in ("temporal_rs", "temporal_capi", "temporal_provider"):
    c = fx[name]
    out[name] = {f.path: [bool(f.reachable), baseline.fingerprint(f.d, {'temporal_rs', 'temporal_capi', 'temporal_provider'})] for f in c.fns}
    print(name, len(out[name]), sum(v[0] for v in out[name].values()))
with open(os.path.join(VERIF, "tlint", "data", "baseline_fns.json"), "w") as fh:
    json.dump(out, fh, indent=0, sort_keys=True)
CR = {'temporal_rs', 'temporal_capi', 'temporal_provider'}
items = {"adts": {}, "consts": {}}
for name in ("temporal_rs", "temporal_capi", "temporal_provider"):
    c = fx[name]
    items["adts"][name] = {p: baseline.adt_fingerprint(a, CR) for p, a in c.adts.items()}
    items["consts"][name] = {p: baseline.const_fingerprint(k, CR) for p, k in c.consts.items()}
    print(name, "adts", len(items["adts"][name]), "consts", len(items["consts"][name]))
with open(os.path.join(VERIF, "tlint", "data", "baseline_items.json"), "w") as fh:
    json.dump(items, fh, indent=0, sort_keys=True)
