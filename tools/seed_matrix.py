#!/usr/bin/env python3
"""usage: tools/seed_matrix.py [-j N] [C01/1 ...] — apply each kept seeded change of /verif/seeded to a scratch copy of
/repo's working tree (under the system temporary directory, removed afterwards), run every quick check against the copy
(VERIF_REPO, evidence redirected) and record which checks report a violation in seeded/RESULTS.json (and per-seed
meta.json `caught_by`).  /repo itself is not touched."""
import concurrent.futures as cf
import json, os, shutil, subprocess, sys, tempfile, time
VERIF = os.path.dirname(os.path.dirname(os.path.abspath(__file__)))
REPO = "/repo"


def run_check(pid, work):
    env = dict(os.environ, VERIF_REPO=work, VERIF_SUBRUN="1", VERIF_EVIDENCE_DIR=work + ".ev")
    t0 = time.time()
    p = subprocess.run([os.path.join(VERIF, "checks", "run"), pid, "quick"], capture_output=True, text=True, cwd=VERIF, env=env)
    viol = [l.strip() for l in p.stdout.splitlines() if l.startswith("  at ")]
    return pid, p.returncode, viol, time.time() - t0


def one(args):
    root, props, pid, n = args
    work = os.path.join(root, "%s_%s" % (pid, n))
    patch = os.path.join(VERIF, "seeded", pid, n, "patch.diff")
    try:
        subprocess.run(["rsync", "-a", "--exclude", "/target", "--exclude", ".git", REPO + "/", work + "/"], check=True)
        a = subprocess.run(["git", "apply", "--whitespace=nowarn", patch], cwd=work, capture_output=True, text=True)
        if a.returncode != 0:
            return pid, n, {"error": "patch does not apply to the current tree"}, 0
        t0 = time.time()
        out = {}
        first = run_check(pid if pid in props else props[0], work)        # exports the facts once
        out[first[0]] = first
        with cf.ThreadPoolExecutor(max_workers=4) as ex:
            for r in ex.map(lambda p: run_check(p, work), [p for p in props if p != first[0]]):
                out[r[0]] = r
        caught = [p for p in props if out[p][1] == 1]
        broken = [p for p in props if out[p][1] not in (0, 1)]
        res = {"caught_by": caught, "reports": {p: out[p][2][:3] for p in caught}}
        if broken:
            res["check_broken"] = broken
        return pid, n, res, time.time() - t0
    finally:
        shutil.rmtree(work, ignore_errors=True)
        shutil.rmtree(work + ".ev", ignore_errors=True)


def main():
    man = json.load(open(os.path.join(VERIF, "MANIFEST.json")))
    props = [c["property_id"] for c in man["checks"]]
    sel = sys.argv[1:]
    jobs = 4
    if sel[:1] == ["-j"]:
        jobs = int(sel[1])
        sel = sel[2:]
    seeds = []
    for pid in sorted(os.listdir(os.path.join(VERIF, "seeded"))):
        d = os.path.join(VERIF, "seeded", pid)
        if os.path.isdir(d):
            for n in sorted(os.listdir(d)):
                if os.path.exists(os.path.join(d, n, "patch.diff")) and (not sel or "%s/%s" % (pid, n) in sel):
                    seeds.append((pid, n))
    rp = os.path.join(VERIF, "seeded", "RESULTS.json")
    results = json.load(open(rp)) if os.path.exists(rp) else {}
    root = tempfile.mkdtemp(prefix="verif-seedmatrix.")
    try:
        with cf.ThreadPoolExecutor(max_workers=jobs) as ex:
            for pid, n, res, dt in ex.map(one, [(root, props, pid, n) for pid, n in seeds]):
                results["%s/%s" % (pid, n)] = res
                if "error" in res:
                    print(pid, n, res["error"])
                    continue
                mp = os.path.join(VERIF, "seeded", pid, n, "meta.json")
                meta = json.load(open(mp))
                meta["caught_by"] = res["caught_by"]
                meta["reports"] = res["reports"]
                json.dump(meta, open(mp, "w"), indent=1)
                broken = res.get("check_broken")
                print("%s/%s CAUGHT-BY: %s%s  (%.0fs)" % (pid, n, ",".join(res["caught_by"]) or "-",
                                                        (" BROKEN: " + ",".join(broken)) if broken else "", dt))
                sys.stdout.flush()
                json.dump(results, open(rp, "w"), indent=1, sort_keys=True)
    finally:
        shutil.rmtree(root, ignore_errors=True)
    return 0


if __name__ == "__main__":
    sys.exit(main())
