#!/usr/bin/env python3
"""usage: tools/seed_matrix.py [C01/1 ...] — apply each kept seeded change of /verif/seeded to /repo (git apply), run every
quick check, undo (git checkout), and record which checks report a violation in seeded/RESULTS.json (and per-seed
meta.json `caught_by`).  Refuses to run when /repo has local changes."""
import concurrent.futures as cf
import json, os, subprocess, sys
VERIF = os.path.dirname(os.path.dirname(os.path.abspath(__file__)))
REPO = "/repo"


def run_check(pid):
    p = subprocess.run([os.path.join(VERIF, "checks", "run"), pid, "quick"], capture_output=True, text=True, cwd=VERIF)
    viol = [l.strip() for l in p.stdout.splitlines() if l.startswith("  at ")]
    return pid, p.returncode, viol


def main():
    man = json.load(open(os.path.join(VERIF, "MANIFEST.json")))
    props = [c["property_id"] for c in man["checks"]]
    sel = sys.argv[1:]
    seeds = []
    for pid in sorted(os.listdir(os.path.join(VERIF, "seeded"))):
        d = os.path.join(VERIF, "seeded", pid)
        if os.path.isdir(d):
            for n in sorted(os.listdir(d)):
                if os.path.exists(os.path.join(d, n, "patch.diff")) and (not sel or "%s/%s" % (pid, n) in sel):
                    seeds.append((pid, n))
    rp = os.path.join(VERIF, "seeded", "RESULTS.json")
    results = json.load(open(rp)) if os.path.exists(rp) else {}
    for pid, n in seeds:
        st = subprocess.run(["git", "-C", REPO, "status", "--porcelain"], capture_output=True, text=True).stdout.strip()
        if st:
            print("refusing: /repo has local changes")
            return 2
        patch = os.path.join(VERIF, "seeded", pid, n, "patch.diff")
        a = subprocess.run(["git", "-C", REPO, "apply", "--whitespace=nowarn", patch], capture_output=True, text=True)
        if a.returncode != 0:
            print(pid, n, "patch does not apply:", a.stderr[:200])
            results["%s/%s" % (pid, n)] = {"error": "patch does not apply to the current tree"}
            continue
        out = {}
        try:
            first = run_check(pid if pid in props else props[0])
            out[first[0]] = first
            with cf.ThreadPoolExecutor(max_workers=8) as ex:
                for r in ex.map(run_check, [p for p in props if p != first[0]]):
                    out[r[0]] = r
        finally:
            subprocess.run(["git", "-C", REPO, "checkout", "--", "."], check=True)
        caught = [p for p in props if out[p][1] == 1]
        broken = [p for p in props if out[p][1] not in (0, 1)]
        res = {"caught_by": caught, "reports": {p: out[p][2][:3] for p in caught}}
        if broken:
            res["check_broken"] = broken
        results["%s/%s" % (pid, n)] = res
        mp = os.path.join(VERIF, "seeded", pid, n, "meta.json")
        meta = json.load(open(mp))
        meta["caught_by"] = caught
        meta["reports"] = res["reports"]
        json.dump(meta, open(mp, "w"), indent=1)
        print("%s/%s CAUGHT-BY: %s%s" % (pid, n, ",".join(caught) or "-", (" BROKEN: " + ",".join(broken)) if broken else ""))
        sys.stdout.flush()
    json.dump(results, open(rp, "w"), indent=1, sort_keys=True)
    return 0


if __name__ == "__main__":
    sys.exit(main())
