#!/usr/bin/env python3
"""usage: tools/verify_seed.py <seed-dir> [<seed-dir> ...]

Confirms a candidate seeded change in a scratch worktree of /repo (never in /repo itself):
  1. patch applies to HEAD and the workspace builds (default features and --features compiled_data)
  2. the demonstration test FAILS with the patch
  3. the existing suite (`cargo test --workspace --no-fail-fast --offline`) still passes with the patch
  4. the demonstration PASSES without the patch
Writes <seed-dir>/verified.json with what was run and the outcomes.  The scratch worktree (/tmp/seedv) is created on
demand and must be removed by the caller when done (`git -C /repo worktree remove --force /tmp/seedv`)."""
import json
import os
import re
import shutil
import subprocess
import sys

WT = "/tmp/seedv"
ENV = dict(os.environ, CARGO_NET_OFFLINE="true", CARGO_TARGET_DIR="/tmp/seedv-target")


def sh(cmd, **kw):
    return subprocess.run(cmd, shell=True, cwd=WT, env=ENV, capture_output=True, text=True, **kw)


def main():
    if not os.path.isdir(WT):
        subprocess.run(["git", "-C", "/repo", "worktree", "add", "-q", "--detach", WT, "HEAD"], check=True)
    for sd in sys.argv[1:]:
        sd = sd.rstrip("/")
        meta = json.load(open(os.path.join(sd, "meta.json")))
        pid = meta["property"]
        n = os.path.basename(sd)
        name = "seed_%s_%s" % (pid, n)
        res = {"seed": "%s/%s" % (pid, n), "head": subprocess.run(["git", "-C", WT, "rev-parse", "HEAD"], capture_output=True,
                                                                  text=True).stdout.strip()}
        sh("git checkout -q -- . && git clean -fdq tests temporal_capi/tests")
        os.makedirs(os.path.join(WT, "tests"), exist_ok=True)
        demo_cmd = meta.get("demo_cmd", "cargo test --offline --test " + name)
        m = re.search(r"--test\s+(\S+)", demo_cmd)
        tname = m.group(1) if m else name
        pkg = ""
        tdir = "tests"
        m = re.search(r"-p\s+(\S+)", demo_cmd)
        if m:
            pkg = " -p " + m.group(1)
            tdir = os.path.join(m.group(1), "tests")
            os.makedirs(os.path.join(WT, tdir), exist_ok=True)
        shutil.copy(os.path.join(sd, "demo.rs"), os.path.join(WT, tdir, tname + ".rs"))
        feats = ""
        m = re.search(r"--features[ =](\S+)", demo_cmd)
        if m:
            feats = " --features " + m.group(1)
        cmd = "cargo test%s --offline --test %s%s" % (pkg, tname, feats)
        res["demo_cmd"] = cmd
        r = sh(cmd)
        res["demo_without_patch"] = "pass" if r.returncode == 0 else "FAIL"
        a = sh("git apply --whitespace=nowarn %s" % os.path.join(sd, "patch.diff"))
        if a.returncode != 0:
            res["error"] = "patch does not apply: " + a.stderr[:300]
        else:
            b1 = sh("cargo build --workspace --offline")
            b2 = sh("cargo build --offline --features compiled_data")
            res["builds"] = "ok" if b1.returncode == 0 and b2.returncode == 0 else "FAIL"
            r = sh(cmd)
            res["demo_with_patch"] = "fail" if r.returncode != 0 else "PASSES"
            tail = [l for l in r.stdout.splitlines() if "panicked" in l or "assert" in l][:3]
            res["demo_failure"] = tail
            os.remove(os.path.join(WT, tdir, tname + ".rs"))
            t = sh("cargo test --workspace --no-fail-fast --offline")
            oks = re.findall(r"test result: (\w+)\. (\d+) passed; (\d+) failed", t.stdout)
            res["suite_with_patch"] = {"exit": t.returncode, "passed": sum(int(x[1]) for x in oks),
                                       "failed": sum(int(x[2]) for x in oks)}
        sh("git checkout -q -- . && git clean -fdq tests temporal_capi/tests")
        res["confirmed"] = bool(res.get("demo_without_patch") == "pass" and res.get("demo_with_patch") == "fail"
                                and res.get("builds") == "ok" and res.get("suite_with_patch", {}).get("exit") == 0)
        json.dump(res, open(os.path.join(sd, "verified.json"), "w"), indent=1)
        print(json.dumps(res))
        sys.stdout.flush()


if __name__ == "__main__":
    main()
