use core::str::FromStr;
use temporal_rs::{partial::PartialDate, Calendar, PlainDate};

#[test]
fn with_on_era_calendar_is_not_a_type_error() {
    let cal = Calendar::from_str("gregory").unwrap();
    let d = PlainDate::try_new(2021, 5, 15, cal).unwrap();
    let p = PartialDate::new().with_day(Some(5));
    let r = d.with(p, None);
    assert!(r.is_ok(), "with(day: 5) on a gregory date: {r:?}");
    let r = r.unwrap();
    assert_eq!((r.year(), r.month(), r.day()), (2021, 5, 5));
}
