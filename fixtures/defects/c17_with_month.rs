use temporal_rs::{options::ArithmeticOverflow, partial::PartialDate, PlainDate};

#[test]
fn with_month_out_of_range_constrain_clamps() {
    let d = PlainDate::try_new(2021, 5, 31, temporal_rs::Calendar::default()).unwrap();
    for m in [13u8, 14, 200] {
        let p = PartialDate::new().with_month(Some(m));
        let r = d.with(p, Some(ArithmeticOverflow::Constrain)).unwrap();
        assert_eq!((r.year(), r.month(), r.day()), (2021, 12, 31), "month {m}");
    }
    let p = PartialDate::new().with_month(Some(0));
    let r = d.with(p, Some(ArithmeticOverflow::Constrain)).unwrap();
    assert_eq!((r.year(), r.month(), r.day()), (2021, 1, 31));
    for m in [0u8, 13, 14] {
        let p = PartialDate::new().with_month(Some(m));
        assert!(d.with(p, Some(ArithmeticOverflow::Reject)).is_err());
    }
    let p = PartialDate::new().with_month(Some(2));
    let r = d.with(p, Some(ArithmeticOverflow::Constrain)).unwrap();
    assert_eq!((r.year(), r.month(), r.day()), (2021, 2, 28));
}
