//! Positive / negative controls for rule R9 (caller-controlled integer overflow).  Not part of boa-dev/temporal: a tiny crate
//! the interval engine is run on at every check so that a rule that silently stopped matching is noticed.

/// MUST be reported: the sum of two caller-chosen i32 values.
pub fn bad_add(year: i32, years: i32) -> i32 {
    year + years
}

/// MUST be reported: a caller-chosen i64 scaled in i64.
pub fn bad_scale(days: i64) -> i128 {
    i128::from(days * 86_400_000_000_000)
}

/// MUST be reported: the position found by a binary search, minus one.
pub fn bad_index(xs: &[i64], key: i64) -> usize {
    match xs.binary_search(&key) {
        Ok(i) => i - 1,
        Err(i) => i,
    }
}

/// must NOT be reported: the same sum after a range check.
pub fn good_add(year: i32, years: i32) -> Option<i32> {
    if !(-300_000..=300_000).contains(&year) || !(-1_000_000..=1_000_000).contains(&years) {
        return None;
    }
    Some(year + years)
}

/// MUST be reported: the magnitude of a caller-chosen i32 (i32::MIN has none).
pub fn bad_abs(years: i32) -> i32 {
    years.abs()
}

/// must NOT be reported: widened before scaling.
pub fn good_scale(days: i64) -> i128 {
    i128::from(days) * 86_400_000_000_000
}

/// must NOT be reported: guarded position.
pub fn good_index(xs: &[i64], key: i64) -> usize {
    match xs.binary_search(&key) {
        Ok(i) => i,
        Err(i) if i == 0 => 0,
        Err(i) => i - 1,
    }
}

/// must NOT be reported: a loop counter (its range is an artefact of widening).
pub fn good_loop(n: u8) -> u32 {
    let mut total = 0u32;
    let mut i = 0u32;
    while i < u32::from(n) {
        total += i;
        i += 1;
    }
    total
}

/// MUST be reported: both operands depend on the same caller-chosen value (no independence), the sum still exceeds u32
/// for x = u32::MAX.
pub fn bad_dependent(x: u32) -> u32 {
    let q = x / 4 + 1;
    x + q
}

/// must NOT be reported: dependent operands whose sum stays below u32::MAX.
pub fn good_dependent(x: u32) -> u32 {
    let h = x / 2;
    let q = x / 4;
    h + q
}

/// MUST be reported (lossy narrowing): a carry that exceeds 32 bits is narrowed with `as`.
pub fn bad_narrow(secs: i64, nanos: i32) -> i32 {
    let secs = secs / 4;
    let carry = i64::from(nanos) / 1_000_000_000;
    let total = secs + carry;
    let extra = i64::from(nanos) / 7;
    let days = (total + extra) / 86_400;
    days as i32
}

/// must NOT be reported (lossy narrowing): the same carry, range-checked before the cast.
pub fn good_narrow(secs: i64, nanos: i32) -> Option<i32> {
    let secs = secs / 4;
    let carry = i64::from(nanos) / 1_000_000_000;
    let total = secs + carry;
    let extra = i64::from(nanos) / 7;
    let days = (total + extra) / 86_400;
    if !(-100_000_000..=100_000_000).contains(&days) {
        return None;
    }
    Some(days as i32)
}

/// must NOT be reported (lossy narrowing): the range test is stored in a local before it is branched on (`a && b`
/// compiles to branches that assign the flag).
pub fn good_flag(x: f64) -> Option<i32> {
    let within = -2_147_483_648.0 <= x && x <= 2_147_483_647.0;
    if within {
        Some(x as i32)
    } else {
        None
    }
}

/// must NOT be reported: the same with integers and an addition.
pub fn good_flag_int(year: i32, years: i32) -> Option<i32> {
    let small = -300_000 <= year && year <= 300_000 && -1_000_000 <= years && years <= 1_000_000;
    if small {
        Some(year + years)
    } else {
        None
    }
}

fn ensure(ok: bool) -> Result<(), ()> {
    if ok {
        Ok(())
    } else {
        Err(())
    }
}

fn ensure_nothing(ok: bool) -> Result<(), ()> {
    if ok {
        Ok(())
    } else {
        Ok(())
    }
}

/// must NOT be reported: the guards live in a helper that returns `Ok` exactly when its argument is true, called with `?`.
pub fn good_guard_helper(year: i32, years: i32) -> Result<i32, ()> {
    ensure(-300_000 <= year && year <= 300_000)?;
    ensure(-1_000_000 <= years && years <= 1_000_000)?;
    Ok(year + years)
}

/// must be reported: the helper returns `Ok` whatever its argument is, so nothing is guarded.
pub fn bad_guard_helper(year: i32, years: i32) -> Result<i32, ()> {
    ensure_nothing(-300_000 <= year && year <= 300_000)?;
    ensure_nothing(-1_000_000 <= years && years <= 1_000_000)?;
    Ok(year + years)
}
