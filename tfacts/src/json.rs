//! Minimal JSON value + writer (no dependencies).
pub enum J {
    Null,
    Bool(bool),
    I(i128),
    U(u128),
    F(f64),
    S(String),
    A(Vec<J>),
    O(Vec<(&'static str, J)>),
}

pub fn s<T: Into<String>>(x: T) -> J {
    J::S(x.into())
}
pub fn opt<T>(x: Option<T>, f: impl FnOnce(T) -> J) -> J {
    match x {
        Some(v) => f(v),
        None => J::Null,
    }
}

impl J {
    pub fn write(&self, out: &mut String) {
        match self {
            J::Null => out.push_str("null"),
            J::Bool(b) => out.push_str(if *b { "true" } else { "false" }),
            J::I(i) => out.push_str(&i.to_string()),
            J::U(u) => out.push_str(&u.to_string()),
            J::F(f) => {
                if f.is_finite() {
                    out.push_str(&format!("{:?}", f))
                } else {
                    out.push_str(&format!("\"{:?}\"", f))
                }
            }
            J::S(st) => write_str(st, out),
            J::A(v) => {
                out.push('[');
                for (i, x) in v.iter().enumerate() {
                    if i > 0 {
                        out.push(',');
                    }
                    x.write(out);
                }
                out.push(']');
            }
            J::O(v) => {
                out.push('{');
                for (i, (k, x)) in v.iter().enumerate() {
                    if i > 0 {
                        out.push(',');
                    }
                    write_str(k, out);
                    out.push(':');
                    x.write(out);
                }
                out.push('}');
            }
        }
    }
}

fn write_str(st: &str, out: &mut String) {
    out.push('"');
    for c in st.chars() {
        match c {
            '"' => out.push_str("\\\""),
            '\\' => out.push_str("\\\\"),
            '\n' => out.push_str("\\n"),
            '\r' => out.push_str("\\r"),
            '\t' => out.push_str("\\t"),
            c if (c as u32) < 0x20 => out.push_str(&format!("\\u{:04x}", c as u32)),
            c => out.push(c),
        }
    }
    out.push('"');
}
