//! tfacts — fact exporter for the static checks in /verif.
//!
//! Used as RUSTC_WRAPPER: `tfacts <real-rustc> <args...>`.  For crates named in
//! TFACTS_CRATES it runs the compiler in-process and, after analysis, writes one
//! JSON file `$TFACTS_OUT/<crate>.json` holding items, HIR expression trees and
//! MIR (opt-level 0) of every body.  For every other crate it execs the real
//! rustc unchanged.
#![feature(rustc_private)]
#![allow(clippy::all)]

extern crate rustc_abi;
extern crate rustc_ast;
extern crate rustc_data_structures;
extern crate rustc_driver;
extern crate rustc_hir;
extern crate rustc_interface;
extern crate rustc_middle;
extern crate rustc_session;
extern crate rustc_span;
extern crate rustc_infer;
extern crate rustc_trait_selection;

mod hirx;
mod json;
mod mirx;

use json::{opt, s, J};
use rustc_hir::def::DefKind;
use rustc_hir::def_id::{DefId, LocalDefId};
use rustc_middle::ty::{self, TyCtxt};
use rustc_span::Span;
use std::process::Command;

struct Cb {
    crate_name: String,
    out_dir: String,
    want_mir: bool,
}

impl rustc_driver::Callbacks for Cb {
    fn after_analysis<'tcx>(
        &mut self,
        _c: &rustc_interface::interface::Compiler,
        tcx: TyCtxt<'tcx>,
    ) -> rustc_driver::Compilation {
        let j = rustc_middle::ty::print::with_resolve_crate_name!(
            rustc_middle::ty::print::with_no_trimmed_paths!(
                rustc_middle::ty::print::with_no_visible_paths!(export(tcx, self.want_mir))
            )
        );
        let mut out = String::with_capacity(1 << 24);
        j.write(&mut out);
        let tmp = format!("{}/{}.json.tmp{}", self.out_dir, self.crate_name, std::process::id());
        let fin = format!("{}/{}.json", self.out_dir, self.crate_name);
        std::fs::write(&tmp, out).expect("tfacts: cannot write facts");
        std::fs::rename(&tmp, &fin).expect("tfacts: cannot rename facts");
        rustc_driver::Compilation::Continue
    }
}

fn main() {
    let args: Vec<String> = std::env::args().collect();
    if args.len() < 2 {
        eprintln!("usage: tfacts <rustc> <args>");
        std::process::exit(2);
    }
    let mut crate_name = String::new();
    let mut is_test = false;
    let mut i = 2;
    while i < args.len() {
        if args[i] == "--crate-name" && i + 1 < args.len() {
            crate_name = args[i + 1].clone();
        }
        if args[i] == "--test" {
            is_test = true;
        }
        i += 1;
    }
    let wanted = std::env::var("TFACTS_CRATES").unwrap_or_default();
    let hir_only = std::env::var("TFACTS_HIR_ONLY").unwrap_or_default();
    let out_dir = std::env::var("TFACTS_OUT").unwrap_or_default();
    let is_wanted = !crate_name.is_empty()
        && !out_dir.is_empty()
        && !is_test
        && wanted.split(',').any(|c| c == crate_name)
        && !args.iter().any(|a| a == "build_script_build" || a.starts_with("--print"));
    if !is_wanted {
        let st = Command::new(&args[1]).args(&args[2..]).status().expect("tfacts: cannot exec rustc");
        std::process::exit(st.code().unwrap_or(1));
    }
    let want_mir = !hir_only.split(',').any(|c| c == crate_name);
    let mut rargs: Vec<String> = Vec::with_capacity(args.len());
    rargs.push(args[1].clone());
    rargs.extend(args[2..].iter().cloned());
    let mut cb = Cb { crate_name, out_dir, want_mir };
    rustc_driver::run_compiler(&rargs, &mut cb);
}

// ---------------------------------------------------------------------------

pub fn span_j(tcx: TyCtxt<'_>, span: Span) -> J {
    // outermost call site for file/line; expansion chain for macro names
    let mut exp: Vec<J> = Vec::new();
    for ed in span.macro_backtrace() {
        let d = match ed.kind {
            rustc_span::ExpnKind::Macro(k, name) => format!("{:?}:{}", k, name),
            rustc_span::ExpnKind::Desugaring(d) => format!("Desugar:{:?}", d),
            rustc_span::ExpnKind::AstPass(p) => format!("AstPass:{:?}", p),
            rustc_span::ExpnKind::Root => "Root".to_string(),
        };
        exp.push(s(d));
    }
    let outer = span.source_callsite();
    let sm = tcx.sess.source_map();
    let lo = sm.lookup_char_pos(outer.lo());
    let hi = sm.lookup_char_pos(outer.hi());
    let file = match &lo.file.name {
        rustc_span::FileName::Real(r) => match r.local_path() {
            Some(p) => p.to_string_lossy().to_string(),
            None => format!("{:?}", r),
        },
        other => format!("{:?}", other),
    };
    let mut v = vec![("f", s(file)), ("l", J::U(lo.line as u128)), ("e", J::U(hi.line as u128))];
    if !exp.is_empty() {
        v.push(("x", J::A(exp)));
        // innermost position too (where the code textually is, e.g. inside a macro_rules body)
        let ilo = sm.lookup_char_pos(span.lo());
        let ifile = match &ilo.file.name {
            rustc_span::FileName::Real(r) => match r.local_path() {
                Some(p) => p.to_string_lossy().to_string(),
                None => format!("{:?}", r),
            },
            other => format!("{:?}", other),
        };
        v.push(("if", s(ifile)));
        v.push(("il", J::U(ilo.line as u128)));
    }
    J::O(v)
}

pub fn line_j(tcx: TyCtxt<'_>, span: Span) -> J {
    // compact: [line, innermost-macro-or-null]
    let outer = span.source_callsite();
    let sm = tcx.sess.source_map();
    let lo = sm.lookup_char_pos(outer.lo());
    let mut names: Vec<J> = Vec::new();
    for ed in span.macro_backtrace() {
        let d = match ed.kind {
            rustc_span::ExpnKind::Macro(_, name) => name.to_string(),
            rustc_span::ExpnKind::Desugaring(d) => format!("#{:?}", d),
            rustc_span::ExpnKind::AstPass(p) => format!("@{:?}", p),
            rustc_span::ExpnKind::Root => "Root".to_string(),
        };
        names.push(s(d));
    }
    if names.is_empty() {
        J::U(lo.line as u128)
    } else {
        J::A(vec![J::U(lo.line as u128), J::A(names)])
    }
}

pub fn path_of(tcx: TyCtxt<'_>, did: DefId) -> String {
    tcx.def_path_str(did)
}

fn vis_j(tcx: TyCtxt<'_>, did: DefId) -> J {
    match tcx.def_kind(did) {
        DefKind::AnonConst | DefKind::InlineConst | DefKind::Closure | DefKind::Impl { .. } => J::Null,
        _ => {
            let v = tcx.visibility(did);
            s(if v.is_public() { "pub".to_string() } else { format!("{:?}", v) })
        }
    }
}

fn export<'tcx>(tcx: TyCtxt<'tcx>, want_mir: bool) -> J {
    let krate = tcx.crate_name(rustc_hir::def_id::LOCAL_CRATE).to_string();
    let ev = tcx.effective_visibilities(());
    let mut adts = Vec::new();
    let mut impls = Vec::new();
    let mut consts = Vec::new();
    let mut fns = Vec::new();
    let mut traits = Vec::new();

    let items = tcx.hir_crate_items(());
    for ldid in items.definitions() {
        let did = ldid.to_def_id();
        let kind = tcx.def_kind(did);
        match kind {
            DefKind::Struct | DefKind::Enum | DefKind::Union => {
                adts.push(adt_j(tcx, did, ev.is_reachable(ldid)));
            }
            DefKind::Impl { of_trait } => {
                let self_ty = tcx.type_of(did).instantiate_identity().skip_norm_wip();
                let tr = if of_trait {
                    let t = tcx.impl_trait_ref(did).instantiate_identity().skip_norm_wip();
                    Some(t)
                } else {
                    None
                };
                let assoc: Vec<J> = tcx
                    .associated_items(did)
                    .in_definition_order()
                    .map(|a| {
                        J::O(vec![
                            ("name", s(a.name().to_string())),
                            ("path", s(path_of(tcx, a.def_id))),
                            ("kind", s(format!("{:?}", a.tag()))),
                        ])
                    })
                    .collect();
                let self_adt = match self_ty.kind() {
                    ty::Adt(d, _) => J::S(path_of(tcx, d.did())),
                    _ => J::Null,
                };
                impls.push(J::O(vec![
                    ("self_ty", s(self_ty.to_string())),
                    ("self_adt", self_adt),
                    ("trait", opt(tr, |t| s(path_of(tcx, t.def_id)))),
                    ("trait_full", opt(tr, |t| s(t.to_string()))),
                    ("derived", J::Bool(tcx.is_automatically_derived(did))),
                    ("unsafe", J::Bool(of_trait && tcx.impl_trait_header(did).safety.is_unsafe())),
                    ("negative", J::Bool(of_trait && tcx.impl_polarity(did) == ty::ImplPolarity::Negative)),
                    ("items", J::A(assoc)),
                    ("span", span_j(tcx, tcx.def_span(did))),
                ]));
            }
            DefKind::Trait => {
                let assoc: Vec<J> = tcx
                    .associated_items(did)
                    .in_definition_order()
                    .map(|a| s(a.name().to_string()))
                    .collect();
                traits.push(J::O(vec![("path", s(path_of(tcx, did))), ("items", J::A(assoc))]));
            }
            DefKind::Const { .. } | DefKind::AssocConst { .. } | DefKind::Static { .. } => {
                let ty = tcx.type_of(did).instantiate_identity().skip_norm_wip();
                let mut val = J::Null;
                let is_generic = tcx.generics_of(did).requires_monomorphization(tcx);
                let has_body = tcx.hir_maybe_body_owned_by(ldid).is_some();
                if !is_generic && has_body {
                    if !matches!(kind, DefKind::Static { .. }) {
                        if let Ok(cv) = tcx.const_eval_poly(did) {
                            val = mirx::const_value_j(tcx, cv, ty);
                        }
                    }
                }
                consts.push(J::O(vec![
                    ("path", s(path_of(tcx, did))),
                    ("kind", s(format!("{:?}", kind))),
                    ("ty", s(ty.to_string())),
                    ("val", val),
                    ("vis", vis_j(tcx, did)),
                    ("reachable", J::Bool(ev.is_reachable(ldid))),
                    ("span", span_j(tcx, tcx.def_span(did))),
                ]));
            }
            _ => {}
        }
    }

    for ldid in tcx.hir_body_owners() {
        let did = ldid.to_def_id();
        let kind = tcx.def_kind(did);
        let is_fn_like = matches!(kind, DefKind::Fn | DefKind::AssocFn | DefKind::Closure);
        let is_const_like =
            matches!(kind, DefKind::Const { .. } | DefKind::AssocConst { .. } | DefKind::Static { .. });
        if !is_fn_like && !is_const_like {
            continue;
        }
        let mut o: Vec<(&'static str, J)> = Vec::new();
        o.push(("path", s(path_of(tcx, did))));
        o.push(("kind", s(format!("{:?}", kind))));
        o.push(("span", span_j(tcx, tcx.def_span(did))));
        o.push(("vis", vis_j(tcx, did)));
        o.push(("reachable", J::Bool(!matches!(kind, DefKind::Closure) && ev.is_reachable(ldid))));
        let parent = tcx.parent(did);
        o.push(("parent", s(path_of(tcx, parent))));
        o.push(("parent_kind", s(format!("{:?}", tcx.def_kind(parent)))));
        if let DefKind::Impl { of_trait } = tcx.def_kind(parent) {
            let self_ty = tcx.type_of(parent).instantiate_identity().skip_norm_wip();
            o.push(("impl_self", s(self_ty.to_string())));
            if of_trait {
                let t = tcx.impl_trait_ref(parent).instantiate_identity().skip_norm_wip();
                o.push(("impl_trait", s(path_of(tcx, t.def_id))));
            }
        }
        if matches!(kind, DefKind::Fn | DefKind::AssocFn) {
            let sig = tcx.fn_sig(did).instantiate_identity().skip_norm_wip().skip_binder();
            let names = tcx.fn_arg_idents(did);
            let mut ps = Vec::new();
            for (i, t) in sig.inputs().iter().enumerate() {
                let nm = names.get(i).and_then(|x| x.as_ref()).map(|id| id.name.to_string());
                ps.push(J::O(vec![("name", opt(nm, J::S)), ("ty", s(t.to_string()))]));
            }
            o.push(("params", J::A(ps)));
            o.push(("ret", s(sig.output().to_string())));
            o.push(("abi", s(format!("{:?}", sig.abi()))));
            o.push(("generic", J::Bool(tcx.generics_of(did).requires_monomorphization(tcx))));
            // names of all generic parameters (parent's first), in the order of a call site's generic arguments
            {
                let mut names: Vec<J> = Vec::new();
                let mut stack = Vec::new();
                let mut g = Some(tcx.generics_of(did));
                while let Some(gg) = g {
                    stack.push(gg);
                    g = gg.parent.map(|p| tcx.generics_of(p));
                }
                for gg in stack.iter().rev() {
                    for p in gg.own_params.iter() {
                        names.push(s(p.name.to_string()));
                    }
                }
                o.push(("generics", J::A(names)));
            }
            let attrs: Vec<J> = tcx
                .get_all_attrs(did)
                .iter()
                .filter_map(|a| a.name().map(|n| s(n.to_string())))
                .collect();
            o.push(("attrs", J::A(attrs)));
        }
        // HIR
        if let Some(body) = tcx.hir_maybe_body_owned_by(ldid) {
            o.push(("body_span", span_j(tcx, body.value.span)));
            let tr = tcx.typeck(ldid);
            let mut hx = hirx::Hx { tcx, tr };
            o.push(("hir", hx.body(body)));
        }
        // MIR
        if want_mir && is_fn_like {
            let body = tcx.optimized_mir(did);
            o.push(("mir", mirx::body_j(tcx, did, body)));
            let prom = tcx.promoted_mir(did);
            let pj: Vec<J> = prom.iter().map(|b| mirx::body_j(tcx, did, b)).collect();
            o.push(("promoted", J::A(pj)));
        } else if want_mir && is_const_like && !matches!(kind, DefKind::AssocConst { .. }) {
            // bodies of constants / statics (compile-time evaluated, exported for the value flow of non-scalar constants)
            let body = tcx.mir_for_ctfe(did);
            o.push(("mir", mirx::body_j(tcx, did, body)));
        }
        fns.push(J::O(o));
    }

    J::O(vec![
        ("crate", s(krate)),
        ("adts", J::A(adts)),
        ("impls", J::A(impls)),
        ("traits", J::A(traits)),
        ("consts", J::A(consts)),
        ("fns", J::A(fns)),
    ])
}

fn auto_trait_j<'tcx>(tcx: TyCtxt<'tcx>, did: DefId, which: rustc_hir::LangItem) -> J {
    use rustc_infer::infer::TyCtxtInferExt;
    use rustc_trait_selection::infer::InferCtxtExt;
    if tcx.generics_of(did).requires_monomorphization(tcx) {
        return J::Null;
    }
    let Some(tr) = tcx.lang_items().get(which) else { return J::Null };
    let ty = tcx.type_of(did).instantiate_identity().skip_norm_wip();
    let env = ty::TypingEnv::non_body_analysis(tcx, did);
    let (infcx, param_env) = tcx.infer_ctxt().build_with_typing_env(env);
    let r = infcx.type_implements_trait(tr, [ty], param_env);
    J::Bool(r.must_apply_modulo_regions())
}

fn adt_j<'tcx>(tcx: TyCtxt<'tcx>, did: DefId, reachable: bool) -> J {
    let adt = tcx.adt_def(did);
    let mut variants = Vec::new();
    for (vidx, v) in adt.variants().iter_enumerated() {
        let discr = if adt.is_enum() {
            let d = adt.discriminant_for_variant(tcx, vidx);
            // signed interpretation when the repr type is signed
            let sz = rustc_abi::Integer::from_attr(&tcx, adt.repr().discr_type()).size();
            if adt.repr().discr_type().is_signed() {
                J::I(sz.sign_extend(d.val) as i128)
            } else {
                J::U(d.val)
            }
        } else {
            J::Null
        };
        let fields: Vec<J> = v
            .fields
            .iter()
            .map(|f| {
                let fty = tcx.type_of(f.did).instantiate_identity().skip_norm_wip();
                J::O(vec![
                    ("name", s(f.name.to_string())),
                    ("ty", s(fty.to_string())),
                    ("pub", J::Bool(f.vis.is_public())),
                ])
            })
            .collect();
        variants.push(J::O(vec![
            ("name", s(v.name.to_string())),
            ("discr", discr),
            ("fields", J::A(fields)),
            ("ctor", s(format!("{:?}", v.ctor_kind()))),
        ]));
    }
    J::O(vec![
        ("path", s(path_of(tcx, did))),
        ("kind", s(if adt.is_enum() { "enum" } else if adt.is_union() { "union" } else { "struct" })),
        ("variants", J::A(variants)),
        ("non_exhaustive", J::Bool(adt.is_variant_list_non_exhaustive())),
        ("sync", auto_trait_j(tcx, did, rustc_hir::LangItem::Sync)),
        ("send", {
            match tcx.get_diagnostic_item(rustc_span::sym::Send) {
                Some(tr) => {
                    use rustc_infer::infer::TyCtxtInferExt;
                    use rustc_trait_selection::infer::InferCtxtExt;
                    if tcx.generics_of(did).requires_monomorphization(tcx) {
                        J::Null
                    } else {
                        let ty = tcx.type_of(did).instantiate_identity().skip_norm_wip();
                        let env = ty::TypingEnv::non_body_analysis(tcx, did);
                        let (infcx, param_env) = tcx.infer_ctxt().build_with_typing_env(env);
                        J::Bool(infcx.type_implements_trait(tr, [ty], param_env).must_apply_modulo_regions())
                    }
                }
                None => J::Null,
            }
        }),
        ("vis", vis_j(tcx, did)),
        ("reachable", J::Bool(reachable)),
        ("span", span_j(tcx, tcx.def_span(did))),
    ])
}

#[allow(dead_code)]
fn _unused(_: LocalDefId) {}
