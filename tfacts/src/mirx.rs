//! MIR → JSON
use crate::json::{opt, s, J};
use crate::{line_j, path_of};
use rustc_hir::def_id::DefId;
use rustc_middle::mir::{self, *};
use rustc_middle::ty::{self, Ty, TyCtxt};

pub fn const_value_j<'tcx>(tcx: TyCtxt<'tcx>, cv: ConstValue, ty: Ty<'tcx>) -> J {
    match cv {
        ConstValue::Scalar(sc) => match sc {
            mir::interpret::Scalar::Int(si) => scalar_int_j(tcx, si, ty),
            mir::interpret::Scalar::Ptr(ptr, _) => {
                let (prov, _off) = ptr.into_raw_parts();
                match tcx.try_get_global_alloc(prov.alloc_id()) {
                    Some(mir::interpret::GlobalAlloc::Static(did)) => J::O(vec![("static", s(path_of(tcx, did)))]),
                    Some(mir::interpret::GlobalAlloc::Function { instance }) => {
                        J::O(vec![("fnptr", s(path_of(tcx, instance.def_id())))])
                    }
                    _ => J::Null,
                }
            }
        },
        ConstValue::ZeroSized => J::Null,
        ConstValue::Slice { .. } => {
            if let Some(bytes) = cv.try_get_slice_bytes_for_diagnostics(tcx) {
                match std::str::from_utf8(bytes) {
                    Ok(st) => J::O(vec![("str", s(st))]),
                    Err(_) => J::O(vec![("bytes", J::A(bytes.iter().map(|b| J::U(*b as u128)).collect()))]),
                }
            } else {
                J::Null
            }
        }
        ConstValue::Indirect { alloc_id, offset } => {
            // small plain-old-data constants (e.g. TinyAsciiStr<N>): export the raw bytes
            let is_tiny = ty.to_string().starts_with("tinystr::ascii::TinyAsciiStr<");
            if !is_tiny {
                return J::Null;
            }
            match tcx.try_get_global_alloc(alloc_id) {
                Some(mir::interpret::GlobalAlloc::Memory(a)) => {
                    let a = a.inner();
                    let start = offset.bytes() as usize;
                    let n = ty_size_hint(&ty.to_string());
                    if n == 0 || start + n > a.len() {
                        return J::Null;
                    }
                    let bytes = a.inspect_with_uninit_and_ptr_outside_interpreter(start..start + n);
                    let st: String = bytes.iter().take_while(|b| **b != 0).map(|b| *b as char).collect();
                    J::O(vec![("tinystr", s(st))])
                }
                _ => J::Null,
            }
        }
    }
}

fn ty_size_hint(ty: &str) -> usize {
    // TinyAsciiStr<N> is N bytes
    ty.rsplit('<').next().and_then(|x| x.trim_end_matches('>').parse::<usize>().ok()).unwrap_or(0)
}

fn scalar_int_j<'tcx>(_tcx: TyCtxt<'tcx>, si: ty::ScalarInt, ty: Ty<'tcx>) -> J {
    let size = si.size();
    if ty.to_string().starts_with("tinystr::ascii::TinyAsciiStr<") {
        let bits = si.to_bits(size);
        let st: String = bits.to_le_bytes().iter().take(size.bytes() as usize).take_while(|b| **b != 0).map(|b| *b as char).collect();
        return J::O(vec![("tinystr", s(st))]);
    }
    match ty.kind() {
        ty::Bool => J::Bool(si.to_bits(size) != 0),
        ty::Int(_) => J::I(si.to_int(size)),
        ty::Uint(_) => J::U(si.to_uint(size)),
        ty::Char => J::O(vec![("char", J::U(si.to_bits(size)))]),
        ty::Float(ty::FloatTy::F64) => J::O(vec![("f64", J::F(f64::from_bits(si.to_bits(size) as u64)))]),
        ty::Float(ty::FloatTy::F32) => {
            J::O(vec![("f64", J::F(f32::from_bits(si.to_bits(size) as u32) as f64))])
        }
        _ => J::O(vec![("bits", J::U(si.to_bits(size)))]),
    }
}

struct Mx<'tcx, 'a> {
    tcx: TyCtxt<'tcx>,
    owner: DefId,
    body: &'a Body<'tcx>,
}

pub fn body_j<'tcx>(tcx: TyCtxt<'tcx>, owner: DefId, body: &Body<'tcx>) -> J {
    let mx = Mx { tcx, owner, body };
    // locals
    let mut names: Vec<Option<String>> = vec![None; body.local_decls.len()];
    let mut dbg = Vec::new();
    for vdi in &body.var_debug_info {
        match &vdi.value {
            VarDebugInfoContents::Place(p) => {
                if p.projection.is_empty() {
                    names[p.local.as_usize()] = Some(vdi.name.to_string());
                }
                dbg.push(J::O(vec![("name", s(vdi.name.to_string())), ("place", mx.place(p))]));
            }
            VarDebugInfoContents::Const(c) => {
                dbg.push(J::O(vec![("name", s(vdi.name.to_string())), ("const", mx.constant(&c.const_))]));
            }
        }
    }
    let locals: Vec<J> = body
        .local_decls
        .iter_enumerated()
        .map(|(l, d)| {
            J::A(vec![
                s(d.ty.to_string()),
                opt(names[l.as_usize()].clone(), J::S),
            ])
        })
        .collect();
    let blocks: Vec<J> = body
        .basic_blocks
        .iter()
        .map(|bb| {
            let stmts: Vec<J> = bb.statements.iter().filter_map(|st| mx.stmt(st)).collect();
            J::O(vec![
                ("s", J::A(stmts)),
                ("t", mx.term(bb.terminator())),
                ("cleanup", J::Bool(bb.is_cleanup)),
            ])
        })
        .collect();
    J::O(vec![
        ("argc", J::U(body.arg_count as u128)),
        ("locals", J::A(locals)),
        ("dbg", J::A(dbg)),
        ("blocks", J::A(blocks)),
    ])
}

impl<'tcx, 'a> Mx<'tcx, 'a> {
    fn place(&self, p: &Place<'tcx>) -> J {
        let mut proj = Vec::new();
        let mut pty = mir::PlaceTy::from_ty(self.body.local_decls[p.local].ty);
        for elem in p.projection.iter() {
            let e = match elem {
                ProjectionElem::Deref => s("*"),
                ProjectionElem::Field(f, fty) => {
                    let name = match pty.ty.kind() {
                        ty::Adt(adt, _) => {
                            let v = match pty.variant_index {
                                Some(v) => adt.variant(v),
                                None => adt.non_enum_variant(),
                            };
                            Some(v.fields[f].name.to_string())
                        }
                        _ => None,
                    };
                    J::O(vec![
                        ("f", J::U(f.as_usize() as u128)),
                        ("n", opt(name, J::S)),
                        ("ty", s(fty.to_string())),
                        ("of", s(pty.ty.to_string())),
                    ])
                }
                ProjectionElem::Index(l) => J::O(vec![("idx", J::U(l.as_usize() as u128))]),
                ProjectionElem::ConstantIndex { offset, min_length, from_end } => J::O(vec![
                    ("cidx", J::U(offset as u128)),
                    ("min", J::U(min_length as u128)),
                    ("from_end", J::Bool(from_end)),
                ]),
                ProjectionElem::Subslice { from, to, from_end } => J::O(vec![
                    ("sub", J::A(vec![J::U(from as u128), J::U(to as u128)])),
                    ("from_end", J::Bool(from_end)),
                ]),
                ProjectionElem::Downcast(name, v) => J::O(vec![
                    ("as", opt(name, |n| s(n.to_string()))),
                    ("v", J::U(v.as_usize() as u128)),
                ]),
                other => s(format!("{:?}", other)),
            };
            proj.push(e);
            pty = pty.projection_ty(self.tcx, elem);
        }
        if proj.is_empty() {
            J::U(p.local.as_usize() as u128)
        } else {
            J::O(vec![("l", J::U(p.local.as_usize() as u128)), ("p", J::A(proj))])
        }
    }

    fn constant(&self, c: &mir::Const<'tcx>) -> J {
        let ty = c.ty();
        let mut o: Vec<(&'static str, J)> = vec![("ty", s(ty.to_string()))];
        if let ty::FnDef(did, args) = ty.kind() {
            o.push(("fn", self.fn_j(*did, args)));
            return J::O(o);
        }
        match c {
            mir::Const::Unevaluated(u, _) => {
                if let Some(p) = u.promoted {
                    o.push(("promoted", J::U(p.as_usize() as u128)));
                    return J::O(o);
                }
                o.push(("def", s(path_of(self.tcx, u.def))));
            }
            _ => {}
        }
        let env = ty::TypingEnv::post_analysis(self.tcx, self.owner);
        let has_param = {
            use rustc_middle::ty::TypeVisitableExt;
            c.has_non_region_param()
        };
        if !has_param {
            if let Ok(cv) = c.eval(self.tcx, env, rustc_span::DUMMY_SP) {
                o.push(("val", const_value_j(self.tcx, cv, ty)));
                // unit-like enum variants / small ADTs: also give the discriminant when cheap
                if let ty::Adt(adt, _) = ty.kind() {
                    if adt.is_enum() {
                        if let Some(si) = cv.try_to_scalar_int() {
                            o.push(("enum_bits", J::U(si.to_bits(si.size()))));
                        }
                    }
                }
            }
        }
        J::O(o)
    }

    fn fn_j(&self, did: DefId, args: ty::GenericArgsRef<'tcx>) -> J {
        let tcx = self.tcx;
        let mut o: Vec<(&'static str, J)> = Vec::new();
        o.push(("path", s(path_of(tcx, did))));
        o.push(("full", s(tcx.def_path_str_with_args(did, args))));
        let ga: Vec<J> = args.iter().map(|a| s(a.to_string())).collect();
        o.push(("args", J::A(ga)));
        let env = ty::TypingEnv::post_analysis(tcx, self.owner);
        if let Ok(Some(inst)) = ty::Instance::try_resolve(tcx, env, did, args) {
            let rd = inst.def_id();
            if rd != did {
                o.push(("resolved", s(path_of(tcx, rd))));
            }
            match inst.def {
                ty::InstanceKind::Item(_) => {}
                other => o.push(("inst", s(format!("{:?}", other).chars().take(80).collect::<String>()))),
            }
        }
        if let Some(tr) = tcx.trait_of_assoc(did) {
            o.push(("trait", s(path_of(tcx, tr))));
        }
        o.push(("krate", s(tcx.crate_name(did.krate).to_string())));
        J::O(o)
    }

    fn operand(&self, op: &Operand<'tcx>) -> J {
        match op {
            Operand::Copy(p) => J::O(vec![("c", self.place(p))]),
            Operand::Move(p) => J::O(vec![("m", self.place(p))]),
            Operand::Constant(c) => J::O(vec![("k", self.constant(&c.const_))]),
            other => J::O(vec![("other", s(format!("{:?}", other)))]),
        }
    }

    fn rvalue(&self, rv: &Rvalue<'tcx>) -> J {
        match rv {
            Rvalue::Use(op, ..) => J::A(vec![s("use"), self.operand(op)]),
            Rvalue::Repeat(op, n) => J::A(vec![s("repeat"), self.operand(op), s(n.to_string())]),
            Rvalue::Ref(_, bk, p) => J::A(vec![
                s("ref"),
                s(match bk {
                    BorrowKind::Shared => "shared",
                    BorrowKind::Fake(_) => "fake",
                    BorrowKind::Mut { .. } => "mut",
                }),
                self.place(p),
            ]),
            Rvalue::RawPtr(k, p) => J::A(vec![s("rawptr"), s(format!("{:?}", k)), self.place(p)]),
            Rvalue::Cast(k, op, ty) => {
                let from = op.ty(&self.body.local_decls, self.tcx);
                J::A(vec![
                    s("cast"),
                    s(format!("{:?}", k).split('(').next().unwrap_or("").to_string()),
                    self.operand(op),
                    s(from.to_string()),
                    s(ty.to_string()),
                ])
            }
            Rvalue::BinaryOp(op, ab) => {
                let (a, b) = &**ab;
                let aty = a.ty(&self.body.local_decls, self.tcx);
                J::A(vec![s("bin"), s(format!("{:?}", op)), self.operand(a), self.operand(b), s(aty.to_string())])
            }
            Rvalue::UnaryOp(op, a) => {
                let aty = a.ty(&self.body.local_decls, self.tcx);
                J::A(vec![s("un"), s(format!("{:?}", op)), self.operand(a), s(aty.to_string())])
            }
            Rvalue::Discriminant(p) => J::A(vec![s("discr"), self.place(p)]),
            Rvalue::Aggregate(k, ops) => {
                let kind = match &**k {
                    AggregateKind::Array(t) => J::O(vec![("array", s(t.to_string()))]),
                    AggregateKind::Tuple => J::O(vec![("tuple", J::Null)]),
                    AggregateKind::Adt(did, v, _args, _, active) => {
                        let adt = self.tcx.adt_def(*did);
                        let var = adt.variant(*v);
                        let fnames: Vec<J> = var.fields.iter().map(|f| s(f.name.to_string())).collect();
                        J::O(vec![
                            ("adt", s(path_of(self.tcx, *did))),
                            ("variant", s(var.name.to_string())),
                            ("vidx", J::U(v.as_usize() as u128)),
                            ("fields", J::A(fnames)),
                            ("active", opt(*active, |a| J::U(a.as_usize() as u128))),
                        ])
                    }
                    AggregateKind::Closure(did, _) => J::O(vec![("closure", s(path_of(self.tcx, *did)))]),
                    other => J::O(vec![("other", s(format!("{:?}", other)))]),
                };
                let o: Vec<J> = ops.iter().map(|x| self.operand(x)).collect();
                J::A(vec![s("agg"), kind, J::A(o)])
            }
            Rvalue::CopyForDeref(p) => J::A(vec![s("use"), J::O(vec![("c", self.place(p))])]),
            other => J::A(vec![s("other"), s(format!("{:?}", other))]),
        }
    }

    fn stmt(&self, st: &Statement<'tcx>) -> Option<J> {
        match &st.kind {
            StatementKind::Assign(b) => {
                let (p, rv) = &**b;
                Some(J::A(vec![s("="), self.place(p), self.rvalue(rv), line_j(self.tcx, st.source_info.span)]))
            }
            StatementKind::SetDiscriminant { place, variant_index } => Some(J::A(vec![
                s("setdiscr"),
                self.place(place),
                J::U(variant_index.as_usize() as u128),
                line_j(self.tcx, st.source_info.span),
            ])),
            StatementKind::Intrinsic(i) => {
                Some(J::A(vec![s("intrinsic"), s(format!("{:?}", i)), line_j(self.tcx, st.source_info.span)]))
            }
            _ => None,
        }
    }

    fn term(&self, t: &Terminator<'tcx>) -> J {
        let line = line_j(self.tcx, t.source_info.span);
        let bbj = |b: BasicBlock| J::U(b.as_usize() as u128);
        let unw = |u: &UnwindAction| match u {
            UnwindAction::Cleanup(b) => J::U(b.as_usize() as u128),
            UnwindAction::Continue => s("continue"),
            UnwindAction::Unreachable => s("unreachable"),
            UnwindAction::Terminate(_) => s("terminate"),
        };
        match &t.kind {
            TerminatorKind::Goto { target } => J::O(vec![("k", s("goto")), ("t", bbj(*target))]),
            TerminatorKind::SwitchInt { discr, targets } => {
                let dty = discr.ty(&self.body.local_decls, self.tcx);
                let signed = matches!(dty.kind(), ty::Int(_));
                let arms: Vec<J> = targets
                    .iter()
                    .map(|(v, b)| {
                        let vj = if signed {
                            // sign-extend according to type size
                            let sz = match dty.kind() {
                                ty::Int(it) => it.bit_width().unwrap_or(64),
                                _ => 128,
                            };
                            let shift = 128 - sz as u32;
                            J::I(((v << shift) as i128) >> shift)
                        } else {
                            J::U(v)
                        };
                        J::A(vec![vj, bbj(b)])
                    })
                    .collect();
                J::O(vec![
                    ("k", s("switch")),
                    ("on", self.operand(discr)),
                    ("ty", s(dty.to_string())),
                    ("arms", J::A(arms)),
                    ("else", bbj(targets.otherwise())),
                    ("line", line),
                ])
            }
            TerminatorKind::Return => J::O(vec![("k", s("return")), ("line", line)]),
            TerminatorKind::Unreachable => J::O(vec![("k", s("unreachable"))]),
            TerminatorKind::UnwindResume => J::O(vec![("k", s("resume"))]),
            TerminatorKind::UnwindTerminate(_) => J::O(vec![("k", s("terminate"))]),
            TerminatorKind::Drop { place, target, unwind, .. } => J::O(vec![
                ("k", s("drop")),
                ("place", self.place(place)),
                ("t", bbj(*target)),
                ("unwind", unw(unwind)),
                ("line", line),
            ]),
            TerminatorKind::Call { func, args, destination, target, unwind, fn_span, .. } => {
                let a: Vec<J> = args.iter().map(|x| self.operand(&x.node)).collect();
                let f = match func {
                    Operand::Constant(c) => match c.const_.ty().kind() {
                        ty::FnDef(did, ga) => self.fn_j(*did, ga),
                        _ => J::O(vec![("ptr", self.operand(func))]),
                    },
                    _ => {
                        let fty = func.ty(&self.body.local_decls, self.tcx);
                        J::O(vec![("ptr", self.operand(func)), ("ty", s(fty.to_string()))])
                    }
                };
                J::O(vec![
                    ("k", s("call")),
                    ("fn", f),
                    ("args", J::A(a)),
                    ("dest", self.place(destination)),
                    ("t", opt(*target, bbj)),
                    ("unwind", unw(unwind)),
                    ("line", line),
                    ("fline", line_j(self.tcx, *fn_span)),
                ])
            }
            TerminatorKind::Assert { cond, expected, msg, target, unwind } => {
                let (kind, ops): (String, Vec<J>) = match &**msg {
                    AssertKind::BoundsCheck { len, index } => {
                        ("BoundsCheck".into(), vec![self.operand(len), self.operand(index)])
                    }
                    AssertKind::Overflow(op, a, b) => {
                        (format!("Overflow:{:?}", op), vec![self.operand(a), self.operand(b)])
                    }
                    AssertKind::OverflowNeg(a) => ("OverflowNeg".into(), vec![self.operand(a)]),
                    AssertKind::DivisionByZero(a) => ("DivisionByZero".into(), vec![self.operand(a)]),
                    AssertKind::RemainderByZero(a) => ("RemainderByZero".into(), vec![self.operand(a)]),
                    other => (format!("{:?}", other).chars().take(60).collect(), vec![]),
                };
                J::O(vec![
                    ("k", s("assert")),
                    ("cond", self.operand(cond)),
                    ("expected", J::Bool(*expected)),
                    ("msg", s(kind)),
                    ("ops", J::A(ops)),
                    ("t", bbj(*target)),
                    ("unwind", unw(unwind)),
                    ("line", line),
                ])
            }
            TerminatorKind::FalseEdge { real_target, .. } => J::O(vec![("k", s("goto")), ("t", bbj(*real_target))]),
            TerminatorKind::FalseUnwind { real_target, .. } => {
                J::O(vec![("k", s("goto")), ("t", bbj(*real_target))])
            }
            other => J::O(vec![("k", s("other")), ("dbg", s(format!("{:?}", other))), ("line", line)]),
        }
    }
}
