//! HIR (type-checked, macro-expanded) expression trees → JSON
use crate::json::{opt, s, J};
use crate::{line_j, path_of};
use rustc_ast::ast::LitKind;
use rustc_hir as hir;
use rustc_hir::def::Res;
use rustc_middle::ty::{self, TyCtxt, TypeckResults};

pub struct Hx<'tcx> {
    pub tcx: TyCtxt<'tcx>,
    pub tr: &'tcx TypeckResults<'tcx>,
}

impl<'tcx> Hx<'tcx> {
    pub fn body(&mut self, b: &hir::Body<'tcx>) -> J {
        let params: Vec<J> = b.params.iter().map(|p| self.pat(p.pat)).collect();
        J::O(vec![("params", J::A(params)), ("value", self.expr(b.value))])
    }

    fn res(&self, r: Res) -> J {
        match r {
            Res::Def(kind, did) => J::O(vec![
                ("def", s(path_of(self.tcx, did))),
                ("dk", s(format!("{:?}", kind).split(|c| c == '(' || c == ' ').next().unwrap_or("").to_string())),
            ]),
            Res::Local(id) => J::O(vec![("local", s(self.local_name(id)))]),
            Res::SelfCtor(did) => J::O(vec![("selfctor", s(self.impl_self_adt(did)))]),
            Res::SelfTyAlias { alias_to, .. } => J::O(vec![("selfty", s(self.impl_self_adt(alias_to)))]),
            Res::PrimTy(p) => J::O(vec![("prim", s(p.name_str()))]),
            other => J::O(vec![("res", s(format!("{:?}", other)))]),
        }
    }

    /// `Self` inside an impl: the path of the ADT the impl is for (falls back to the impl's own path)
    fn impl_self_adt(&self, impl_did: rustc_hir::def_id::DefId) -> String {
        if matches!(self.tcx.def_kind(impl_did), hir::def::DefKind::Impl { .. }) {
            let ty = self.tcx.type_of(impl_did).instantiate_identity().skip_norm_wip();
            if let ty::Adt(adt, _) = ty.kind() {
                return path_of(self.tcx, adt.did());
            }
        }
        path_of(self.tcx, impl_did)
    }

    /// user variables keep their name; compiler-generated bindings of a desugaring (e.g. the `lhs`
    /// temporaries of a destructuring assignment) get a unique suffix so that they do not collide
    fn local_name(&self, id: hir::HirId) -> String {
        let ident = self.tcx.hir_ident(id);
        let mut desugared = ident.span.desugaring_kind().is_some();
        if !desugared {
            for (_, node) in self.tcx.hir_parent_iter(id).take(4) {
                if let hir::Node::LetStmt(l) = node {
                    if matches!(l.source, hir::LocalSource::AssignDesugar) {
                        desugared = true;
                    }
                    break;
                }
            }
        }
        if desugared {
            format!("{}#{}", ident.name, id.local_id.as_u32())
        } else {
            ident.name.to_string()
        }
    }

    fn qpath(&self, q: &hir::QPath<'tcx>, id: hir::HirId) -> J {
        self.res(self.tr.qpath_res(q, id))
    }

    fn lit(&self, l: &hir::Lit, negated: bool) -> J {
        match &l.node {
            LitKind::Str(sym, _) => J::O(vec![("str", s(sym.to_string()))]),
            LitKind::ByteStr(b, _) => J::O(vec![("bytes", s(String::from_utf8_lossy(b.as_byte_str()).to_string()))]),
            LitKind::Byte(b) => J::O(vec![("int", J::U(*b as u128))]),
            LitKind::Char(c) => J::O(vec![("char", s(c.to_string()))]),
            LitKind::Int(v, _) => {
                if negated {
                    J::O(vec![("int", J::I(-(v.get() as i128)))])
                } else {
                    J::O(vec![("int", J::U(v.get()))])
                }
            }
            LitKind::Float(sym, _) => {
                let txt = sym.to_string().replace('_', "");
                let v: f64 = txt.parse().unwrap_or(f64::NAN);
                J::O(vec![("float", J::F(if negated { -v } else { v })), ("text", s(txt))])
            }
            LitKind::Bool(b) => J::O(vec![("bool", J::Bool(*b))]),
            other => J::O(vec![("lit", s(format!("{:?}", other)))]),
        }
    }

    fn block(&mut self, b: &hir::Block<'tcx>) -> J {
        let mut stmts = Vec::new();
        for st in b.stmts {
            match st.kind {
                hir::StmtKind::Let(l) => {
                    stmts.push(J::O(vec![
                        ("k", s("let")),
                        ("pat", self.pat(l.pat)),
                        ("init", opt(l.init, |e| self.expr(e))),
                        ("els", opt(l.els, |b| self.block(b))),
                        ("l", line_j(self.tcx, st.span)),
                    ]));
                }
                hir::StmtKind::Expr(e) => stmts.push(self.expr(e)),
                hir::StmtKind::Semi(e) => {
                    stmts.push(J::O(vec![("k", s("semi")), ("e", self.expr(e))]));
                }
                hir::StmtKind::Item(_) => {}
            }
        }
        J::O(vec![
            ("k", s("block")),
            ("stmts", J::A(stmts)),
            ("expr", opt(b.expr, |e| self.expr(e))),
            ("unsafe", J::Bool(matches!(b.rules, hir::BlockCheckMode::UnsafeBlock(_)))),
        ])
    }

    pub fn pat(&mut self, p: &hir::Pat<'tcx>) -> J {
        match p.kind {
            hir::PatKind::Wild => J::O(vec![("k", s("wild"))]),
            hir::PatKind::Missing => J::O(vec![("k", s("wild"))]),
            hir::PatKind::Never => J::O(vec![("k", s("never"))]),
            hir::PatKind::Binding(mode, id, _ident, sub) => J::O(vec![
                ("k", s("bind")),
                ("name", s(self.local_name(id))),
                ("byref", J::Bool(!matches!(mode.0, hir::ByRef::No))),
                ("sub", opt(sub, |x| self.pat(x))),
            ]),
            hir::PatKind::Struct(ref q, fields, rest) => {
                let fs: Vec<J> = fields
                    .iter()
                    .map(|f| J::A(vec![s(f.ident.name.to_string()), self.pat(f.pat)]))
                    .collect();
                J::O(vec![
                    ("k", s("struct")),
                    ("path", self.qpath(q, p.hir_id)),
                    ("fields", J::A(fs)),
                    ("rest", J::Bool(rest.is_some())),
                ])
            }
            hir::PatKind::TupleStruct(ref q, pats, dd) => {
                let ps: Vec<J> = pats.iter().map(|x| self.pat(x)).collect();
                J::O(vec![("k", s("tstruct")), ("path", self.qpath(q, p.hir_id)), ("pats", J::A(ps)),
                          ("ddpos", match dd.as_opt_usize() { Some(i) => J::I(i as i128), None => J::Null })])
            }
            hir::PatKind::Or(pats) => {
                let ps: Vec<J> = pats.iter().map(|x| self.pat(x)).collect();
                J::O(vec![("k", s("or")), ("pats", J::A(ps))])
            }
            hir::PatKind::Tuple(pats, dd) => {
                let ps: Vec<J> = pats.iter().map(|x| self.pat(x)).collect();
                J::O(vec![("k", s("tuple")), ("pats", J::A(ps)),
                          ("ddpos", match dd.as_opt_usize() { Some(i) => J::I(i as i128), None => J::Null })])
            }
            hir::PatKind::Box(x) | hir::PatKind::Deref(x) => J::O(vec![("k", s("deref")), ("pat", self.pat(x))]),
            hir::PatKind::Ref(x, ..) => J::O(vec![("k", s("ref")), ("pat", self.pat(x))]),
            hir::PatKind::Expr(pe) => self.pat_expr(pe),
            hir::PatKind::Guard(x, g) => {
                J::O(vec![("k", s("guard")), ("pat", self.pat(x)), ("cond", self.expr(g))])
            }
            hir::PatKind::Range(lo, hi, end) => J::O(vec![
                ("k", s("range")),
                ("lo", opt(lo, |x| self.pat_expr(x))),
                ("hi", opt(hi, |x| self.pat_expr(x))),
                ("inclusive", J::Bool(matches!(end, hir::RangeEnd::Included))),
            ]),
            hir::PatKind::Slice(a, m, b) => {
                let av: Vec<J> = a.iter().map(|x| self.pat(x)).collect();
                let bv: Vec<J> = b.iter().map(|x| self.pat(x)).collect();
                J::O(vec![
                    ("k", s("slice")),
                    ("before", J::A(av)),
                    ("mid", opt(m, |x| self.pat(x))),
                    ("after", J::A(bv)),
                ])
            }
            hir::PatKind::Err(_) => J::O(vec![("k", s("err"))]),
        }
    }

    fn pat_expr(&mut self, pe: &hir::PatExpr<'tcx>) -> J {
        match &pe.kind {
            hir::PatExprKind::Lit { lit, negated } => J::O(vec![("k", s("lit")), ("v", self.lit(lit, *negated))]),
            hir::PatExprKind::Path(q) => {
                let mut o = vec![("k", s("path")), ("path", self.qpath(q, pe.hir_id))];
                // constant patterns: give the value when it is a scalar
                if let Res::Def(hir::def::DefKind::Const { .. } | hir::def::DefKind::AssocConst { .. }, did) =
                    self.tr.qpath_res(q, pe.hir_id)
                {
                    if !self.tcx.generics_of(did).requires_monomorphization(self.tcx) {
                        if let Ok(cv) = self.tcx.const_eval_poly(did) {
                            let ty = self.tcx.type_of(did).instantiate_identity().skip_norm_wip();
                            o.push(("val", crate::mirx::const_value_j(self.tcx, cv, ty)));
                        }
                    }
                }
                J::O(o)
            }
        }
    }

    fn callee_j(&self, did: rustc_hir::def_id::DefId, id: hir::HirId) -> Vec<(&'static str, J)> {
        let tcx = self.tcx;
        let mut o: Vec<(&'static str, J)> = vec![("fn", s(path_of(tcx, did)))];
        let args = self.tr.node_args(id);
        let owner = self.tr.hir_owner.def_id.to_def_id();
        let env = ty::TypingEnv::post_analysis(tcx, owner);
        if args.len() != tcx.generics_of(did).count() {
            return o;
        }
        o.push(("full", s(tcx.def_path_str_with_args(did, args))));
        {
            use rustc_middle::ty::TypeVisitableExt;
            if args.has_infer() || args.has_escaping_bound_vars() {
                return o;
            }
        }
        if let Ok(Some(inst)) = ty::Instance::try_resolve(tcx, env, did, args) {
            if inst.def_id() != did {
                o.push(("resolved", s(path_of(tcx, inst.def_id()))));
            }
        }
        o
    }

    pub fn expr(&mut self, e: &hir::Expr<'tcx>) -> J {
        let mut o: Vec<(&'static str, J)> = Vec::new();
        let ty = self.tr.expr_ty_opt(e);
        match e.kind {
            hir::ExprKind::DropTemps(x) => return self.expr(x),
            hir::ExprKind::Use(x, _) => return self.expr(x),
            hir::ExprKind::Type(x, _) => return self.expr(x),
            hir::ExprKind::ConstBlock(ref cb) => {
                o.push(("k", s("constblock")));
                let b = self.tcx.hir_body(cb.body);
                o.push(("e", self.expr(b.value)));
            }
            hir::ExprKind::Array(xs) => {
                o.push(("k", s("array")));
                o.push(("es", J::A(xs.iter().map(|x| self.expr(x)).collect())));
            }
            hir::ExprKind::Tup(xs) => {
                o.push(("k", s("tup")));
                o.push(("es", J::A(xs.iter().map(|x| self.expr(x)).collect())));
            }
            hir::ExprKind::Call(f, args) => {
                o.push(("k", s("call")));
                if let hir::ExprKind::Path(ref q) = f.kind {
                    let r = self.tr.qpath_res(q, f.hir_id);
                    if let Res::Def(_, did) = r {
                        if matches!(
                            self.tcx.def_kind(did),
                            hir::def::DefKind::Fn | hir::def::DefKind::AssocFn
                        ) {
                            o.extend(self.callee_j(did, f.hir_id));
                        } else {
                            o.push(("ctor", s(path_of(self.tcx, did))));
                        }
                    } else {
                        o.push(("f", self.expr(f)));
                    }
                } else {
                    o.push(("f", self.expr(f)));
                }
                o.push(("args", J::A(args.iter().map(|x| self.expr(x)).collect())));
            }
            hir::ExprKind::MethodCall(seg, recv, args, _) => {
                o.push(("k", s("mcall")));
                o.push(("name", s(seg.ident.name.to_string())));
                if let Some(did) = self.tr.type_dependent_def_id(e.hir_id) {
                    o.extend(self.callee_j(did, e.hir_id));
                }
                o.push(("recv", self.expr(recv)));
                o.push(("recv_ty", opt(self.tr.expr_ty_adjusted_opt(recv), |t| s(t.to_string()))));
                o.push(("args", J::A(args.iter().map(|x| self.expr(x)).collect())));
            }
            hir::ExprKind::Binary(op, a, b) => {
                o.push(("k", s("bin")));
                o.push(("op", s(op.node.as_str())));
                o.push(("a", self.expr(a)));
                o.push(("b", self.expr(b)));
                if let Some(did) = self.tr.type_dependent_def_id(e.hir_id) {
                    o.push(("overloaded", s(path_of(self.tcx, did))));
                }
            }
            hir::ExprKind::Unary(op, a) => {
                o.push(("k", s("un")));
                o.push(("op", s(op.as_str())));
                o.push(("a", self.expr(a)));
                if let Some(did) = self.tr.type_dependent_def_id(e.hir_id) {
                    o.push(("overloaded", s(path_of(self.tcx, did))));
                }
            }
            hir::ExprKind::Lit(l) => {
                o.push(("k", s("lit")));
                o.push(("v", self.lit(&l, false)));
            }
            hir::ExprKind::Cast(x, _) => {
                o.push(("k", s("cast")));
                o.push(("e", self.expr(x)));
                o.push(("from", opt(self.tr.expr_ty_opt(x), |t| s(t.to_string()))));
            }
            hir::ExprKind::Let(l) => {
                o.push(("k", s("letx")));
                o.push(("pat", self.pat(l.pat)));
                o.push(("init", self.expr(l.init)));
            }
            hir::ExprKind::If(c, t, f) => {
                o.push(("k", s("if")));
                o.push(("cond", self.expr(c)));
                o.push(("then", self.expr(t)));
                o.push(("else", opt(f, |x| self.expr(x))));
            }
            hir::ExprKind::Loop(b, _, src, _) => {
                o.push(("k", s("loop")));
                o.push(("src", s(format!("{:?}", src))));
                o.push(("body", self.block(b)));
            }
            hir::ExprKind::Match(scrut, arms, src) => {
                o.push(("k", s("match")));
                o.push(("src", s(format!("{:?}", src).split('(').next().unwrap_or("").to_string())));
                o.push(("scrut", self.expr(scrut)));
                o.push(("scrut_ty", opt(self.tr.expr_ty_opt(scrut), |t| s(t.to_string()))));
                let av: Vec<J> = arms
                    .iter()
                    .map(|a| {
                        J::O(vec![
                            ("pat", self.pat(a.pat)),
                            ("guard", opt(a.guard, |g| self.expr(g))),
                            ("body", self.expr(a.body)),
                            ("l", line_j(self.tcx, a.span)),
                        ])
                    })
                    .collect();
                o.push(("arms", J::A(av)));
            }
            hir::ExprKind::Closure(c) => {
                o.push(("k", s("closure")));
                o.push(("def", s(path_of(self.tcx, c.def_id.to_def_id()))));
                let b = self.tcx.hir_body(c.body);
                o.push(("params", J::A(b.params.iter().map(|p| self.pat(p.pat)).collect())));
                o.push(("body", self.expr(b.value)));
            }
            hir::ExprKind::Block(b, _) => {
                return self.block(b);
            }
            hir::ExprKind::Assign(a, b, _) => {
                o.push(("k", s("assign")));
                o.push(("a", self.expr(a)));
                o.push(("b", self.expr(b)));
            }
            hir::ExprKind::AssignOp(op, a, b) => {
                o.push(("k", s("assignop")));
                o.push(("op", s(op.node.as_str())));
                o.push(("a", self.expr(a)));
                o.push(("b", self.expr(b)));
            }
            hir::ExprKind::Field(x, id) => {
                o.push(("k", s("field")));
                o.push(("name", s(id.name.to_string())));
                o.push(("e", self.expr(x)));
                o.push(("of", opt(self.tr.expr_ty_adjusted_opt(x), |t| s(t.to_string()))));
            }
            hir::ExprKind::Index(a, b, _) => {
                o.push(("k", s("index")));
                o.push(("a", self.expr(a)));
                o.push(("b", self.expr(b)));
                o.push(("of", opt(self.tr.expr_ty_adjusted_opt(a), |t| s(t.to_string()))));
            }
            hir::ExprKind::Path(ref q) => {
                o.push(("k", s("path")));
                let r = self.tr.qpath_res(q, e.hir_id);
                o.push(("res", self.res(r)));
                if let Res::Def(hir::def::DefKind::Const { .. } | hir::def::DefKind::AssocConst { .. }, did) = r {
                    if !self.tcx.generics_of(did).requires_monomorphization(self.tcx) {
                        if let Ok(cv) = self.tcx.const_eval_poly(did) {
                            let cty = self.tcx.type_of(did).instantiate_identity().skip_norm_wip();
                            o.push(("val", crate::mirx::const_value_j(self.tcx, cv, cty)));
                        }
                    }
                }
            }
            hir::ExprKind::AddrOf(_, m, x) => {
                o.push(("k", s("addr")));
                o.push(("mut", J::Bool(m.is_mut())));
                o.push(("e", self.expr(x)));
            }
            hir::ExprKind::Break(_, x) => {
                o.push(("k", s("break")));
                o.push(("e", opt(x, |x| self.expr(x))));
            }
            hir::ExprKind::Continue(_) => {
                o.push(("k", s("continue")));
            }
            hir::ExprKind::Ret(x) => {
                o.push(("k", s("ret")));
                o.push(("e", opt(x, |x| self.expr(x))));
            }
            hir::ExprKind::Struct(q, fields, tail) => {
                o.push(("k", s("struct")));
                o.push(("path", self.qpath(q, e.hir_id)));
                let fs: Vec<J> = fields
                    .iter()
                    .map(|f| J::A(vec![s(f.ident.name.to_string()), self.expr(f.expr)]))
                    .collect();
                o.push(("fields", J::A(fs)));
                match tail {
                    hir::StructTailExpr::Base(b) => o.push(("base", self.expr(b))),
                    hir::StructTailExpr::DefaultFields(_) => o.push(("base", s("default_fields"))),
                    _ => {}
                }
            }
            hir::ExprKind::Repeat(x, _) => {
                o.push(("k", s("repeat")));
                o.push(("e", self.expr(x)));
            }
            _ => {
                o.push(("k", s("other")));
                o.push(("dbg", s(format!("{:?}", e.kind).chars().take(40).collect::<String>())));
            }
        }
        o.push(("ty", opt(ty, |t| s(t.to_string()))));
        o.push(("l", line_j(self.tcx, e.span)));
        J::O(o)
    }
}
