#!/bin/bash
# usage: run_export.sh <repo-src-dir> <out-dir> <cargo args...>
# Exports facts for the tree at <repo-src-dir> (a scratch copy) into <out-dir>.
set -euo pipefail
SRC="$1"; OUT="$2"; shift 2
HERE="$(cd "$(dirname "$0")" && pwd)"
mkdir -p "$OUT"
TGT="$(mktemp -d /tmp/tfacts-target.XXXXXX)"
trap 'rm -rf "$TGT"' EXIT
cd "$SRC"
env CARGO_NET_OFFLINE=true \
  LD_LIBRARY_PATH="$(rustc +nightly --print sysroot)/lib" \
  RUSTFLAGS="-Zmir-opt-level=0 -Awarnings" \
  RUSTC_WRAPPER="$HERE/target/release/tfacts" \
  TFACTS_OUT="$OUT" \
  TFACTS_CRATES="${TFACTS_CRATES:-temporal_rs,temporal_capi,temporal_provider,icu_calendar}" \
  TFACTS_HIR_ONLY="${TFACTS_HIR_ONLY:-icu_calendar}" \
  CARGO_TARGET_DIR="$TGT" \
  cargo +nightly check --offline "$@"
